"""Apply candidate repairs to a scratch copy of /repo and run the baseline suite.
usage: try_candidates.py            -> each candidate group alone, then all together
"""
import json, os, shutil, subprocess, sys, tempfile
import xml.etree.ElementTree as ET

HERE = os.path.dirname(os.path.abspath(__file__))
sys.path.insert(0, HERE)
from candidates import C  # noqa: E402

STABLE = set(json.load(open("/root/.vp/BASELINE.json"))["stable_pass"])
GROUPS = {}
for c in C:
    g = ("registry_cache" if c["id"].startswith("registry_cache")
         else "nmi_kt" if c["id"] in ("nmi_exact", "kt_exact")
         else "dims_singletons" if c["id"] in ("dims_singletons_helper", "dims_singletons_apply", "registry_deepcopy_entries", "unit_copy_dims")
         else c["id"])
    GROUPS.setdefault(g, []).append(c)


def passing(junit):
    out = set()
    for tc in ET.parse(junit).getroot().iter("testcase"):
        if any(ch.tag in ("failure", "error", "skipped") for ch in tc):
            continue
        out.add(f"{tc.get('classname')}::{tc.get('name')}")
    return out


def run(name, cands):
    tmp = tempfile.mkdtemp(prefix="unyt-fix-", dir="/tmp")
    try:
        dst = os.path.join(tmp, "repo")
        shutil.copytree("/repo", dst, ignore=shutil.ignore_patterns(".git", "__pycache__", ".benchmarks"))
        for c in cands:
            p = os.path.join(dst, c["file"]); s = open(p, encoding="utf8").read()
            assert s.count(c["old"]) == 1, (c["id"], s.count(c["old"]))
            open(p, "w", encoding="utf8").write(s.replace(c["old"], c["new"]))
        env = dict(os.environ, PYTHONPATH=dst, PYTHONDONTWRITEBYTECODE="1")
        junit = os.path.join(tmp, "j.xml")
        r = subprocess.run(["/venv/bin/python", "-m", "pytest", "-q", "-p", "no:cacheprovider", "--timeout=900",
                            "--continue-on-collection-errors", "-n", "4", f"--junitxml={junit}"],
                           env=env, cwd=dst, capture_output=True, text=True, timeout=1800)
        got = passing(junit)
        lost = sorted(STABLE - got)
        print(f"{name:28s} baseline-passing lost: {len(lost)} {lost[:4]}  newly passing: {len(got - STABLE)}", flush=True)
        return lost
    finally:
        shutil.rmtree(tmp, ignore_errors=True)


if __name__ == "__main__":
    for g, cs in GROUPS.items():
        run(g, cs)
    run("ALL", C)
