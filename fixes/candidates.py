"""Candidate repairs for genuine defects found while designing (DESIGN.md, "B" items).

NOT applied to /repo yet: each becomes its own `fix:` commit only after the corresponding checker
has reproduced the violation on the unchanged tree.  `try_candidates.py` applies them (one at a
time and all together) to a scratch copy and runs the baseline suite, so that the later commits
are known to keep the 652 baseline tests green.
Entry: (id, properties it repairs, file, old, new)  -- `old` occurs exactly once.
"""
C = []


def c(cid, props, path, old, new):
    C.append({"id": cid, "props": props, "file": path, "old": old, "new": new})


A = "unyt/array.py"
F = "unyt/_array_functions.py"
U = "unyt/unit_object.py"
R = "unyt/unit_registry.py"
T = "unyt/_unit_lookup_table.py"
X = "unyt/_parsing.py"

c("hstack_impl", "C06", F,
  "    ret_units = _validate_units_consistency(tup)\n    return np.vstack._implementation([np.asarray(_) for _ in tup], **kwargs) * ret_units\n\n\n@implements(np.dstack)",
  "    ret_units = _validate_units_consistency(tup)\n    return np.hstack._implementation([np.asarray(_) for _ in tup], **kwargs) * ret_units\n\n\n@implements(np.dstack)")

c("allclose_bare_atol", "C19", A,
  "    act = unyt_array(actual)\n    des = unyt_array(desired)\n\n    try:\n        des = des.in_units(act.units)\n    except (UnitOperationError, UnitConversionError):\n        return False\n\n    rt = unyt_array(rtol)\n    if not rt.units.is_dimensionless:\n        raise RuntimeError(f\"Units of rtol ({rt.units}) are not dimensionless\")\n\n    if not isinstance(atol, unyt_array):\n        at = unyt_quantity(atol, des.units)\n    else:\n        at = atol\n\n    try:\n        at = at.in_units(act.units)\n    except (UnitOperationError, UnitConversionError):\n        return False\n",
  "    act = unyt_array(actual)\n    des = unyt_array(desired)\n\n    # a bare atol is documented to be in the units of ``desired``\n    if not isinstance(atol, unyt_array):\n        at = unyt_quantity(atol, des.units)\n    else:\n        at = atol\n\n    try:\n        des = des.in_units(act.units)\n    except (UnitOperationError, UnitConversionError):\n        return False\n\n    rt = unyt_array(rtol)\n    if not rt.units.is_dimensionless:\n        raise RuntimeError(f\"Units of rtol ({rt.units}) are not dimensionless\")\n\n    try:\n        # atol is a difference: convert its scale, never apply an offset\n        at = at.value * at.units.get_conversion_factor(act.units)[0]\n        at = unyt_array(at, act.units)\n    except (UnitOperationError, UnitConversionError):\n        return False\n")

c("parse_delta_degree", "C11,C20", X,
  "    unit_expr = unit_expr.replace(\"°\", \"deg\")\n",
  "    # str() of delta_degC / delta_degF is \"Δ°C\" / \"Δ°F\"\n    unit_expr = unit_expr.replace(\"Δ°\", \"delta_deg\")\n    unit_expr = unit_expr.replace(\"°\", \"deg\")\n")

c("nmi_exact", "C02", T,
  '        ("nmi", (m_per_mile * 1.1508, dimensions.length, 0.0, r"\\rm{nmi}", False)),',
  '        ("nmi", (1852.0, dimensions.length, 0.0, r"\\rm{nmi}", False)),')
c("kt_exact", "C02", T,
  "                m_per_mile * 1.1508 / sec_per_hr,",
  "                1852.0 / sec_per_hr,")

c("det_stack_power", "C07", F,
  "        * a.units ** (a.shape[0])",
  "        * a.units ** (a.shape[-1])")

# lstsq residual units (bu/au instead of bu**2): NOT a fix candidate -- test_linalg_lstsq asserts the
# wrong unit, and the baseline suite must pass unedited.  Stays a known finding.

c("complex_second_operand", "C17", A,
  "                    new_dtype = np.dtype(\"f\" + str(inp1.dtype.itemsize))",
  "                    new_dtype = np.dtype(\n                        (\"c\" if inp1.dtype.kind == \"c\" else \"f\")\n                        + str(inp1.dtype.itemsize)\n                    )")

c("registry_cache_add", "C12", R,
  "        # Add to lut\n        self.lut[symbol] = (base_value, dimensions, offset, tex_repr, prefixable)",
  "        # Add to lut\n        self._forget_derived(symbol)\n        self.lut[symbol] = (base_value, dimensions, offset, tex_repr, prefixable)")
c("registry_cache_remove", "C12", R,
  "        del self.lut[symbol]\n        if symbol in self._unit_object_cache:\n            del self._unit_object_cache[symbol]",
  "        self._forget_derived(symbol)\n        del self.lut[symbol]")
c("registry_cache_modify", "C12", R,
  "        self.lut[symbol] = (float(base_value), new_dimensions) + self.lut[symbol][2:]\n        if symbol in self._unit_object_cache:\n            del self._unit_object_cache[symbol]",
  "        self._forget_derived(symbol)\n        self.lut[symbol] = (float(base_value), new_dimensions) + self.lut[symbol][2:]")
c("registry_cache_helper", "C12", R,
  "    def keys(self):\n        \"\"\"\n        Print out the units contained in the lookup table.",
  "    def _forget_derived(self, symbol):\n        \"\"\"Drop everything memoised from the current entry for *symbol*:\n        cached Unit objects (any cached string may mention the symbol) and the\n        SI-prefixed entries that _lookup_unit_symbol derived from it.\"\"\"\n        self._unit_object_cache.clear()\n        entry = self.lut.get(symbol)\n        if entry is None or not entry[4]:\n            return\n        for prefix, (value, _) in unit_prefixes.items():\n            derived = self.lut.get(prefix + symbol)\n            if (\n                derived is not None\n                and not derived[4]\n                and derived[0] == entry[0] * value\n                and derived[1] == entry[1]\n            ):\n                del self.lut[prefix + symbol]\n\n    def keys(self):\n        \"\"\"\n        Print out the units contained in the lookup table.")

c("convert_small_int_order", "C18", A,
  "            self.units = new_units\n            values = self.d\n            # if our dtype is an integer do the following somewhat awkward\n            # dance to change the dtype in-place. We can't use astype\n            # directly because that will create a copy and not update self\n            if self.dtype.kind in (\"u\", \"i\"):\n                # create a copy of the original data in floating point\n                # form, it's possible this may lose precision for very\n                # large integers\n                dsize = values.dtype.itemsize\n                if dsize == 1:\n                    raise ValueError(\n                        \"Can't convert memory buffer in place. \"\n                        f\"Input dtype ({self.dtype}) has a smaller itemsize than the \"\n                        \"smallest floating point representation possible.\"\n                    )\n",
  "            values = self.d\n            if self.dtype.kind in (\"u\", \"i\") and values.dtype.itemsize == 1:\n                raise ValueError(\n                    \"Can't convert memory buffer in place. \"\n                    f\"Input dtype ({self.dtype}) has a smaller itemsize than the \"\n                    \"smallest floating point representation possible.\"\n                )\n            self.units = new_units\n            # if our dtype is an integer do the following somewhat awkward\n            # dance to change the dtype in-place. We can't use astype\n            # directly because that will create a copy and not update self\n            if self.dtype.kind in (\"u\", \"i\"):\n                # create a copy of the original data in floating point\n                # form, it's possible this may lose precision for very\n                # large integers\n                dsize = values.dtype.itemsize\n")

c("reduce_default_axis", "C04", A,
  "    if input_kwarg_dict.get(\"axis\", None) is not None:\n        unit = in_unit ** (power_map(in_shape[input_kwarg_dict[\"axis\"]]))",
  "    # ufunc.reduce reduces over axis 0 unless told otherwise\n    axis = input_kwarg_dict.get(\"axis\", 0)\n    if axis is not None and in_shape:\n        if not isinstance(axis, tuple):\n            axis = (axis,)\n        nelem = 1\n        for ax in axis:\n            nelem *= in_shape[ax]\n        unit = in_unit ** (power_map(nelem))")

c("parse_symbolic_exponent", "C20", U,
  "        if isinstance(power, Symbol):\n            raise UnitParseError(f\"Invalid unit expression '{unit_expr}'.\")",
  "        if not (power.is_number and power.is_finite):\n            raise UnitParseError(f\"Invalid unit expression '{unit_expr}'.\")")

c("parse_nonfinite_number", "C20", U,
  "        if unit_expr is sympy_one:\n            return (1.0, sympy_one)\n        return (float(unit_expr), sympy_one)",
  "        if unit_expr is sympy_one:\n            return (1.0, sympy_one)\n        if unit_expr.is_finite is not True:\n            raise UnitParseError(f\"Invalid unit expression '{unit_expr}'.\")\n        return (float(unit_expr), sympy_one)")

# ---- C11: keep unyt's dimension singletons through pickle / deepcopy / Unit.copy
c("dims_singletons_helper", "C11", R,
  "def _correct_old_unit_registry(data, sympify=False):\n    lut = {}\n",
  "def _use_dimension_singletons(lut):\n    \"\"\"Rebuild the dimensions of every entry from unyt's own dimension symbols.\n\n    Unpickled sympy symbols are equal but not identical to the module-level\n    singletons, and a lot of unyt compares dimensions with ``is``.\n    \"\"\"\n    by_name = {\n        d.name: d for d in unyt_dims.base_dimensions if getattr(d, \"is_Symbol\", False)\n    }\n    memo = {}\n    for key, entry in lut.items():\n        dims = entry[1]\n        if id(dims) not in memo:\n            repl = {\n                s: by_name[s.name]\n                for s in getattr(dims, \"free_symbols\", ())\n                if s.name in by_name and s is not by_name[s.name]\n            }\n            memo[id(dims)] = (dims, dims.xreplace(repl) if repl else dims)\n        new_dims = memo[id(dims)][1]\n        if new_dims is not dims:\n            lut[key] = (entry[0], new_dims) + tuple(entry[2:])\n    return lut\n\n\ndef _correct_old_unit_registry(data, sympify=False):\n    lut = {}\n")
c("dims_singletons_apply", "C11", R,
  "    for k in default_unit_symbol_lut:\n        if k not in lut:\n            lut[k] = default_unit_symbol_lut[k]\n    return lut",
  "    for k in default_unit_symbol_lut:\n        if k not in lut:\n            lut[k] = default_unit_symbol_lut[k]\n    return _use_dimension_singletons(lut)")
c("registry_deepcopy_entries", "C11", R,
  "        lut = copy.deepcopy(self.lut)\n        return type(self)(lut=lut)",
  "        # entries are immutable tuples; copying the sympy dimension objects\n        # would break identity with unyt's dimension singletons\n        lut = dict(self.lut)\n        return type(self)(lut=lut)")
c("unit_copy_dims", "C11", U,
  "        dimensions = copy.deepcopy(self.dimensions)",
  "        dimensions = self.dimensions")

# ---- C08/C18: refuse offset-temperature multiply/divide before the ufunc has written anything
c("temp_guard_before_eval", "C08,C18", A,
  "            # get the unit of the result\n            mul, unit = unit_operator(u0, u1)\n            # actually evaluate the ufunc\n",
  "            if unit_operator in (_multiply_units, _divide_units) and (\n                u0.base_offset\n                and u0.dimensions is temperature\n                or u1.base_offset\n                and u1.dimensions is temperature\n            ):\n                # refuse before evaluating: with out= (or an in-place operator)\n                # the ufunc would already have overwritten its target\n                raise InvalidUnitOperation(\n                    \"Quantities with units of Fahrenheit or Celsius \"\n                    \"cannot be multiplied, divided, subtracted or added.\"\n                )\n            # get the unit of the result\n            mul, unit = unit_operator(u0, u1)\n            # actually evaluate the ufunc\n")

# ---- C04: floor division of commensurable operands must floor the *converted* quotient
c("floor_divide_rescale", "C04", A,
  "            # get the unit of the result\n            mul, unit = unit_operator(u0, u1)\n            # actually evaluate the ufunc\n",
  "            if (\n                ufunc is floor_divide\n                and u0 is not u1\n                and u0 != u1\n                and not u0.is_dimensionless\n                and u0.same_dimensions_as(u1)\n            ):\n                # floor(a/b) is not scale covariant: bring b to a's units first\n                conv, _ = u1.get_conversion_factor(u0, inp1.dtype)\n                inp1 = np.asarray(inp1, dtype=np.result_type(inp1.dtype, np.float16)) * conv\n                u1 = u0\n            # get the unit of the result\n            mul, unit = unit_operator(u0, u1)\n            # actually evaluate the ufunc\n")
