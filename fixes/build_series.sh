#!/bin/bash
# builds branch <name> in scratch worktree <dir> from /repo HEAD by applying fixes/${SERIES:-/verif/fixes/series2.txt} in order; stops at the first failure
set -u
dir=${1:-/tmp/fixwt}; br=${2:-fixes2}; P=/verif/fixes/proposed
git -C /repo worktree remove --force "$dir" 2>/dev/null; git -C /repo branch -D "$br" 2>/dev/null
git -C /repo worktree add -q -b "$br" "$dir" HEAD || exit 1
grep -v '^#' ${SERIES:-/verif/fixes/series2.txt} | while IFS='|' read -r f msg; do
  [ -z "$f" ] && continue
  if git -C "$dir" apply "$P/$f" 2>/dev/null || (cd "$dir" && patch -s -p1 < "$P/$f"); then
    git -C "$dir" commit -qam "$msg" && echo "OK   $f"
  else echo "FAIL $f"; exit 1; fi
done
