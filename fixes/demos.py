"""One concrete failing input per repaired defect.  Prints name -> OK/BROKEN.  Run with PYTHONPATH=<tree>."""
import pickle, copy, warnings, sys
import numpy as np
warnings.simplefilter("ignore")
import unyt as u
from unyt import unyt_array, unyt_quantity, Unit, UnitRegistry
from unyt.exceptions import UnitParseError
R = {}
def demo(f):
    try: R[f.__name__] = bool(f())
    except Exception as e: R[f.__name__] = f"EXC {type(e).__name__}: {e}"
    return f
@demo
def hstack_impl(): return np.hstack([[1, 2] * u.m, [3] * u.m]).shape == (3,)
@demo
def allclose_bare_atol(): return u.allclose_units([1, 2] * u.m, [100.5, 200.5] * u.cm, rtol=0, atol=0.01) is False or not u.allclose_units([1, 2] * u.m, [100.5, 200.5] * u.cm, rtol=0, atol=0.01)
@demo
def parse_delta_degree(): return Unit(str(u.delta_degC)) == u.delta_degC and pickle.loads(pickle.dumps([1.0] * u.delta_degF)).units == u.delta_degF
@demo
def nmi_kt(): return Unit("nmi").base_value == 1852.0 and abs(Unit("kt").base_value - 1852.0 / 3600) < 1e-15
@demo
def det_stack_power():
    a = np.stack([np.eye(2) * 2, np.eye(2) * 3, np.eye(2)]) * u.m
    return np.linalg.det(a).units == u.m**2
@demo
def complex_second_operand():
    r = (1.0 * u.m) + unyt_quantity(1 + 2j, "cm")
    return r.dtype.kind == "c" and abs(r.d.imag - 0.02) < 1e-12
@demo
def registry_cache():
    reg = UnitRegistry(); reg.add("foo", 2.0, u.dimensions.length, prefixable=True)
    a = Unit("kfoo", registry=reg).base_value, Unit("foo*s", registry=reg).base_value
    reg.modify("foo", 3.0)
    b = Unit("kfoo", registry=reg).base_value, Unit("foo*s", registry=reg).base_value
    reg.remove("foo")
    try: Unit("kfoo", registry=reg); gone = False
    except UnitParseError: gone = True
    return a == (2000.0, 2.0) and b == (3000.0, 3.0) and gone
@demo
def convert_small_int_order():
    a = unyt_array(np.array([1, 2], dtype="int8"), "km")
    try: a.convert_to_units("m")
    except ValueError: pass
    return str(a.units) == "km"
@demo
def reduce_default_axis():
    a = unyt_array(np.arange(1.0, 7.0).reshape(2, 3), "m")
    return np.multiply.reduce(a).units == u.m**2 and np.multiply.reduce(a, axis=(0, 1)).units == u.m**6
@demo
def parse_symbolic_exponent():
    try: Unit("m**(2*s)")
    except UnitParseError: return True
    return False
@demo
def parse_nonfinite_number():
    try: Unit("m**(1/0)")
    except UnitParseError: return True
    return False
@demo
def dims_singletons():
    x = unyt_array([90.0], "degree"); r = pickle.loads(pickle.dumps(x)); d = copy.deepcopy(x)
    return abs(float(np.sin(r)[0]) - 1) < 1e-12 and abs(float(np.sin(d)[0]) - 1) < 1e-12 and abs(float(np.sin(unyt_array([90.0], x.units.copy()))[0]) - 1) < 1e-12
@demo
def temp_guard_before_eval():
    a = unyt_array([1.0, 2.0], "degC")
    try: a *= 2
    except Exception: pass
    return list(a.d) == [1.0, 2.0]
@demo
def floor_divide_rescale(): return float((1 * u.km) // (3 * u.m)) == 333.0
for k, v in R.items(): print(f"{k:28s} {'OK' if v is True else 'BROKEN ' + str(v)}")
