"""apply one candidate group to /repo and commit it as a fix: commit.  usage: apply_group.py <group> <message>"""
import subprocess, sys
sys.path.insert(0, "/verif/fixes")
from candidates import C
from try_candidates import GROUPS
g, msg = sys.argv[1], sys.argv[2]
files = set()
for c in GROUPS[g]:
    p = "/repo/" + c["file"]; s = open(p, encoding="utf8").read()
    assert s.count(c["old"]) == 1, (c["id"], s.count(c["old"]))
    open(p, "w", encoding="utf8").write(s.replace(c["old"], c["new"])); files.add(c["file"])
subprocess.check_call(["git", "-C", "/repo", "add", *sorted(files)])
subprocess.check_call(["git", "-C", "/repo", "commit", "-q", "-m", msg])
print(subprocess.check_output(["git", "-C", "/repo", "log", "--oneline", "-1"], text=True))
