"""Dimension vectors: 8 Fraction exponents over the base dimensions, read off a sympy expression by symbol NAME."""
from fractions import Fraction as Fr

BASE = ("(mass)", "(length)", "(time)", "(temperature)", "(angle)", "(current_mks)", "(luminous_intensity)", "(logarithmic)")
IDX = {n: i for i, n in enumerate(BASE)}
ZERO = (Fr(0),) * 8
SHORT = {"M": 0, "L": 1, "T": 2, "K": 3, "A": 4, "I": 5, "J": 6, "LOG": 7}


def D(spec=""):
    """D('M L2 T-2') ; exponents may be rationals like L3/2"""
    v = [Fr(0)] * 8
    for tok in spec.split():
        for name in sorted(SHORT, key=len, reverse=True):
            if tok.startswith(name):
                e = tok[len(name):]
                v[SHORT[name]] += Fr(e) if e else Fr(1)
                break
        else:
            raise ValueError(tok)
    return tuple(v)


def mul(a, b):
    return tuple(x + y for x, y in zip(a, b))


def div(a, b):
    return tuple(x - y for x, y in zip(a, b))


def power(a, p):
    p = Fr(p)
    return tuple(x * p for x in a)


def of_expr(e):
    """dimension vector of a sympy dimension expression; None if it is not a pure product of base symbols"""
    import sympy
    if e is None:
        return None
    if e == 1 or e is sympy.S.One:
        return ZERO
    if isinstance(e, sympy.Symbol):
        i = IDX.get(e.name)
        if i is None:
            return None
        v = [Fr(0)] * 8
        v[i] = Fr(1)
        return tuple(v)
    if isinstance(e, sympy.Pow):
        b = of_expr(e.args[0])
        p = e.args[1]
        if b is None or not p.is_Rational:
            if b is not None and p.is_Float:
                q = Fr(float(p)).limit_denominator(1000)
                return power(b, q)
            return None
        return power(b, Fr(int(p.p), int(p.q)))
    if isinstance(e, sympy.Mul):
        v = ZERO
        for a in e.args:
            w = of_expr(a)
            if w is None:
                return None
            v = mul(v, w)
        return v
    if isinstance(e, sympy.Number):
        return ZERO if e == 1 else None
    return None


def show(v):
    if v is None:
        return "?"
    names = ["M", "L", "T", "K", "A", "I", "J", "LOG"]
    return " ".join(f"{n}{'' if x == 1 else x}" for n, x in zip(names, v) if x != 0) or "1"
