"""Independent reference for C15: the exported physical constants of unyt.

For every constant: published SI value, relative uncertainty class, dimension vector and the documented names
(own transcription of the "Physical Constants" listing; which constant a name belongs to is decided HERE, so an
alias that drifts to another row is seen).  Sources: CODATA 2018 (values), spread of the CODATA 1986-2018 adjustments
(classes), IAU 2015 B3 nominal GM values divided by CODATA-2018 G, NASA planetary fact sheets (planet GM), Fixsen 2009
(CMB temperature), IUPAC standard atomic weight of hydrogen.  Also: the Gaussian pairing of SI electromagnetic
dimensions and the documented unit sets of the seven built-in unit systems.
"""
import math
from .dims import D

PI = math.pi
TOL = {
    "exact": 1e-15,      # exactly defined numbers (c, g_n)
    "codata": 2e-6,      # measured; spread of CODATA adjustments 1986-2018
    "codata4": 4e-6,     # k_B**4 combinations (Stefan-Boltzmann, radiation constant): CODATA-2010 uncertainty 3.6e-6
    "grav": 2e-4,        # limited by Newton's constant
    "nominal": 1e-3,     # astronomical nominal values (planet alone vs planet system lies inside)
    "cmb": 1e-3,         # COBE/FIRAS determinations 2.725 ... 2.728 K
    "atomic-weight": 2e-4,   # hydrogen: standard atomic weight interval [1.00784, 1.00811]
}

c = 299792458.0
h = 6.62607015e-34
hbar = h / (2 * PI)
kB = 1.380649e-23
G = 6.67430e-11
e = 1.602176634e-19
m_e = 9.1093837015e-31
m_p = 1.67262192369e-27
m_u = 1.66053906660e-27
N_A = 6.02214076e23
mu0 = 1.25663706212e-6
eps0 = 8.8541878128e-12
R_inf = 10973731.568160
sigma_sb = 5.670374419e-8
sigma_T = 6.6524587321e-29
m_pl = math.sqrt(hbar * c / G)


class Const:
    __slots__ = ("canon", "value", "cls", "dim", "names")

    def __init__(self, canon, value, cls, dim, names):
        self.canon, self.value, self.cls, self.dim, self.names = canon, float(value), cls, D(dim), (canon,) + tuple(names)

    @property
    def tol(self):
        return TOL[self.cls]


_rows = [
    ("me", m_e, "codata", "M", ["mass_electron", "electron_mass"]),
    ("Na", N_A, "codata", "", ["Avogadros_number", "avogadros_number"]),      # per mol; unyt's mol is a pure number
    ("mp", m_p, "codata", "M", ["proton_mass", "mass_proton"]),
    ("mh", 1.00794 * m_u, "atomic-weight", "M", ["hydrogen_mass", "mass_hydrogen"]),
    ("c", c, "exact", "L T-1", ["clight", "speed_of_light"]),
    ("σ_T", sigma_T, "codata", "L2", ["sigma_thompson", "thompson_cross_section", "cross_section_thompson",
                                      "sigma_thomson", "thomson_cross_section", "cross_section_thomson"]),
    ("qp", e, "codata", "I T", ["proton_charge", "elementary_charge", "charge_proton"]),
    ("qe", -e, "codata", "I T", ["electron_charge", "charge_electron"]),
    ("kb", kB, "codata", "M L2 T-2 K-1", ["kboltz", "boltzmann_constant"]),
    ("G", G, "grav", "M-1 L3 T-2", ["newtons_constant", "gravitational_constant"]),
    ("h", h, "codata", "M L2 T-1", ["planck_constant"]),
    ("hbar", hbar, "codata", "M L2 T-1", ["reduced_planck_constant"]),
    ("σ", sigma_sb, "codata4", "M T-3 K-4", ["stefan_boltzmann_constant"]),
    ("a", 4 * sigma_sb / c, "codata4", "M L-1 T-2 K-4", ["radiation_density_constant"]),
    ("Tcmb", 2.72548, "cmb", "K", ["CMB_temperature"]),
    ("Msun", 1.3271244e20 / G, "grav", "M", ["msun", "m_sun", "m_Sun", "M_sun", "M_Sun", "solar_mass", "mass_sun"]),
    ("Mjup", 1.2668653e17 / G, "nominal", "M", ["mjup", "jupiter_mass", "mass_jupiter"]),
    ("mercury_mass", 2.2032e13 / G, "nominal", "M", ["mass_mercury"]),
    ("venus_mass", 3.24859e14 / G, "nominal", "M", ["mass_venus"]),
    ("Mearth", 3.986004e14 / G, "nominal", "M", ["mearth", "earth_mass", "mass_earth"]),
    ("mars_mass", 4.282837e13 / G, "nominal", "M", ["mass_mars"]),
    ("saturn_mass", 3.7931187e16 / G, "nominal", "M", ["mass_saturn"]),
    ("uranus_mass", 5.793939e15 / G, "nominal", "M", ["mass_uranus"]),
    ("neptune_mass", 6.836529e15 / G, "nominal", "M", ["mass_neptune"]),
    ("m_pl", m_pl, "grav", "M", ["planck_mass"]),
    ("l_pl", math.sqrt(hbar * G / c**3), "grav", "L", ["planck_length"]),
    ("t_pl", math.sqrt(hbar * G / c**5), "grav", "T", ["planck_time"]),
    ("E_pl", m_pl * c * c, "grav", "M L2 T-2", ["planck_energy"]),
    ("q_pl", math.sqrt(4 * PI * eps0 * hbar * c), "codata", "I T", ["planck_charge"]),
    ("T_pl", m_pl * c * c / kB, "grav", "K", ["planck_temperature"]),
    ("mu_0", mu0, "codata", "M L T-2 I-2", ["vacuum_permeability", "magnetic_constant", "μ_0"]),
    ("eps_0", eps0, "codata", "M-1 L-3 T4 I2", ["vacuum_permittivity", "electric_constant", "ε_0", "epsilon_0"]),
    ("R_inf", R_inf, "codata", "L-1", ["rydberg_constant", "R_∞"]),
    ("standard_gravity", 9.80665, "exact", "L T-2", []),
]
C = {r[0]: Const(*r) for r in _rows}
NAME2CANON = {}
for _k, _c in C.items():
    for _n in _c.names:
        assert _n not in NAME2CANON, _n
        NAME2CANON[_n] = _k
LEGACY = {"hmks": ("h", "_mks"), "hcgs": ("h", "_cgs")}     # unyt 1.0 spellings kept by add_constants

# names the property itself lists as "both a constant and a unit"
DOUBLE_ROLE_LISTED = ("me", "mp", "c", "Msun", "Mjup", "Mearth", "m_pl", "l_pl", "t_pl", "E_pl", "q_pl", "T_pl")

# ---- Gaussian pairing of SI electromagnetic dimensions (documented pairs C/statC, A/statA, T/G, V/statV, ohm/statohm):
# SI dimension vector -> (Gaussian dimension vector, number of Gaussian SI-coherent base units (kg^a m^b s^c) per SI unit)
_k = c * 10.0                    # statC per C (= c in cm/s divided by 10)
EM_PAIR = {
    D("I T"): (D("M1/2 L3/2 T-1"), _k * 10 ** -4.5),                    # C -> statC
    D("I"): (D("M1/2 L3/2 T-2"), _k * 10 ** -4.5),                      # A -> statA
    D("M T-2 I-1"): (D("M1/2 L-1/2 T-1"), 1e4 * 10 ** -0.5),            # T -> G
    D("M L2 T-3 I-1"): (D("M1/2 L1/2 T-1"), (1e8 / (c * 100)) * 10 ** -2.5),   # V -> statV
    D("M L2 T-3 I-2"): (D("L-1 T"), (1e9 / (c * 100) ** 2) * 100.0),    # ohm -> statohm
}
GAUSSIAN_UNITS = {(1.0, "statC"), (1.0, "statA"), (1.0, "G"), (1.0, "statV"), (1.0, "statohm")}
I_INDEX = 5


def representable_without_current(dim):
    """can a quantity of this SI dimension be written in a system that has no ampere (cgs)?"""
    return dim[I_INDEX] == 0 or dim in EM_PAIR


# ---- documented unit sets of the built-in unit systems, as (prefix factor, symbol of ref/defs.py)
_common = {(1.0, "rad"), (1.0, "cd"), (1.0, "Np"), (1.0, "dimensionless")}
SYSTEM_UNITS = {
    "mks": _common | {(1e3, "g"), (1.0, "m"), (1.0, "s"), (1.0, "K"), (1.0, "A"), (1.0, "J"), (1.0, "Pa"), (1.0, "N"), (1.0, "T"),
                      (1.0, "C"), (1.0, "Hz"), (1.0, "W"), (1.0, "V"), (1.0, "F"), (1.0, "H"), (1.0, "Ω"), (1.0, "Wb"), (1.0, "lm")},
    "cgs": _common | {(1.0, "g"), (1e-2, "m"), (1.0, "s"), (1.0, "K"), (1.0, "erg"), (1.0, "dyn"), (1.0, "G"), (1.0, "statC"),
                      (1.0, "statA")},
    "imperial": _common | {(1.0, "ft"), (1.0, "lb"), (1.0, "s"), (1.0, "R"), (1.0, "A"), (1.0, "lbf"), (1.0, "hp")},
    "galactic": _common | {(1e3, "pc"), (1.0, "Msun"), (1e6, "yr"), (1.0, "K"), (1.0, "A"), (1e3, "eV"), (1e-6, "G")},
    "solar": _common | {(1.0, "AU"), (1.0, "Mearth"), (1.0, "yr"), (1.0, "K"), (1.0, "A")},
    "geometrized": _common | {(1.0, "l_geom"), (1.0, "m_geom"), (1.0, "t_geom"), (1.0, "K"), (1.0, "A")},
    "planck": _common | {(1.0, "l_pl"), (1.0, "m_pl"), (1.0, "t_pl"), (1.0, "T_pl"), (1.0, "A"), (1.0, "E_pl"), (1.0, "q_pl")},
}
# the table unit of a constant (the *_mks guise, and the fallback when a system cannot express it) is SI, with mol
SI_TABLE_UNITS = SYSTEM_UNITS["mks"] | {(1.0, "mol")}

# ---- defining relations; each is (name, lambda over a dict of SI magnitudes keyed by canonical name) -> (lhs, rhs)
RELATIONS = (
    ("hbar=h/2pi", ("hbar", "h"), lambda v: (v["hbar"], v["h"] / (2 * PI))),
    ("eps_0*mu_0*c**2=1", ("eps_0", "mu_0", "c"), lambda v: (v["eps_0"] * v["mu_0"] * v["c"] ** 2, 1.0)),
    ("sigma=2pi^5kb^4/(15h^3c^2)", ("σ", "kb", "h", "c"),
     lambda v: (v["σ"], 2 * PI**5 * v["kb"] ** 4 / (15 * v["h"] ** 3 * v["c"] ** 2))),
    ("a=4sigma/c", ("a", "σ", "c"), lambda v: (v["a"], 4 * v["σ"] / v["c"])),
    ("R_inf=me*qp^4/(8eps_0^2h^3c)", ("R_inf", "me", "qp", "eps_0", "h", "c"),
     lambda v: (v["R_inf"], v["me"] * v["qp"] ** 4 / (8 * v["eps_0"] ** 2 * v["h"] ** 3 * v["c"]))),
    ("m_pl=sqrt(hbar*c/G)", ("m_pl", "hbar", "c", "G"), lambda v: (v["m_pl"], math.sqrt(v["hbar"] * v["c"] / v["G"]))),
    ("l_pl=sqrt(hbar*G/c^3)", ("l_pl", "hbar", "c", "G"), lambda v: (v["l_pl"], math.sqrt(v["hbar"] * v["G"] / v["c"] ** 3))),
    ("t_pl=sqrt(hbar*G/c^5)", ("t_pl", "hbar", "c", "G"), lambda v: (v["t_pl"], math.sqrt(v["hbar"] * v["G"] / v["c"] ** 5))),
    ("E_pl=m_pl*c^2", ("E_pl", "m_pl", "c"), lambda v: (v["E_pl"], v["m_pl"] * v["c"] ** 2)),
    ("E_pl=sqrt(hbar*c^5/G)", ("E_pl", "hbar", "c", "G"), lambda v: (v["E_pl"], math.sqrt(v["hbar"] * v["c"] ** 5 / v["G"]))),
    ("T_pl=E_pl/kb", ("T_pl", "E_pl", "kb"), lambda v: (v["T_pl"], v["E_pl"] / v["kb"])),
    ("q_pl=sqrt(4pi*eps_0*hbar*c)", ("q_pl", "eps_0", "hbar", "c"),
     lambda v: (v["q_pl"], math.sqrt(4 * PI * v["eps_0"] * v["hbar"] * v["c"]))),
    ("qe=-qp", ("qe", "qp"), lambda v: (v["qe"], -v["qp"])),
)
# relations that contain no electromagnetic quantity keep their form in CGS and in every coherent mechanical system
MECHANICAL = {"hbar=h/2pi", "sigma=2pi^5kb^4/(15h^3c^2)", "a=4sigma/c", "m_pl=sqrt(hbar*c/G)", "l_pl=sqrt(hbar*G/c^3)",
              "t_pl=sqrt(hbar*G/c^5)", "E_pl=m_pl*c^2", "E_pl=sqrt(hbar*c^5/G)", "T_pl=E_pl/kb"}
