"""Sequential reference model of one unit registry (used by C12; meant to be reused by C13).

The model is a plain dict  symbol -> Entry(scale, dim, offset, prefixable, tol, origin)  plus the rules that say what a
unit *string* means against those contents.  It never calls unyt to decide anything: default contents come from the
independent table ref/defs.py, the built-in spellings from ref/names.py, expressions are evaluated by ref/uexpr.py.

API (everything else is private):

    m = RegModel(defaults=True)            contents of a registry as created by UnitRegistry(add_default_symbols=defaults)
    m.add(sym, scale, dim, offset=0.0, prefixable=False)     add or overwrite (re-add)
    m.modify(sym, scale, dim=None)         raises UnknownName if sym is not an entry; dim=None keeps the dimension
    m.remove(sym)                          raises UnknownName if sym is not an entry
    m.define(sym, scale, dim, offset=0.0, prefixable=False)  like add but raises Exists if `sym` already resolves
    m.fill_defaults()                      what UnitRegistry.from_json does to a table: default symbols that are missing come back
    m.apply(op)                            op = JSON-able tuple, see OPS below; returns "ok" or "raise"
    m.lookup(name)  -> Resolved(scale, dim, offset, tol, symbol, how) or None      one NAME token
    m.evaluate(expr) -> Value(scale, dim, tol, symbols)      raises UnknownName / uexpr.ParseError
    m.outcome(expr) -> ("ok", scale, dim, tol) | ("unknown",)
    m.copy(), m.plain() / RegModel.from_plain(d)             JSON-able snapshot (for forked cold evaluations, replays)
    m.version                              number of successful edits so far
    dim_expr(unyt, dimvec)                 harness helper: the sympy dimension expression unyt wants for a dimvec
    build_registry(unyt, model)            harness helper: a *fresh* real UnitRegistry holding exactly the model's contents

OPS (what apply understands; scale/offset floats, dim a ref/dims spec string such as "L" or "M L2 T-2"):
    ("add", sym, scale, dimspec, prefixable, offset)
    ("modf", sym, scale)                               modify by float
    ("modq", sym, value, unit_expr[, where])           modify by a quantity  value*unit_expr (evaluated on the contents
                                                       *before* the edit); changes the dimension too.  where = "own"
                                                       (quantity bound to this registry, default) | "default" (quantity
                                                       built against the library's default registry)
    ("rm", sym)
    ("def", sym, value, unit_expr, prefixable[, where]) define_unit(sym, (value, unit_expr)) / define_unit(sym, quantity)

Meaning of a NAME token against the contents ("implied by the registry's current contents"):
    1. an entry of that name;
    2. a documented built-in spelling (ref/names.py: alias, word prefix, ...) of a symbol that is *currently an entry*,
       scaled by the spelling's prefix factor (needs the entry to be prefixable when the factor is not 1);
    3. SI prefix + a *prefixable* entry ("da" is tried before "d"; no fall-back from "da" to "d");
    otherwise the name is unknown.  A removed symbol is therefore unknown in every spelling.
"""
from collections import namedtuple
from . import defs, dims, names, uexpr

Entry = namedtuple("Entry", "scale dim offset prefixable tol origin")     # origin: "default" | "user"
Resolved = namedtuple("Resolved", "scale dim offset tol symbol how")
Value = namedtuple("Value", "scale dim tol symbols")
EXACT = 4e-15
_CACHE = {}


class UnknownName(Exception):
    pass


class Exists(Exception):
    pass


def _dim(spec):
    return dims.D(spec) if isinstance(spec, str) else tuple(spec)


class RegModel:
    def __init__(self, defaults=True):
        self.contents = {}
        self.version = 0
        self.log = []
        if defaults:
            for sym, de in defs.T.items():
                self.contents[sym] = Entry(de.value, de.dim, float(de.offset or 0.0), bool(de.prefixable), de.tol, "default")

    # ------------------------------------------------------------------ edits
    def add(self, sym, scale, dim, offset=0.0, prefixable=False, tol=EXACT):
        self.contents[sym] = Entry(float(scale), _dim(dim), float(offset or 0.0), bool(prefixable), tol, "user")
        self.version += 1

    def modify(self, sym, scale, dim=None, tol=EXACT):
        e = self.contents.get(sym)
        if e is None:
            raise UnknownName(sym)
        self.contents[sym] = Entry(float(scale), e.dim if dim is None else _dim(dim), e.offset, e.prefixable, tol, "user")
        self.version += 1

    def remove(self, sym):
        if sym not in self.contents:
            raise UnknownName(sym)
        del self.contents[sym]
        self.version += 1

    def define(self, sym, scale, dim, offset=0.0, prefixable=False, tol=EXACT):
        if self.lookup(sym, builtin_spellings=False) is not None:
            raise Exists(sym)
        self.add(sym, scale, dim, offset, prefixable, tol)

    def apply(self, op):
        """apply one OPS tuple; returns 'ok' or 'raise' (contents untouched on 'raise')"""
        kind = op[0]
        try:
            if kind == "add":
                _, sym, scale, dimspec, prefixable, offset = op
                self.add(sym, scale, dimspec, offset, prefixable)
            elif kind == "modf":
                self.modify(op[1], op[2])
            elif kind == "modq":
                sym, value, uex = op[1:4]
                if sym not in self.contents:
                    raise UnknownName(sym)
                v = self._where(op[4:]).evaluate(uex)
                self.modify(sym, value * v.scale, v.dim, tol=EXACT + v.tol)
            elif kind == "rm":
                self.remove(op[1])
            elif kind == "def":
                sym, value, uex, prefixable = op[1:5]
                if self.lookup(sym, builtin_spellings=False) is not None:
                    raise Exists(sym)
                v = self._where(op[5:]).evaluate(uex)
                self.add(sym, value * v.scale, v.dim, 0.0, prefixable, tol=EXACT + v.tol)
            else:
                raise ValueError(kind)
        except (UnknownName, Exists, uexpr.ParseError):
            return "raise"
        self.log.append(op)
        return "ok"

    def fill_defaults(self):
        """UnitRegistry.from_json semantics: every default symbol that is not an entry is (re)added with its default value"""
        for sym, de in defs.T.items():
            if sym not in self.contents:
                self.contents[sym] = Entry(de.value, de.dim, float(de.offset or 0.0), bool(de.prefixable), de.tol, "default")

    def _where(self, tail):
        """the contents a quantity's unit is read against: this registry ("own", default) or the library's default one"""
        if tail and tail[0] == "default":
            if "pristine" not in _CACHE:
                _CACHE["pristine"] = RegModel(defaults=True)
            return _CACHE["pristine"]
        return self

    # ------------------------------------------------------------------ reading
    def lookup(self, name, builtin_spellings=True):
        c = self.contents
        e = c.get(name)
        if e is not None:
            return Resolved(e.scale, e.dim, e.offset, e.tol, name, "entry")
        if builtin_spellings:
            r = names.resolve(name)
            if r is not None:
                f, sym, _amb = r
                e = c.get(sym)
                if e is not None and (f == 1.0 or e.prefixable):
                    return Resolved(e.scale * f, e.dim, e.offset, e.tol, sym, "spelling" if f == 1.0 else "spelling+prefix")
                return None          # a documented spelling of a symbol that is not (or no longer) an entry
        p = "da" if name[:2] == "da" else name[:1]
        if p in defs.PREFIX:
            e = c.get(name[len(p):])
            if e is not None and e.prefixable:
                return Resolved(e.scale * defs.PREFIX[p], e.dim, e.offset, e.tol, name[len(p):], "prefix")
        return None

    def evaluate(self, expr):
        used = []

        def res(tok):
            if tok == "%":
                tok = "percent"
            r = self.lookup(tok)
            if r is None:
                raise UnknownName(tok)
            used.append(r)
            return r.scale, r.dim
        s, d = uexpr.evaluate(expr, res)
        return Value(s, d, EXACT * 8 + 4 * sum(r.tol for r in used), tuple(sorted({r.symbol for r in used})))

    def outcome(self, expr):
        try:
            v = self.evaluate(expr)
        except (UnknownName, uexpr.ParseError):
            return ("unknown",)
        return ("ok", v.scale, v.dim, v.tol)

    # ------------------------------------------------------------------ snapshots
    def copy(self):
        m = RegModel(defaults=False)
        m.contents = dict(self.contents)
        m.version = self.version
        m.log = list(self.log)
        return m

    def plain(self, user_only=False):
        return {"version": self.version,
                "contents": {k: [e.scale, [str(x) for x in e.dim], e.offset, e.prefixable, e.tol, e.origin]
                             for k, e in self.contents.items() if not (user_only and e.origin == "default")},
                "defaults_present": sorted(k for k, e in self.contents.items() if e.origin == "default") if user_only else None}

    @classmethod
    def from_plain(cls, d):
        from fractions import Fraction as Fr
        m = cls(defaults=False)
        if d.get("defaults_present") is not None:
            full = cls(defaults=True)
            for k in d["defaults_present"]:
                m.contents[k] = full.contents[k]
        for k, (scale, dim, offset, prefixable, tol, origin) in d["contents"].items():
            m.contents[k] = Entry(scale, tuple(Fr(x) for x in dim), offset, prefixable, tol, origin)
        m.version = d["version"]
        return m


# ---------------------------------------------------------------------- harness helpers (inputs, never verdicts)
_DIMNAMES = ("mass", "length", "time", "temperature", "angle", "current_mks", "luminous_intensity", "logarithmic")


def dim_expr(unyt, dimvec):
    """the sympy expression over unyt's own dimension singletons for a dimension vector (input construction only)"""
    import sympy
    from unyt import dimensions as ud
    e = sympy.S.One
    for n, x in zip(_DIMNAMES, _dim(dimvec)):
        if x != 0:
            e = e * getattr(ud, n) ** sympy.Rational(x.numerator, x.denominator)
    return e


def build_registry(unyt, model):
    """a fresh UnitRegistry whose table holds exactly the model's contents: untouched default symbols are copied from
    unyt's own default table (so their value is whatever the library ships), everything else goes through add()."""
    from unyt._unit_lookup_table import default_unit_symbol_lut as DL
    reg = unyt.UnitRegistry(add_default_symbols=False)
    pristine = {k: DL[k] for k, e in model.contents.items() if e.origin == "default" and k in DL}
    reg.lut.update(pristine)
    for k, e in model.contents.items():
        if k in pristine:
            continue
        kw = {}
        if k in DL:
            kw["tex_repr"] = DL[k][3]
        reg.add(k, float(e.scale), dim_expr(unyt, e.dim), offset=(e.offset if e.offset else None), prefixable=e.prefixable, **kw)
    return reg
