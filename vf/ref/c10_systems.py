"""Independent model of unit systems for C10 (trusted base, written from the documentation of unyt's unit systems
and dimensions; it never reads UnitSystem.units_map, which the library mutates while it works).

* DIMNAME: dimension name -> dimension vector (names of unyt.dimensions; vectors written by hand).
* BUILTIN: the seven built-in systems: base units per base dimension (None = the system has no such base) and
  the derived units each system declares ("Other Units").
* EM_PAIRS: the documented SI <-> Gaussian pairing (C/statC, T/G, A/statA, V/statV, ohm/statohm) with the PHYSICAL
  number of Gaussian units in one SI unit.
* SysModel: which symbols may appear in a result of dimension D, and whether the system has an MKS current.
"""
from fractions import Fraction as Fr
from . import dims, defs, uexpr
from .dims import D

SLOTS = ("length", "mass", "time", "temperature", "angle", "current_mks", "luminous_intensity", "logarithmic")
SLOT_DIM = {"length": D("L"), "mass": D("M"), "time": D("T"), "temperature": D("K"), "angle": D("A"),
            "current_mks": D("I"), "luminous_intensity": D("J"), "logarithmic": D("LOG")}
# position of each slot in the 8-vector (dims.BASE order: M L T K A I J LOG)
SLOT_IDX = {"mass": 0, "length": 1, "time": 2, "temperature": 3, "angle": 4, "current_mks": 5,
            "luminous_intensity": 6, "logarithmic": 7}

DIMNAME = {
    "dimensionless": D(""),
    "rate": D("T-1"), "frequency": D("T-1"), "angular_frequency": D("A T-1"), "spatial_frequency": D("L-1"),
    "solid_angle": D("A2"), "velocity": D("L T-1"), "acceleration": D("L T-2"), "jerk": D("L T-3"),
    "area": D("L2"), "volume": D("L3"), "momentum": D("M L T-1"), "force": D("M L T-2"), "tension": D("M T-2"),
    "pressure": D("M L-1 T-2"), "energy": D("M L2 T-2"), "power": D("M L2 T-3"), "flux": D("M T-3"),
    "specific_flux": D("M T-2"), "number_density": D("L-3"), "density": D("M L-3"),
    "angular_momentum": D("M L2 T-1"), "specific_angular_momentum": D("L2 T-1"), "specific_energy": D("L2 T-2"),
    "count_flux": D("L-2 T-1"), "count_intensity": D("L-2 T-1 A-2"), "luminous_flux": D("J A2"),
    "luminance": D("J L-2"),
    # Gaussian
    "charge_cgs": D("M1/2 L3/2 T-1"), "current_cgs": D("M1/2 L3/2 T-2"), "electric_field_cgs": D("M1/2 L-1/2 T-1"),
    "magnetic_field_cgs": D("M1/2 L-1/2 T-1"), "electric_potential_cgs": D("M1/2 L1/2 T-1"),
    "resistance_cgs": D("L-1 T"), "magnetic_flux_cgs": D("M1/2 L3/2 T-1"),
    # SI
    "charge": D("I T"), "charge_mks": D("I T"), "electric_field": D("M L T-3 I-1"), "electric_field_mks": D("M L T-3 I-1"),
    "magnetic_field": D("M T-2 I-1"), "magnetic_field_mks": D("M T-2 I-1"),
    "electric_potential": D("M L2 T-3 I-1"), "electric_potential_mks": D("M L2 T-3 I-1"),
    "resistance": D("M L2 T-3 I-2"), "resistance_mks": D("M L2 T-3 I-2"),
    "capacitance": D("M-1 L-2 T4 I2"), "capacitance_mks": D("M-1 L-2 T4 I2"),
    "magnetic_flux": D("M L2 T-2 I-1"), "magnetic_flux_mks": D("M L2 T-2 I-1"),
    "inductance": D("M L2 T-2 I-2"), "inductance_mks": D("M L2 T-2 I-2"),
}
for _s, _d in SLOT_DIM.items():
    DIMNAME[_s] = _d

# name: (length, mass, time, temperature, angle, current, luminous intensity, logarithmic), {dimension name: unit}
BUILTIN = {
    "cgs": (("cm", "g", "s", "K", "rad", None, "cd", "Np"),
            {"energy": "erg", "specific_energy": "erg/g", "pressure": "dyne/cm**2", "force": "dyne",
             "magnetic_field_cgs": "gauss", "charge_cgs": "esu", "current_cgs": "statA", "power": "erg/s"}),
    "mks": (("m", "kg", "s", "K", "rad", "A", "cd", "Np"),
            {"energy": "J", "specific_energy": "J/kg", "pressure": "Pa", "force": "N", "magnetic_field": "T",
             "charge": "C", "frequency": "Hz", "power": "W", "electric_potential": "V", "capacitance": "F",
             "inductance": "H", "resistance": "ohm", "magnetic_flux": "Wb", "luminous_flux": "lm"}),
    "imperial": (("ft", "lb", "s", "R", "rad", "A", "cd", "Np"),
                 {"force": "lbf", "energy": "ft*lbf", "pressure": "lbf/ft**2", "power": "hp"}),
    "galactic": (("kpc", "Msun", "Myr", "K", "rad", "A", "cd", "Np"),
                 {"energy": "keV", "magnetic_field_cgs": "uG"}),
    "solar": (("AU", "Mearth", "yr", "K", "rad", "A", "cd", "Np"), {}),
    "geometrized": (("l_geom", "m_geom", "t_geom", "K", "rad", "A", "cd", "Np"), {}),
    "planck": (("l_pl", "m_pl", "t_pl", "T_pl", "rad", "A", "cd", "Np"), {"energy": "E_pl", "charge_mks": "q_pl"}),
}

C_CGS = 29979245800.0          # speed of light, cm/s (exact)
# (SI symbol, Gaussian symbol, number of Gaussian units in ONE SI unit -- physics, e.g. Jackson appendix)
EM_PAIRS = (
    ("C", "statC", C_CGS / 10.0),
    ("A", "statA", C_CGS / 10.0),
    ("T", "G", 1.0e4),
    ("V", "statV", 1.0e8 / C_CGS),
    ("Ω", "statohm", 1.0e9 / C_CGS ** 2),
)
EM_SI = {si: (g, f) for si, g, f in EM_PAIRS}
EM_GAUSS = {g: (si, 1.0 / f) for si, g, f in EM_PAIRS}
EM_DIM_SI = {defs.T[si].dim: si for si, g, f in EM_PAIRS}
EM_DIM_GAUSS = {}
for _si, _g, _f in EM_PAIRS:
    EM_DIM_GAUSS.setdefault(defs.T[_g].dim, _g)
PAIR_OF_DIM = {}
for _si, _g, _f in EM_PAIRS:
    PAIR_OF_DIM[defs.T[_si].dim] = defs.T[_g].dim
    PAIR_OF_DIM[defs.T[_g].dim] = defs.T[_si].dim


def has_half_powers(d):
    return any(x.denominator != 1 for x in d)


def has_current(d):
    return d[5] != 0


def names_in(expr_string):
    """NAME tokens of a unit expression string (own tokenizer)"""
    out = []
    toks = uexpr.tokenize(expr_string)
    for i, t in enumerate(toks):
        if t in ("*", "/", "**", "(", ")", "+", "-", "sqrt"):
            continue
        if t[0].isdigit() or t[0] == ".":
            continue
        out.append(t)
    return out


class SysModel:
    """what the harness knows about a unit system from the arguments it (or the documentation) gave"""

    def __init__(self, name, base, declared, canon, origin="builtin"):
        """base: 8 unit strings (SLOTS order) or None; declared: {dimension vector: unit string};
        canon: function token -> canonical (factor, symbol) or None"""
        self.name = name
        self.origin = origin
        self.base = dict(zip(SLOTS, base))
        self.declared = dict(declared)
        self.canon = canon
        self.has_current = self.base["current_mks"] is not None
        self.base_atoms = set()
        for s, u in self.base.items():
            if u is not None:
                self.base_atoms |= self._atoms(u)
        self.declared_atoms = {d: self._atoms(u) for d, u in self.declared.items()}

    def _atoms(self, ustr):
        out = set()
        for t in names_in(ustr):
            c = self.canon(t)
            out.add(c if c is not None else ("?", t))
        return out

    def allowed(self, d):
        """canonical atoms that a result of dimension d may be written in"""
        a = set(self.base_atoms)
        a |= self.declared_atoms.get(d, set())
        if not self.has_current and d in EM_DIM_GAUSS:
            a.add((1.0, EM_DIM_GAUSS[d]))      # Gaussian counterpart unit of the documented pairing
        return a

    def cls(self):
        if self.name in ("cgs", "mks") and self.origin == "builtin":
            return self.name
        return "cur" if self.has_current else "nocur"

    def expressible(self, d):
        """can dimension d be written with this system's base units?"""
        for slot, i in SLOT_IDX.items():
            if d[i] != 0 and self.base[slot] is None:
                return False
        return True


def builtin_model(name, canon):
    base, decl = BUILTIN[name]
    return SysModel(name, base, {DIMNAME[k]: v for k, v in decl.items()}, canon, "builtin")
