"""Reference interpreter for C04 expression programs: the same mathematics on SI magnitudes (plain float64 ndarrays, never a
unyt object), the dimension from dimensional analysis (vf.ref.dims vectors), and a running forward error bound.

A value is Val(si, dim, err, und):
  si   ndarray (float64, or bool for comparison results) - magnitude in SI-coherent base units
  dim  8-component Fraction vector
  err  ndarray >= 0, absolute bound on |si - what any correctly working float64 implementation may return| (0 = bit-exact)
  und  bool ndarray: elements the reference cannot decide (a discontinuous operation evaluated inside the error bar of
       its argument, a division by an interval containing 0); they are excluded from judging and propagate.

Two modes.  exact=True (dyadic pool: all unit scales are powers of two, leaves carry no error): correctly rounded
operations (+ - * / sqrt fmod floor comparisons min max abs neg, and everything built from them by NumPy in a
scale-independent order: reductions, dot, outer) commute with power-of-two scaling, so their err stays 0 and the
result has to be bit-identical; library functions that are only "almost" correctly rounded (cbrt, pow, hypot, sin,
cos, tan, arctan2) get NEAR ulps.  exact=False (real pool): every operation adds ROUND ulps for the extra roundings
unyt performs (operand rescaling, simplification coefficient, result scale).

The numbers are always produced by the *same NumPy routine* applied to the SI arrays (so summation order etc. agree);
only plain ndarrays are passed to NumPy here.
"""
from fractions import Fraction as Fr
import numpy as np
from . import dims

EPS = 2.0 ** -52
ROUND = 6      # ulps charged per operation in the real pool
NEAR = 8       # ulps charged for not-correctly-rounded libm functions (both pools)


class RefError(Exception):
    """the reference declines the operation (dimensionally invalid / outside the modelled domain)"""


class Val:
    __slots__ = ("si", "dim", "err", "und")

    def __init__(self, si, dim, err=None, und=None):
        self.si = np.asarray(si)
        self.dim = dim
        self.err = np.zeros(self.si.shape) if err is None else np.broadcast_to(np.asarray(err, dtype=float), self.si.shape).copy()
        self.und = np.zeros(self.si.shape, dtype=bool) if und is None else np.broadcast_to(np.asarray(und, dtype=bool), self.si.shape).copy()

    @property
    def shape(self):
        return self.si.shape

    @property
    def isbool(self):
        return self.si.dtype.kind == "b"


def leaf(values, scale, dim, relerr=0.0):
    v = np.asarray(values)
    v = v.astype(complex if v.dtype.kind == "c" else float)
    with np.errstate(all="ignore"):
        si = v * float(scale)
    return Val(si, dim, np.abs(si) * relerr)


COMPARISONS = {"less": np.less, "less_equal": np.less_equal, "greater": np.greater, "greater_equal": np.greater_equal,
               "equal": np.equal, "not_equal": np.not_equal}
SAME_DIM = {"add", "subtract", "minimum", "maximum", "fmin", "fmax", "hypot", "remainder", "fmod", "floor_divide",
            "arctan2", "divmod"} | set(COMPARISONS)
BINARY = {"add": np.add, "subtract": np.subtract, "multiply": np.multiply, "divide": np.divide, "floor_divide": np.floor_divide,
          "remainder": np.remainder, "fmod": np.fmod, "minimum": np.minimum, "maximum": np.maximum, "fmin": np.fmin,
          "fmax": np.fmax, "hypot": np.hypot, "arctan2": np.arctan2, "copysign": np.copysign, **COMPARISONS}
UNARY = {"negative": np.negative, "positive": np.positive, "absolute": np.absolute, "fabs": np.fabs, "sqrt": np.sqrt,
         "cbrt": np.cbrt, "square": np.square, "reciprocal": np.reciprocal, "sin": np.sin, "cos": np.cos, "tan": np.tan,
         "sign": np.sign, "conj": np.conj}
ANGLE = dims.D("A")


def _bdim(name, da, db):
    if name in ("multiply",):
        return dims.mul(da, db)
    if name == "divide":
        return dims.div(da, db)
    if name == "copysign":
        return da
    if name in SAME_DIM:
        if da != db:
            raise RefError(f"{name}: dimensions differ")
        if name in COMPARISONS or name in ("floor_divide", "arctan2"):
            return dims.ZERO
        return da
    raise RefError(name)


class Interp:
    def __init__(self, exact):
        self.exact = bool(exact)
        self.r = 0.0 if exact else ROUND * EPS
        self.n = NEAR * EPS

    # ---------------------------------------------------------------- elementwise binary
    def _berr(self, name, a, b, ea, eb, r):
        """(err, und) for r = name(a, b), all arrays already broadcast to r's shape"""
        rr = self.r
        if self.exact:
            # an operand that already carries an error may tip the final rounding of this operation by one unit in the
            # last place of the RESULT (which can be far larger than the operand's own error: x + cbrt(x))
            rr = np.where((ea + eb) > 0, EPS, 0.0)
        with np.errstate(all="ignore"):
            absr = np.abs(r) if r.dtype.kind != "b" else 0.0
            und = np.zeros(r.shape, dtype=bool)
            if name in ("add", "subtract"):
                err = ea + eb + rr * absr
            elif name == "multiply":
                err = np.abs(a) * eb + np.abs(b) * ea + ea * eb + rr * absr
            elif name == "divide":
                den = np.abs(b) - eb
                bad = (den <= 0) & (eb > 0)
                err = np.where(den > 0, (ea + absr * eb) / np.where(den > 0, den, 1.0), 0.0) + rr * absr
                und |= bad
            elif name in ("minimum", "maximum", "fmin", "fmax"):
                err = np.maximum(ea, eb)
            elif name == "hypot":
                err = ea + eb + self.n * absr
            elif name == "arctan2":
                den = a * a + b * b
                err = np.where(den > 0, (np.abs(b) * ea + np.abs(a) * eb) / np.where(den > 0, den, 1.0), 0.0) + self.n * np.maximum(absr, 1e-300)
                und |= (den <= (ea + eb) ** 2) & ((ea + eb) > 0)
                # branch cut along the negative x axis
                und |= (np.abs(a) <= ea) & (b < 0) & (ea > 0)
            elif name == "copysign":
                err = ea
                und |= (np.abs(b) <= eb) & (eb > 0)
            elif name in COMPARISONS:
                err = np.zeros(r.shape)
                und |= (np.abs(a - b) <= ea + eb) & ((ea + eb) > 0)
            elif name in ("floor_divide", "remainder", "fmod"):
                den = np.abs(b) - eb
                q = a / b
                eq = np.where(den > 0, (ea + np.abs(q) * eb) / np.where(den > 0, den, 1.0), np.inf) + 4 * EPS * np.abs(q) * (0 if self.exact else 1)
                inexact = (ea + eb) > 0
                if not self.exact:
                    inexact = np.ones(r.shape, dtype=bool)     # the rescaled operand carries a rounding even for error-free leaves
                rnd = np.trunc if name == "fmod" else np.floor
                und |= inexact & (rnd(q - eq) != rnd(q + eq))
                und |= inexact & (den <= 0)
                if name == "floor_divide":
                    err = np.zeros(r.shape)
                else:
                    err = ea + np.abs(rnd(q)) * eb + rr * (np.abs(a) + np.abs(rnd(q) * b))
            else:
                raise RefError(name)
        return err, und

    def binary(self, name, A, B):
        f = BINARY[name]
        dim = _bdim(name, A.dim, B.dim)
        with np.errstate(all="ignore"):
            r = f(A.si, B.si)
        r = np.asarray(r)
        a, b, ea, eb = (np.broadcast_to(x, r.shape) for x in (A.si, B.si, A.err, B.err))
        err, und = self._berr(name, a, b, ea, eb, r)
        und = und | np.broadcast_to(A.und, r.shape) | np.broadcast_to(B.und, r.shape)
        return Val(r, dim, err, und)

    def divmod(self, A, B):
        q = self.binary("floor_divide", A, B)
        m = self.binary("remainder", A, B)
        return q, m

    def outer(self, name, A, B):
        if A.si.ndim < 1 or B.si.ndim < 1:
            raise RefError("outer of 0-d")
        sa = A.si.shape + (1,) * B.si.ndim
        A2 = Val(A.si.reshape(sa), A.dim, A.err.reshape(sa), A.und.reshape(sa))
        return self.binary(name, A2, B)

    # ---------------------------------------------------------------- unary
    def unary(self, name, A):
        f = UNARY[name]
        a, ea = A.si, A.err
        with np.errstate(all="ignore"):
            r = np.asarray(f(a))
            absr = np.abs(r)
            und = A.und.copy()
            rr, nn = self.r, self.n
            if self.exact:
                rr = np.where(ea > 0, EPS, 0.0)      # see _berr
            if name in ("negative", "positive", "absolute", "fabs", "conj"):
                dim, err = A.dim, ea
            elif name == "square":
                dim, err = dims.mul(A.dim, A.dim), 2 * np.abs(a) * ea + ea * ea + rr * absr
            elif name == "reciprocal":
                dim = dims.power(A.dim, -1)
                den = np.abs(a) - ea
                err = np.where(den > 0, absr * ea / np.where(den > 0, den, 1.0), 0.0) + rr * absr
                und |= (den <= 0) & (ea > 0)
            elif name == "sqrt":
                dim = dims.power(A.dim, Fr(1, 2))
                lo = a - ea
                err = np.where(lo > 0, ea / (2 * np.sqrt(np.where(lo > 0, lo, 1.0))), 0.0) + rr * absr
                und |= (lo <= 0) & (ea > 0) & (a + ea >= 0)
            elif name == "cbrt":
                dim = dims.power(A.dim, Fr(1, 3))
                lo = np.abs(a) - ea
                err = np.where(lo > 0, ea / (3 * np.cbrt(np.where(lo > 0, lo, 1.0)) ** 2), 0.0) + (rr + nn) * absr
                und |= (lo <= 0) & (ea > 0)
            elif name in ("sin", "cos", "tan"):
                if A.dim != ANGLE:
                    raise RefError("trig of a non-angle is documented to ignore units: outside C04")
                dim = dims.ZERO
                slope = 1.0 if name != "tan" else (1.0 + r * r)
                # the argument itself (x * scale-to-radian) is rounded once more inside unyt in the real pool
                arg = ea + (0.0 if self.exact else 2 * EPS * np.abs(a))
                err = slope * arg * (1 + 1e-6) + nn * np.maximum(absr, 1.0 if name != "tan" else absr)
                if name == "tan":
                    und |= (np.abs(np.cos(a)) < 1e-3)
            elif name == "sign":
                dim, err = dims.ZERO, np.zeros(r.shape)
                und |= (np.abs(a) <= ea) & (ea > 0)
            else:
                raise RefError(name)
        return Val(r, dim, err, und)

    def power(self, A, p):
        """p: exact python number (int, float or Fraction) - a dimensionless scalar exponent"""
        pf = float(p)
        a, ea = A.si, A.err
        with np.errstate(all="ignore"):
            r = np.asarray(np.power(a, pf))
            absr = np.abs(r)
            und = A.und.copy()
            dim = dims.power(A.dim, Fr(p).limit_denominator(1000) if not isinstance(p, Fr) else p)
            if pf == 0.0:
                return Val(np.ones(a.shape), dims.ZERO, None, und)
            if pf == 1.0:
                return Val(a.copy(), A.dim, ea, und)
            lo = np.abs(a) - ea
            rel = np.where(lo > 0, abs(pf) * ea / np.where(lo > 0, lo, 1.0), 0.0)
            und |= (lo <= 0) & (ea > 0)
            # NumPy takes different routes for the same power (x**2 -> square, x**0.5 -> sqrt, array exponents -> pow):
            # results may differ in the last place, so every power is charged NEAR ulps
            k = self.r + self.n
            err = rel * absr * (1 + 1e-6) + k * absr
        return Val(r, dim, err, und)

    # ---------------------------------------------------------------- reductions
    def reduce(self, name, A, axis=0, method="reduce"):
        f = getattr(BINARY[name], method)
        a, ea = A.si, A.err
        if a.ndim == 0:
            raise RefError("reduce of 0-d")
        if method == "accumulate" and (axis is None or isinstance(axis, tuple)):
            raise RefError("accumulate needs one axis")
        with np.errstate(all="ignore"):
            r = np.asarray(f(a, axis=axis))
            if axis is None:
                n = a.size
            elif isinstance(axis, tuple):
                n = int(np.prod([a.shape[x] for x in axis]))
            else:
                n = a.shape[axis]
            absr = np.abs(r)
            if method == "reduce":
                und = np.asarray(np.logical_or.reduce(A.und, axis=axis)) if A.und.size else np.zeros(r.shape, bool)
                agg = lambda x: np.asarray(np.add.reduce(x, axis=axis))
            else:
                und = np.asarray(np.logical_or.accumulate(A.und, axis=axis))
                agg = lambda x: np.asarray(np.add.accumulate(x, axis=axis))
            rred = self.r
            if self.exact:
                rred = np.where(agg(ea) > 0, EPS, 0.0)     # see _berr: every partial sum may round the other way
            if name == "add":
                dim = A.dim
                err = agg(ea) + n * rred * agg(np.abs(a))
            elif name in ("maximum", "minimum", "fmax", "fmin"):
                dim = A.dim
                err = np.asarray(getattr(np.maximum, method)(ea, axis=axis))
            elif name == "hypot":
                dim = A.dim
                err = agg(ea) + n * self.n * absr
            elif name in ("multiply", "divide"):
                if method != "reduce":
                    raise RefError("cumulative product has no single unit")
                lo = np.abs(a) - ea
                bad = (lo <= 0) & (ea > 0)
                rel = agg(np.where(lo > 0, ea / np.where(lo > 0, lo, 1.0), 0.0)) + n * rred
                und = und | np.asarray(np.logical_or.reduce(bad, axis=axis))
                err = rel * absr * (1 + 1e-6)
                dim = dims.power(A.dim, n if name == "multiply" else 2 - n)
            elif name == "subtract":
                if method != "reduce":
                    raise RefError("subtract.accumulate not modelled")
                dim = A.dim
                err = agg(ea) + n * rred * agg(np.abs(a))
            else:
                raise RefError(name)
        return Val(r, dim, err, und)

    # ---------------------------------------------------------------- products of vectors / matrices
    def product(self, fname, A, B):
        f = {"dot": np.dot, "matmul": np.matmul, "vecdot": getattr(np, "vecdot", None), "inner": np.inner,
             "vdot": np.vdot, "outer": np.outer, "cross": np.cross, "kron": np.kron}[fname]
        if f is None:
            raise RefError(fname)
        with np.errstate(all="ignore"):
            r = np.asarray(f(A.si, B.si))
            aa, ab = np.abs(A.si), np.abs(B.si)
            if fname == "cross":
                # componentwise bound for 3-vectors: |a x b|_i <= |a_{i+1}||b_{i+2}| + |a_{i+2}||b_{i+1}|
                g = lambda x, y: np.asarray(np.roll(x, -1, -1) * np.roll(y, 1, -1) + np.roll(x, 1, -1) * np.roll(y, -1, -1))
            else:
                g = lambda x, y: np.asarray(f(x, y))
            n = max(A.si.shape[-1] if A.si.ndim else 1, 1)
            rprod = self.r
            if self.exact and (np.any(A.err > 0) or np.any(B.err > 0)):
                rprod = EPS                                  # see _berr
            err = g(aa, B.err) + g(A.err, ab) + g(A.err, B.err) + (n + 1) * rprod * g(aa, ab)
            und_any = bool(A.und.any() or B.und.any())
        return Val(r, dims.mul(A.dim, B.dim), err, np.full(r.shape, und_any))

    def aggregate(self, fname, A, axis=None):
        """np.sum / np.prod / np.mean / np.cumsum and the methods of the same name"""
        a, ea = A.si, A.err
        if a.ndim == 0:
            raise RefError("aggregate of 0-d")
        if fname == "sum":
            return self.reduce("add", A, axis=axis)
        if fname == "prod":
            return self.reduce("multiply", A, axis=axis)
        if fname == "cumsum":
            if axis is None:
                flat = Val(a.reshape(-1), A.dim, ea.reshape(-1), A.und.reshape(-1))
                return self.reduce("add", flat, axis=0, method="accumulate")
            return self.reduce("add", A, axis=axis, method="accumulate")
        if fname == "mean":
            with np.errstate(all="ignore"):
                r = np.asarray(np.mean(a, axis=axis))
                n = a.size if axis is None else (int(np.prod([a.shape[x] for x in axis])) if isinstance(axis, tuple) else a.shape[axis])
                err = np.asarray(np.mean(ea, axis=axis)) + (n + 1) * max(self.r, EPS if (not self.exact or np.any(ea > 0)) else 0.0) * np.asarray(np.mean(np.abs(a), axis=axis))
                und = np.asarray(np.logical_or.reduce(A.und, axis=axis))
            return Val(r, A.dim, err, und)
        raise RefError(fname)
