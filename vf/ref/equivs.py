"""Independent model of unyt's nine built-in equivalences (trusted base of C09).

Everything is expressed in SI-coherent base units (kg, m, s, K; dimensionless = 1).  A member of an equivalence is
named by a short string (its physical kind); MEMBERS[eq] maps member -> dimension vector (vf.ref.dims).  `convert`
evaluates the defining formula in numpy longdouble and also returns
  * cond  - the relative condition number of the map at each value (1 for the linear/reciprocal/power-law
            maps; gamma**2 resp. 1/(gamma**2-1) for the two Lorentz directions), used only to scale error bounds;
  * mags  - magnitudes of natural intermediate quantities of the formula (used only to decide whether a
            narrow, 4-byte, in-place buffer can hold them; never part of a verdict on 8-byte data).
The physical constants are parameters (`Consts`): the property says "evaluated with the library's own constants", so
the check reads their value and unit string off unyt.physical_constants and scales them with vf.ref.uexpr/defs.
"""
import numpy as np
from .dims import D

LD = np.longdouble

DIM = {
    "temperature": D("K"),
    "energy": D("M L2 T-2"),
    "mass": D("M"),
    "length": D("L"),
    "rate": D("T-1"),
    "spatial_frequency": D("L-1"),
    "velocity": D("L T-1"),
    "dimensionless": D(""),
    "flux": D("M T-3"),
    "density": D("M L-3"),
    "number_density": D("L-3"),
}

# equivalence -> ordered member kinds
MEMBERS = {
    "thermal": ("temperature", "energy"),
    "spectral": ("length", "rate", "energy", "spatial_frequency"),
    "mass_energy": ("mass", "energy"),
    "lorentz": ("dimensionless", "velocity"),
    "schwarzschild": ("mass", "length"),
    "compton": ("mass", "length"),
    "number_density": ("density", "number_density"),
    "sound_speed": ("velocity", "temperature", "energy"),
    "effective_temperature": ("flux", "temperature"),
}
KWARGS = {"number_density": ("mu",), "sound_speed": ("mu", "gamma")}
DEFAULTS = {"mu": 0.6, "gamma": 5.0 / 3.0}

# long names in unyt.physical_constants -> expected dimension (sanity check of what was read)
CONSTANT_NAMES = {
    "kB": ("boltzmann_constant_mks", D("M L2 T-2 K-1")),
    "c": ("speed_of_light_mks", D("L T-1")),
    "h": ("planck_constant_mks", D("M L2 T-1")),
    "mH": ("mass_hydrogen_mks", D("M")),
    "G": ("gravitational_constant_mks", D("M-1 L3 T-2")),
    "sigma": ("stefan_boltzmann_constant_mks", D("M T-3 K-4")),
}


class Consts:
    def __init__(self, **kw):
        for k in CONSTANT_NAMES:
            setattr(self, k, LD(kw[k]))


def member_dims(eq):
    return {m: DIM[m] for m in MEMBERS[eq]}


def covers(eq, dim_from, dim_to):
    """does the equivalence relate the two dimension vectors (both are member dimensions)?"""
    ds = [DIM[m] for m in MEMBERS[eq]]
    return dim_from in ds and dim_to in ds


def has_member(eq, dim):
    return dim in [DIM[m] for m in MEMBERS[eq]]


def degree(eq, a, b):
    """highest integer power of the input that appears in the defining formula (v^2/c^2, cs^2, T^4, gamma^2)"""
    if a == b:
        return 1
    if eq == "lorentz":
        return 2
    if eq == "effective_temperature" and a == "temperature":
        return 4
    if eq == "sound_speed" and a == "velocity":
        return 2
    return 1


def positive_only(eq, a, b):
    """maps that are only defined (real, invertible) for positive input"""
    return eq in ("lorentz", "sound_speed", "effective_temperature")


def domain_ok(eq, a, x, K):
    """is the SI value x of member a inside the domain of the equivalence?"""
    x = np.asarray(x, dtype=LD)
    if eq == "lorentz":
        if a == "velocity":
            return bool(np.all((x >= 0) & (x < K.c * (1 - LD(1e-13)))))
        return bool(np.all(x >= 1))
    if eq in ("sound_speed", "effective_temperature"):
        return bool(np.all(x > 0))
    if eq in ("spectral", "compton"):
        return bool(np.all(x != 0))
    return True


def convert(eq, a, b, x, K, mu=None, gamma=None):
    """SI value of member b equivalent to SI value x of member a.  -> (y, cond, mags)"""
    x = np.asarray(x, dtype=LD)
    one = np.ones_like(x)
    mu = LD(DEFAULTS["mu"] if mu is None else mu)
    gamma = LD(DEFAULTS["gamma"] if gamma is None else gamma)
    if a == b:
        return x, one, [x]
    if eq == "thermal":
        y = x * K.kB if (a, b) == ("temperature", "energy") else x / K.kB
        return y, one, [x, y]
    if eq == "mass_energy":
        y = x * K.c * K.c if (a, b) == ("mass", "energy") else x / (K.c * K.c)
        return y, one, [x, y]
    if eq == "spectral":
        nu = {"length": lambda: K.c / x, "rate": lambda: x, "energy": lambda: x / K.h,
              "spatial_frequency": lambda: x * K.c}[a]()
        y = {"length": lambda: K.c / nu, "rate": lambda: nu, "energy": lambda: nu * K.h,
             "spatial_frequency": lambda: nu / K.c}[b]()
        return y, one, [x, y]
    if eq == "schwarzschild":
        y = 2 * K.G * x / (K.c * K.c) if (a, b) == ("mass", "length") else x * K.c * K.c / (2 * K.G)
        return y, one, [x, y]
    if eq == "compton":
        y = K.h / (x * K.c)
        return y, one, [x, y]
    if eq == "number_density":
        y = x * mu * K.mH if (a, b) == ("number_density", "density") else x / (mu * K.mH)
        return y, one, [x, y]
    if eq == "effective_temperature":
        if (a, b) == ("temperature", "flux"):
            y = K.sigma * x ** 4
            return y, 4 * one, [x, x ** 4, y]
        y = (x / K.sigma) ** LD(0.25)
        return y, one, [x, x / K.sigma, y]
    if eq == "sound_speed":
        # hub: thermal energy E = kB T = mu mH v^2 / gamma
        if a == "velocity":
            E = x * x * mu * K.mH / gamma
            mags = [x, x * x, E]
        elif a == "temperature":
            E = x * K.kB
            mags = [x, E]
        else:
            E = x
            mags = [x]
        if b == "velocity":
            y = np.sqrt(gamma * E / (mu * K.mH))
            mags += [y * y, y]
        elif b == "temperature":
            y = E / K.kB
            mags += [y]
        else:
            y = E
        return y, 2 * one, mags
    if eq == "lorentz":
        if (a, b) == ("velocity", "dimensionless"):
            beta = x / K.c
            y = 1 / np.sqrt((1 - beta) * (1 + beta))
            return y, y * y, [x, beta, beta * beta, y]
        g = x
        beta = np.sqrt((g - 1) * (g + 1)) / g
        with np.errstate(all="ignore"):
            cond = 1 + 1 / ((g - 1) * (g + 1))
        return beta * K.c, cond, [g, g * g, 1 / (g * g), beta * K.c]
    raise KeyError(eq)


def roundtrip_cond(eq, a, b, x, K, mu=None, gamma=None):
    """error amplification of a -> b -> a relative to one rounding, per value"""
    y, c1, _ = convert(eq, a, b, x, K, mu, gamma)
    if eq != "lorentz" or a == b:
        return np.ones_like(np.asarray(x, dtype=LD)) * 4
    if a == "velocity":
        beta = np.asarray(x, dtype=LD) / K.c
        return 1 + 2 / (beta * beta)
    g = np.asarray(x, dtype=LD)
    return 2 * g * g
