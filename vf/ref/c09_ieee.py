"""What the published formula of an equivalence gives on *special data* when it is evaluated by IEEE-754 arithmetic (trusted base of the
special-values dimension of C09; nothing here imports unyt).

vf/ref/equivs.py evaluates the nine formulas for ordinary numbers (finite, non-zero, inside the physical domain) and returns a value
with an error bound.  For an exact zero, an infinity, a NaN, a number outside the domain (negative under a root, |v| > c, gamma < 1) or
next to the overflow / underflow threshold, "the formula evaluated on the same element" is still well defined by IEEE arithmetic
(h*c/0 = inf, k/inf = 0, sqrt(-1) = NaN, inf*k = inf) - but only where *every reasonable way of writing the formula* gives the same
answer.  So each direction is written here in several algebraically equal spellings (direct, through each hub member, factored
differently), every spelling is evaluated in longdouble and in float64, and an element gets a verdict class only where all of them
agree; elsewhere (gamma = inf: c*sqrt(1-1/g^2) = c but c*sqrt(g^2-1)/g = NaN; T = 1e80 K: T^4 overflows in float64 but not in longdouble)
the element is UNJUDGED.  Finite non-zero elements additionally have to keep their class when moved by +-margin (relative, 1e-9): an element on a
domain edge (v = c up to rounding of the unit scale) is unjudged.

classes:  UNJUDGED, FINITE (value in `y`), NAN, PINF, NINF, ANYINF (an infinity produced by a zero element: -0.0 == 0.0 as numbers, so
either sign is the formula's answer), ZERO (sign of a zero result is never judged).
"""
import numpy as np

LD = np.longdouble
UNJUDGED, FINITE, NAN, PINF, NINF, ANYINF, ZERO = range(7)
NAMES = {UNJUDGED: "unjudged", FINITE: "finite", NAN: "nan", PINF: "+inf", NINF: "-inf", ANYINF: "inf", ZERO: "zero"}
DEFAULTS = {"mu": 0.6, "gamma": 5.0 / 3.0}


class _C:
    pass


def _consts(K, T):
    c = _C()
    for k in ("kB", "c", "h", "mH", "G", "sigma"):
        setattr(c, k, T(getattr(K, k)))
    return c


def _spectral_to_nu(a, x, C):
    return {"length": [C.c / x, (C.h * C.c / x) / C.h], "rate": [x], "energy": [x / C.h],
            "spatial_frequency": [x * C.c, (x * C.h * C.c) / C.h]}[a]


def _spectral_from_nu(b, nu, C):
    return {"length": [C.c / nu, C.h * C.c / (nu * C.h)], "rate": [nu], "energy": [nu * C.h],
            "spatial_frequency": [nu / C.c, (nu * C.h) / (C.h * C.c)]}[b]


def spellings(eq, a, b, x, C, mu, gamma):
    """list of results of algebraically equal spellings of the map member a -> member b (all in SI), in the float type of x"""
    T = x.dtype.type
    one, two = T(1), T(2)
    if a == b:
        return [x]
    if eq == "thermal":
        return [x * C.kB, C.kB * x] if b == "energy" else [x / C.kB, x * (one / C.kB)]
    if eq == "mass_energy":
        return [x * C.c * C.c, x * (C.c * C.c)] if b == "energy" else [x / (C.c * C.c), x / C.c / C.c]
    if eq == "schwarzschild":
        return ([two * C.G * x / (C.c * C.c), x * (two * C.G / (C.c * C.c))] if b == "length"
                else [x * C.c * C.c / (two * C.G), x * (C.c * C.c / (two * C.G)), x / (two * C.G / (C.c * C.c))])
    if eq == "compton":
        return [C.h / (x * C.c), (C.h / C.c) / x, C.h / C.c / x]
    if eq == "number_density":
        return [x / (mu * C.mH), x / mu / C.mH] if b == "number_density" else [x * mu * C.mH, x * (mu * C.mH)]
    if eq == "spectral":
        out = []
        direct = {("length", "rate"): lambda: C.c / x, ("rate", "length"): lambda: C.c / x,
                  ("length", "spatial_frequency"): lambda: one / x, ("spatial_frequency", "length"): lambda: one / x,
                  ("length", "energy"): lambda: C.h * C.c / x, ("energy", "length"): lambda: C.h * C.c / x,
                  ("rate", "energy"): lambda: x * C.h, ("energy", "rate"): lambda: x / C.h,
                  ("spatial_frequency", "energy"): lambda: x * (C.h * C.c), ("energy", "spatial_frequency"): lambda: x / (C.h * C.c),
                  ("rate", "spatial_frequency"): lambda: x / C.c, ("spatial_frequency", "rate"): lambda: x * C.c}
        out.append(direct[(a, b)]())
        for nu in _spectral_to_nu(a, x, C):
            out += _spectral_from_nu(b, nu, C)
        return out
    if eq == "effective_temperature":
        if b == "flux":
            x2 = x * x
            return [C.sigma * x ** 4, C.sigma * (x2 * x2), x2 * x2 * C.sigma]
        q = x / C.sigma
        return [q ** T(0.25), np.sqrt(np.sqrt(q))]
    if eq == "sound_speed":
        mu, gamma = T(mu), T(gamma)
        if a == "velocity":
            Es = [x * x * mu * C.mH / gamma, (mu * C.mH / gamma) * (x * x), x ** 2 * (mu * C.mH) / gamma]
        elif a == "temperature":
            Es = [x * C.kB]
        else:
            Es = [x]
        out = []
        for E in Es:
            if b == "velocity":
                out += [np.sqrt(gamma * E / (mu * C.mH)), np.sqrt(E * (gamma / (mu * C.mH)))]
                if a == "temperature":
                    out.append(np.sqrt((C.kB * gamma / (mu * C.mH)) * x))
            elif b == "temperature":
                out += [E / C.kB]
            else:
                out += [E]
        return out
    if eq == "lorentz":
        if b == "dimensionless":
            beta = x / C.c
            return [one / np.sqrt(one - beta * beta), one / np.sqrt((one - beta) * (one + beta)), one / np.sqrt(one - (x * x) / (C.c * C.c))]
        g = x
        return [C.c * np.sqrt(one - one / (g * g)), C.c * np.sqrt((g - one) * (g + one)) / np.abs(g), np.sqrt(one - one / g / g) * C.c]
    raise KeyError(eq)


def _cls(y):
    """class code per element of one evaluation"""
    c = np.full(y.shape, FINITE, dtype=np.int8)
    c[np.isnan(y)] = NAN
    c[np.isposinf(y)] = PINF
    c[np.isneginf(y)] = NINF
    c[y == 0] = ZERO
    return c


def expect(eq, a, b, xsi, K, mu=None, gamma=None, margin=1e-9):
    """xsi: SI values of member a (any shape, may hold zeros, infinities, NaN, out-of-domain and extreme numbers).
    -> (cls, y): class code per element and, where FINITE, the longdouble value in SI"""
    mu = DEFAULTS["mu"] if mu is None else mu
    gamma = DEFAULTS["gamma"] if gamma is None else gamma
    x = np.asarray(xsi, dtype=LD)
    with np.errstate(all="ignore"):
        evs = []
        for T, xs in ((LD, x), (np.float64, x.astype(np.float64))):
            C = _consts(K, T)
            evs += [np.asarray(v, dtype=LD) for v in spellings(eq, a, b, np.asarray(xs, dtype=T), C, T(mu), T(gamma))]
        y = evs[0]
        cls = _cls(y)
        agree = np.ones(x.shape, dtype=bool)
        for v in evs[1:]:
            cv = _cls(v)
            agree &= cv == cls
            both = (cv == FINITE) & (cls == FINITE)
            rel = np.abs(v - y) <= LD(1e-9) * np.abs(y)
            agree &= ~both | rel
        # float64 copy of the input must be the input (longdouble readings of float64 data always are)
        special_in = np.isnan(x) | np.isinf(x) | (x == 0)
        # finite non-zero elements: the class must survive a relative move of 1e-9 either way (domain edges are unjudged)
        C = _consts(K, LD)
        for f in (LD(1) + LD(margin), LD(1) - LD(margin)):
            moved = spellings(eq, a, b, x * f, C, LD(mu), LD(gamma))[0]
            cm = _cls(np.asarray(moved, dtype=LD))
            agree &= special_in | (cm == cls)
        # finite results have to be comfortably inside the float64 normal range (IEEE itself rounds below it)
        with np.errstate(all="ignore"):
            ay = np.abs(y)
            in_range = (ay > LD(1e-290)) & (ay < LD(1e290))
        agree &= (cls != FINITE) | in_range
        # a zero / infinite result of a finite non-zero element is an underflow / overflow, which depends on the order of evaluation
        agree &= special_in | (cls == FINITE) | (cls == NAN)
        out = np.where(agree, cls, UNJUDGED).astype(np.int8)
        out[(out == PINF) & (x == 0)] = ANYINF
        out[(out == NINF) & (x == 0)] = ANYINF
    return out, y


def judge(got, cls, want, bound):
    """got: delivered numbers; cls/want/bound per element (want, bound in the unit of got).  -> (n_judged, index of first failing element or
    None, class name delivered there)"""
    g = np.asarray(got, dtype=LD).reshape(-1)
    cls = np.asarray(cls).reshape(-1)
    shape = np.shape(want)
    want = np.asarray(want, dtype=LD).reshape(-1)
    bound = np.broadcast_to(np.asarray(bound, dtype=LD), shape).reshape(-1)
    n = 0
    with np.errstate(all="ignore"):
        for i in range(g.size):
            c = cls[i]
            if c == UNJUDGED:
                continue
            n += 1
            v = g[i]
            if c == NAN:
                ok = bool(np.isnan(v))
            elif c == PINF:
                ok = bool(np.isposinf(v))
            elif c == NINF:
                ok = bool(np.isneginf(v))
            elif c == ANYINF:
                ok = bool(np.isinf(v))
            elif c == ZERO:
                ok = bool(v == 0)
            else:
                ok = bool(np.isfinite(v) and (abs(v - want[i]) <= bound[i] or v == want[i]))
            if not ok:
                return n, i, NAMES[int(_cls(np.asarray([v], dtype=LD))[0])]
    return n, None, None
