"""Independent transcription of the physical dimensions named in unyt/dimensions.py (trusted base of C19's decorator part).

name -> dimension vector (vf.ref.dims.D spec over M L T K(temperature) A(angle) I(current) J(luminous intensity) LOG).
Written from the physical definitions (ISQ; Gaussian electromagnetic quantities expressed through M, L, T with half-integer
exponents; unyt's convention that plane angle is a base dimension, so solid angle = A2, luminous flux = J A2, angular
frequency = A T-1), not read from the module.
"""
from .dims import D

SPEC = {
    # base
    "mass": "M", "length": "L", "time": "T", "temperature": "K", "angle": "A", "current_mks": "I",
    "luminous_intensity": "J", "dimensionless": "", "logarithmic": "LOG",
    # kinematics / mechanics
    "rate": "T-1", "frequency": "T-1", "angular_frequency": "A T-1", "spatial_frequency": "L-1", "solid_angle": "A2",
    "velocity": "L T-1", "acceleration": "L T-2", "jerk": "L T-3", "snap": "L T-4", "crackle": "L T-5", "pop": "L T-6",
    "area": "L2", "volume": "L3", "momentum": "M L T-1", "force": "M L T-2", "tension": "M T-2", "pressure": "M L-1 T-2",
    "energy": "M L2 T-2", "power": "M L2 T-3", "flux": "M T-3", "specific_flux": "M T-2", "number_density": "L-3",
    "density": "M L-3", "angular_momentum": "M L2 T-1", "specific_angular_momentum": "L2 T-1", "specific_energy": "L2 T-2",
    "count_flux": "L-2 T-1", "count_intensity": "L-2 T-1 A-2", "luminous_flux": "J A2", "luminance": "J L-2",
    # Gaussian electromagnetism
    "charge_cgs": "M1/2 L3/2 T-1", "current_cgs": "M1/2 L3/2 T-2", "electric_field_cgs": "M1/2 L-1/2 T-1",
    "magnetic_field_cgs": "M1/2 L-1/2 T-1", "electric_potential_cgs": "M1/2 L1/2 T-1", "resistance_cgs": "L-1 T",
    "magnetic_flux_cgs": "M1/2 L3/2 T-1",
    # SI electromagnetism
    "charge": "I T", "charge_mks": "I T", "electric_field": "M L T-3 I-1", "electric_field_mks": "M L T-3 I-1",
    "magnetic_field": "M T-2 I-1", "magnetic_field_mks": "M T-2 I-1", "electric_potential": "M L2 T-3 I-1",
    "electric_potential_mks": "M L2 T-3 I-1", "resistance": "M L2 T-3 I-2", "resistance_mks": "M L2 T-3 I-2",
    "capacitance": "M-1 L-2 T4 I2", "capacitance_mks": "M-1 L-2 T4 I2", "magnetic_flux": "M L2 T-2 I-1",
    "magnetic_flux_mks": "M L2 T-2 I-1", "inductance": "M L2 T-2 I-2", "inductance_mks": "M L2 T-2 I-2",
}
VEC = {k: D(v) for k, v in SPEC.items()}

# extra compound dimensions (not named in the module) used as commensurability families and composite decorator specs
EXTRA = {
    "dynamic_viscosity": "M L-1 T-1", "kinematic_viscosity": "L2 T-1", "mass_flow": "M T-1", "volume_flow": "L3 T-1",
    "action": "M L2 T-1", "specific_heat": "L2 T-2 K-1", "thermal_conductivity": "M L T-3 K-1", "entropy": "M L2 T-2 K-1",
    "surface_density": "M L-2", "angular_acceleration": "A T-2", "illuminance": "J A2 L-2", "magnetic_moment": "I L2",
    "length_3_2": "L3/2", "inverse_temperature": "K-1",
}
XVEC = {k: D(v) for k, v in EXTRA.items()}
