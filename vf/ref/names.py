"""Independent name resolution over ref/defs.py.  The *listing* of alternative spellings is read from unyt's
documentation table (default_unit_name_alternatives: that is what 'documented names' means); how a name is
resolved (symbol/alias precedence, prefix splitting, word prefixes, title case) is decided here."""
from . import defs

_cache = {}


def alias_table():
    from unyt._unit_lookup_table import default_unit_name_alternatives as A
    return {k: tuple(v) for k, v in A.items()}


def build():
    """name -> list of readings (rank, factor, symbol, how); lower rank wins."""
    if "tab" in _cache:
        return _cache["tab"]
    A = alias_table()
    tab = {}

    def add(name, rank, factor, sym, how):
        tab.setdefault(name, []).append((rank, factor, sym, how))

    for sym in defs.T:
        add(sym, 0, 1.0, sym, "symbol")
    for sym, als in A.items():
        for a in als:
            add(a, 0, 1.0, sym, "alias")
    for sym, de in defs.T.items():
        if not de.prefixable:
            continue
        spell = [(sym, "sym")] + [(a, "alias") for a in A.get(sym, ())]
        for p, f in defs.PREFIX.items():
            for s, kind in spell:
                add(p + s, 1, f, sym, f"prefix+{kind}")
        for w, f in defs.PREFIX_WORD.items():
            for s, kind in spell:
                add(w + s, 1, f, sym, f"word+{kind}")
    # title-case variants of anything listed so far (rank 2)
    # title-case variants: only those unyt actually exposes (the exposed list is the documentation; which
    # lower-case name a title-case string stands for is decided here)
    from unyt._unit_lookup_table import name_alternatives
    exposed = {n for v in name_alternatives.values() for n in v}
    snapshot = {k: list(v) for k, v in tab.items()}
    for name, readings in snapshot.items():
        t = name.title()
        if t != name and t in exposed:
            for (rank, f, sym, how) in readings:
                if not how.startswith("title:"):
                    add(t, 0.5 if rank == 0 else 2, f, sym, "title:" + how)
    _cache["tab"] = tab
    return tab


def resolve(name):
    """-> (factor, symbol, ambiguous_flag) or None"""
    tab = build()
    r = tab.get(name)
    if not r:
        return None
    best = min(x[0] for x in r)
    top = {(f, s) for (rk, f, s, h) in r if rk == best}
    f, s = sorted(top)[0]
    return f, s, len(top) > 1


def ref_unit(name):
    """-> (scale, dimvec, Def, factor) for a documented name, else None"""
    r = resolve(name)
    if r is None:
        return None
    f, s, _ = r
    de = defs.T[s]
    return de.value * f, de.dim, de, f


def resolver(extra=None):
    """resolver callback for uexpr over the default names (+ extra: name -> (scale, dimvec))"""
    def res(tok):
        if tok == "%":
            tok = "percent"
        if tok.startswith("°"):
            tok = "deg" + tok[1:]
        if tok.startswith("Δ°"):
            tok = "delta_deg" + tok[2:]
        if extra and tok in extra:
            return extra[tok]
        r = ref_unit(tok)
        if r is None:
            return None
        return r[0], r[1]
    return res
