"""Own tokenizer + recursive-descent evaluator of unit expressions -> (scale, dimension vector).
Grammar:  expr := term (('*'|'/') term)* ; term := atom ('**' expo)? ; atom := NAME | NUMBER | '(' expr ')' | 'sqrt' '(' expr ')'
expo := ['-'|'+'] (NUMBER | '(' arith ')') | ['-'] atomNUMBER ;  arith := rational arithmetic with + - * / and parentheses."""
import re
from fractions import Fraction as Fr
from . import dims

TOK = re.compile(r"\s*(\*\*|[*/()+\-]|\d+\.\d*(?:[eE][+-]?\d+)?|\.\d+(?:[eE][+-]?\d+)?|\d+(?:[eE][+-]?\d+)?|[^\W\d][\w]*|%|°\w+|Δ°\w+)", re.UNICODE)


class ParseError(Exception):
    pass


def tokenize(s):
    out = []
    pos = 0
    s = s.strip()
    while pos < len(s):
        m = TOK.match(s, pos)
        if not m:
            raise ParseError(f"bad char at {pos}: {s[pos:pos+5]!r}")
        out.append(m.group(1))
        pos = m.end()
    return out


class P:
    def __init__(self, toks, resolve):
        self.t = toks
        self.i = 0
        self.resolve = resolve

    def peek(self):
        return self.t[self.i] if self.i < len(self.t) else None

    def eat(self, x=None):
        tok = self.peek()
        if tok is None or (x is not None and tok != x):
            raise ParseError(f"expected {x} got {tok}")
        self.i += 1
        return tok

    def expr(self):
        s, d = self.term()
        while self.peek() in ("*", "/"):
            op = self.eat()
            s2, d2 = self.term()
            if op == "*":
                s, d = s * s2, dims.mul(d, d2)
            else:
                s, d = s / s2, dims.div(d, d2)
        return s, d

    def term(self):
        s, d = self.atom()
        if self.peek() == "**":
            self.eat()
            p = self.expo()
            s = float(s) ** float(p)
            d = dims.power(d, p)
        return s, d

    def atom(self):
        tok = self.peek()
        if tok == "(":
            self.eat()
            r = self.expr()
            self.eat(")")
            return r
        if tok == "sqrt":
            self.eat()
            self.eat("(")
            s, d = self.expr()
            self.eat(")")
            return float(s) ** 0.5, dims.power(d, Fr(1, 2))
        if tok is None:
            raise ParseError("unexpected end")
        if re.match(r"[\d.]", tok):
            self.eat()
            return float(tok), dims.ZERO
        if tok in ("*", "/", "**", ")", "+", "-"):
            raise ParseError(f"unexpected {tok}")
        self.eat()
        r = self.resolve(tok)
        if r is None:
            raise ParseError(f"unknown name {tok}")
        return r

    def expo(self):
        sign = 1
        while self.peek() in ("-", "+"):
            if self.eat() == "-":
                sign = -sign
        if self.peek() == "(":
            self.eat()
            v = self.arith()
            self.eat(")")
            return sign * v
        tok = self.eat()
        if not re.match(r"[\d.]", tok):
            raise ParseError("bad exponent")
        return sign * Fr(tok).limit_denominator(10**6)

    def arith(self):
        v = self.aterm()
        while self.peek() in ("+", "-"):
            if self.eat() == "+":
                v += self.aterm()
            else:
                v -= self.aterm()
        return v

    def aterm(self):
        v = self.afac()
        while self.peek() in ("*", "/"):
            if self.eat() == "*":
                v *= self.afac()
            else:
                v /= self.afac()
        return v

    def afac(self):
        tok = self.peek()
        if tok == "-":
            self.eat()
            return -self.afac()
        if tok == "+":
            self.eat()
            return self.afac()
        if tok == "(":
            self.eat()
            v = self.arith()
            self.eat(")")
            return v
        self.eat()
        if not re.match(r"[\d.]", tok or ""):
            raise ParseError("bad number in exponent")
        return Fr(tok).limit_denominator(10**6)


def evaluate(s, resolve):
    if s.strip() == "":
        return 1.0, dims.ZERO
    p = P(tokenize(s), resolve)
    r = p.expr()
    if p.peek() is not None:
        raise ParseError(f"trailing {p.peek()}")
    return float(r[0]), r[1]
