"""Exact (Fraction) reference for C17: unit scales/offsets of unit expressions built from exactly defined symbols, exact
affine conversion, and a pure-Python model of IEEE binary16/32/64 spacing (ulp, overflow threshold, representability).

Independent of unyt: scales come from vf/ref/defs.py (`Def.exact`), names from vf/ref/names.py; nothing here imports unyt
(names.py reads only the documented alias listing).  Convention of defs: base = scale * (reading - offset)."""
import re
from fractions import Fraction as Fr
from . import defs, names

_TOK = re.compile(r"\s*(\*\*|[*/()\-+]|\d+\.\d*(?:[eE][+-]?\d+)?|\d+(?:[eE][+-]?\d+)?|[^\W\d]\w*|%)", re.UNICODE)


class Unparsed(Exception):
    pass


def _atom_exact(name):
    r = names.resolve(name)
    if r is None:
        raise Unparsed("unknown unit name %r" % name)
    f, sym, _ = r
    de = defs.T[sym]
    if de.exact is None:
        raise Unparsed("unit %r is not exactly defined" % name)
    pf = Fr(repr(f)) if f != 1.0 else Fr(1)
    off = Fr(repr(de.offset)) if de.offset else Fr(0)
    if off and pf != 1:
        off = off / pf          # prefixed degC: same zero point, reading scaled
    return de.exact * pf, off


class _P:
    def __init__(self, toks):
        self.t, self.i = toks, 0
        self.offsets = []

    def peek(self):
        return self.t[self.i] if self.i < len(self.t) else None

    def eat(self, x=None):
        tok = self.peek()
        if tok is None or (x is not None and tok != x):
            raise Unparsed("expected %r got %r" % (x, tok))
        self.i += 1
        return tok

    def expr(self):
        s = self.term()
        while self.peek() in ("*", "/"):
            if self.eat() == "*":
                s = s * self.term()
            else:
                s = s / self.term()
        return s

    def term(self):
        s = self.atom()
        if self.peek() == "**":
            self.eat()
            p = self.expo()
            if p.denominator != 1:
                raise Unparsed("fractional power")
            s = s ** int(p)
        return s

    def expo(self):
        sign = 1
        if self.peek() == "(":
            self.eat()
            v = self.expo()
            self.eat(")")
            return v
        while self.peek() in ("-", "+"):
            if self.eat() == "-":
                sign = -sign
        tok = self.eat()
        if not re.match(r"\d", tok):
            raise Unparsed("bad exponent %r" % tok)
        return sign * Fr(tok)

    def atom(self):
        tok = self.peek()
        if tok == "(":
            self.eat()
            r = self.expr()
            self.eat(")")
            return r
        if tok is None or tok in ("*", "/", "**", ")", "+", "-"):
            raise Unparsed("unexpected %r" % tok)
        self.eat()
        if re.match(r"\d", tok):
            return Fr(tok)
        s, off = _atom_exact(tok)
        self.offsets.append(off)
        return s


_cache = {}


def unit_exact(expr):
    """unit expression string -> (scale: Fraction, offset: Fraction).  offset != 0 only for a lone offset symbol."""
    expr = str(expr).strip()
    if expr in _cache:
        return _cache[expr]
    if expr in ("", "dimensionless", "1"):
        r = (Fr(1), Fr(0))
    else:
        toks = []
        pos = 0
        while pos < len(expr):
            m = _TOK.match(expr, pos)
            if not m:
                raise Unparsed("bad char in %r at %d" % (expr, pos))
            toks.append(m.group(1))
            pos = m.end()
        p = _P(toks)
        s = p.expr()
        if p.peek() is not None:
            raise Unparsed("trailing %r in %r" % (p.peek(), expr))
        nz = [o for o in p.offsets if o]
        if nz and len(p.offsets) != 1:
            raise Unparsed("offset unit inside a compound expression: %r" % expr)
        r = (s, nz[0] if nz else Fr(0))
    _cache[expr] = r
    return r


# SI <-> Gaussian electromagnetic pairs: the two sides have different dimensions, so the factor is not a ratio of scales.
# 1 T = 1e4 G, 1 C = 10*c[m/s] statC = 2997924580 statC (likewise A -> statA); exact by definition of the Gaussian system.
EM = {("T", "G"): Fr(10 ** 4), ("C", "statC"): Fr(2997924580), ("A", "statA"): Fr(2997924580)}
for (_a, _b), _k in list(EM.items()):
    EM[(_b, _a)] = 1 / _k


def ratio_exact(src, dst):
    """multiplicative factor reading(src) -> reading(dst) (ignoring offsets)"""
    if (src, dst) in EM:
        return EM[(src, dst)]
    return unit_exact(src)[0] / unit_exact(dst)[0]


def convert_exact(v, src, dst):
    """reading v (Fraction) in unit src -> exact reading in unit dst, plus the magnitudes of the intermediate terms"""
    if (src, dst) in EM:
        return v * EM[(src, dst)], (abs(v * EM[(src, dst)]),)
    s1, o1 = unit_exact(src)
    s2, o2 = unit_exact(dst)
    ratio = s1 / s2
    out = ratio * (v - o1) + o2
    return out, (abs(ratio * v), abs(ratio * o1), abs(o2))


def convert_scale_exact(v, src, dst):
    """difference-like conversion (scale only; used for imaginary parts and mixed-unit operands)"""
    if (src, dst) in EM:
        return v * EM[(src, dst)]
    s1, _ = unit_exact(src)
    s2, _ = unit_exact(dst)
    return v * s1 / s2


# ------------------------------------------------------------------ IEEE model
class FInfo:
    """plain-Python description of a binary float format"""
    __slots__ = ("name", "nmant", "minexp", "maxexp", "max", "eps", "tiny_sub")

    def __init__(self, name, nmant, minexp, maxexp):
        self.name, self.nmant, self.minexp, self.maxexp = name, nmant, minexp, maxexp
        self.max = (Fr(2) - Fr(2) ** (-nmant)) * Fr(2) ** (maxexp - 1)
        self.eps = Fr(2) ** (-nmant)
        self.tiny_sub = Fr(2) ** (minexp - nmant)


F2 = FInfo("f2", 10, -14, 16)
F4 = FInfo("f4", 23, -126, 128)
F8 = FInfo("f8", 52, -1022, 1024)
BY_SIZE = {2: F2, 4: F4, 8: F8}


def ilog2(x):
    """floor(log2(x)) for a positive Fraction"""
    e = x.numerator.bit_length() - x.denominator.bit_length()
    if Fr(2) ** e > x:
        e -= 1
    elif Fr(2) ** (e + 1) <= x:
        e += 1
    return e


def ulp(x, fi):
    x = abs(x)
    if x == 0:
        return fi.tiny_sub
    e = min(max(ilog2(x), fi.minexp), fi.maxexp - 1)
    return Fr(2) ** (e - fi.nmant)


def int_representable(v, fi):
    """is the integer v exactly representable in the float format fi"""
    v = abs(int(v))
    if v == 0:
        return True
    if Fr(v) > fi.max:
        return False
    tz = (v & -v).bit_length() - 1
    return (v >> tz).bit_length() <= fi.nmant + 1


def judge(got, exact, fi, K, mags=(), tol=None):
    """got: Python float (possibly inf/nan); exact: Fraction or one of 'nan', '+inf', '-inf'.
    -> None when got equals exact rounded to format fi within K ulp (ulp taken at the largest intermediate magnitude;
       or within the absolute tolerance `tol` when given), else a short failure class."""
    if isinstance(exact, str):
        if exact == "nan":
            return None if got != got else "value"
        want = float("inf") if exact == "+inf" else float("-inf")
        return None if got == want else "value"
    if got != got:
        return "nan"
    if tol is None:
        tol = K * max([ulp(exact, fi)] + [ulp(m, fi) for m in mags])
    if got in (float("inf"), float("-inf")):
        if (got > 0) == (exact > 0) and abs(exact) >= fi.max - tol:
            return None
        return "inf"
    g = Fr(got)
    if abs(g - exact) <= tol:
        return None
    if abs(exact) > fi.max and abs(g) >= fi.max - tol and (g > 0) == (exact > 0):
        return None
    if exact.denominator != 1 and g.denominator == 1 and abs(g - exact) < 1:
        return "truncated"
    return "value"
