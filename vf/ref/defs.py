"""Independent transcription of the definitions of unyt's 145 atomic unit symbols (trusted base of C02/C14).

Every entry: symbol -> Def(value in SI-coherent base units, tolerance class, dimension vector, offset, prefixable).
Scale convention = unyt's: value of 1 unit in kg-m-s-K-rad-A-cd (Gaussian units expressed through M, L, T
with fractional exponents).  Affine convention: base = scale*(reading - offset).
Sources: SI brochure 9th ed.; NIST SP 811 (exact imperial/US customary definitions); CODATA 2018 (measured
constants, tolerance = spread of CODATA 1986-2018 adjustments); IAU 2012 B2 (au), IAU 2015 B3 (nominal solar and
planetary values); IAU style manual (Julian year); NASA planetary fact sheets (volumetric mean radii).
"""
import math
from fractions import Fraction as Fr
from .dims import D, ZERO

PI = math.pi
# relative tolerance per class
TOL = {
    "exact": 4e-15,       # exactly defined (rational, or rational x pi^k x 10^(k/2)); a few float roundings allowed
    "rounded": 1e-7,      # exactly defined but conventionally quoted to 8-9 digits (au, pc, BTU)
    "codata": 2e-6,       # measured; spread of CODATA adjustments 1986-2018
    "grav": 2e-4,         # limited by Newton's constant
    "nominal": 1e-3,      # astronomical nominal values
    "convention": 5e-2,   # literature conventions (solar metallicity)
}


class Def:
    __slots__ = ("value", "cls", "dim", "offset", "prefixable", "exact")

    def __init__(self, value, cls, dim, offset=0.0, prefixable=False):
        self.exact = value if isinstance(value, Fr) else None
        self.value = float(value)
        self.cls = cls
        self.dim = D(dim) if isinstance(dim, str) else dim
        self.offset = offset
        self.prefixable = prefixable

    @property
    def tol(self):
        return TOL[self.cls]


g0 = Fr(980665, 100000)          # standard gravity, m/s^2 (exact)
lb = Fr(45359237, 100000000)     # avoirdupois pound, kg (exact)
inch = Fr(254, 10000)
ft = Fr(3048, 10000)
mile = Fr(1609344, 1000)
lbf = lb * g0
usfloz = Fr(295735295625, 10**16)   # m^3  (231 in^3 / 128)
ukfloz = Fr(284130625, 10**13)      # m^3  (4.54609 L / 160)
c_light = Fr(299792458)
julian_year = Fr(31557600)
E_, En, Fo, Pr, Po = "M L2 T-2", "M L2 T-2", "M L T-2", "M L-1 T-2", "M L2 T-3"
Ten = "M T-2"   # force per length

# CODATA 2018 / IAU values used as references for measured quantities
h_planck = 6.62607015e-34
hbar = h_planck / (2 * PI)
k_B = 1.380649e-23
G_newton = 6.67430e-11
e_charge = 1.602176634e-19
m_e = 9.1093837015e-31
m_p = 1.67262192369e-27
m_u = 1.66053906660e-27
N_A = 6.02214076e23
eps0 = 8.8541878128e-12
R_inf = 10973731.568160
c = 299792458.0
GM_sun = 1.3271244e20    # IAU 2015 nominal
M_sun = GM_sun / G_newton

T = {}


def d(sym, value, cls, dim, offset=0.0, prefixable=False):
    assert sym not in T, sym
    T[sym] = Def(value, cls, dim, offset, prefixable)


# --- SI base and coherent derived
d("m", Fr(1), "exact", "L", prefixable=True)
d("g", Fr(1, 1000), "exact", "M", prefixable=True)
d("s", Fr(1), "exact", "T", prefixable=True)
d("K", Fr(1), "exact", "K", prefixable=True)
d("rad", Fr(1), "exact", "A", prefixable=True)
d("A", Fr(1), "exact", "I", prefixable=True)
d("cd", Fr(1), "exact", "J", prefixable=True)
d("mol", N_A, "codata", "", prefixable=True)
d("J", Fr(1), "exact", E_, prefixable=True)
d("W", Fr(1), "exact", Po, prefixable=True)
d("Hz", Fr(1), "exact", "T-1", prefixable=True)
d("N", Fr(1), "exact", Fo, prefixable=True)
d("C", Fr(1), "exact", "I T", prefixable=True)
d("T", Fr(1), "exact", "M T-2 I-1", prefixable=True)
d("Pa", Fr(1), "exact", Pr, prefixable=True)
d("bar", Fr(100000), "exact", Pr, prefixable=True)
d("V", Fr(1), "exact", "M L2 T-3 I-1", prefixable=True)
d("F", Fr(1), "exact", "M-1 L-2 T4 I2", prefixable=True)
d("H", Fr(1), "exact", "M L2 T-2 I-2", prefixable=True)
d("Ω", Fr(1), "exact", "M L2 T-3 I-2", prefixable=True)
d("Wb", Fr(1), "exact", "M L2 T-2 I-1", prefixable=True)
d("lm", Fr(1), "exact", "J A2", prefixable=True)
d("lx", Fr(1), "exact", "J A2 L-2", prefixable=True)
d("degC", Fr(1), "exact", "K", offset=-273.15, prefixable=True)
d("delta_degC", Fr(1), "exact", "K", prefixable=True)
d("L", Fr(1, 1000), "exact", "L3", prefixable=True)
d("ha", Fr(10000), "exact", "L2")
d("t", Fr(1000), "exact", "M")
d("Sv", Fr(1), "exact", "L2 T-2", prefixable=True)
# --- CGS (Gaussian electromagnetic units in M^a L^b T^c with half-integer exponents)
d("dyn", Fr(1, 10**5), "exact", Fo, prefixable=True)
d("erg", Fr(1, 10**7), "exact", E_, prefixable=True)
d("Ba", Fr(1, 10), "exact", Pr, prefixable=True)
d("G", 10 ** -0.5, "exact", "M1/2 L-1/2 T-1", prefixable=True)
d("statC", 10 ** -4.5, "exact", "M1/2 L3/2 T-1", prefixable=True)
d("statA", 10 ** -4.5, "exact", "M1/2 L3/2 T-2", prefixable=True)
d("statV", 10 ** -2.5, "exact", "M1/2 L1/2 T-1", prefixable=True)
d("statohm", Fr(100), "exact", "L-1 T", prefixable=True)
d("Mx", 10 ** -4.5, "exact", "M1/2 L3/2 T-1", prefixable=True)
# --- imperial / US customary (NIST SP 811, exact)
d("mil", inch / 1000, "exact", "L")
d("inch", inch, "exact", "L")
d("ft", ft, "exact", "L")
d("yd", 3 * ft, "exact", "L")
d("mile", mile, "exact", "L")
d("nmi", Fr(1852), "exact", "L")
d("mph", mile / 3600, "exact", "L T-1")
d("kt", Fr(1852, 3600), "exact", "L T-1")
d("acre", Fr(40468564224, 10**7), "exact", "L2")
d("furlong", 660 * ft, "exact", "L")
d("degF", Fr(5, 9), "exact", "K", offset=-459.67)
d("delta_degF", Fr(5, 9), "exact", "K")
d("R", Fr(5, 9), "exact", "K")
d("lbf", lbf, "exact", Fo)
d("kip", 1000 * lbf, "exact", Fo)
d("lb", lb, "exact", "M")
d("atm", Fr(101325), "exact", Pr)
d("hp", 550 * ft * lbf, "exact", Po)
d("oz", lb / 16, "exact", "M")
d("ton", 2000 * lb, "exact", "M")
d("ton_UK", 2240 * lb, "exact", "M")
d("slug", lbf / ft, "exact", "M")
d("fl_oz_US", usfloz, "exact", "L3")
d("fl_oz_UK", ukfloz, "exact", "L3")
d("pt_US", 16 * usfloz, "exact", "L3")
d("pt_UK", 20 * ukfloz, "exact", "L3")
d("qt_US", 32 * usfloz, "exact", "L3")
d("qt_UK", 40 * ukfloz, "exact", "L3")
d("gal_US", 128 * usfloz, "exact", "L3")
d("gal_UK", 160 * ukfloz, "exact", "L3")
d("cal", Fr(4184, 1000), "exact", E_, prefixable=True)
BTU = 1055.05585262   # International Table BTU
d("BTU", BTU, "rounded", E_)
d("MMBTU", 1e6 * BTU, "rounded", E_)
d("therm", 1e5 * BTU, "rounded", E_)
d("quad", 1e15 * BTU, "rounded", E_)
d("Wh", Fr(3600), "exact", E_, prefixable=True)
d("pli", lbf / inch, "exact", Ten)
d("plf", lbf / ft, "exact", Ten)
d("psi", lbf / inch**2, "exact", Pr)
d("psf", lbf / ft**2, "exact", Pr)
d("kli", 1000 * lbf / inch, "exact", Ten)
d("klf", 1000 * lbf / ft, "exact", Ten)
d("ksi", 1000 * lbf / inch**2, "exact", Pr)
d("ksf", 1000 * lbf / ft**2, "exact", Pr)
d("smoot", Fr(17018, 10000), "exact", "L")
# --- dimensionless
d("dimensionless", Fr(1), "exact", "")
d("%", Fr(1, 100), "exact", "")
d("counts", Fr(1), "exact", "")
d("photons", Fr(1), "exact", "")
# --- time
d("min", Fr(60), "exact", "T")
d("hr", Fr(3600), "exact", "T")
d("day", Fr(86400), "exact", "T")
d("week", Fr(604800), "exact", "T")
d("fortnight", Fr(1209600), "exact", "T")
d("yr", julian_year, "exact", "T", prefixable=True)
# --- velocity
d("c", c_light, "exact", "L T-1")
# --- solar / planetary
d("Msun", M_sun, "grav", "M")
d("Rsun", 6.957e8, "nominal", "L")
d("Lsun", 3.828e26, "nominal", Po)
d("Tsun", 5772.0, "nominal", "K")
d("Zsun", 0.01295, "convention", "")        # Cloudy 17
d("Zsun_angr", 0.0194, "convention", "")    # Anders & Grevesse 1989
d("Zsun_aspl", 0.0134, "convention", "")    # Asplund et al. 2009
d("Zsun_feld", 0.0191, "convention", "")    # Feldman 1992
d("Zsun_lodd", 0.0133, "convention", "")    # Lodders 2003
d("Mjup", 1.2668653e17 / G_newton, "nominal", "M")     # IAU 2015 nominal GM_J
d("Mearth", 3.986004e14 / G_newton, "nominal", "M")    # IAU 2015 nominal GM_E
d("Rjup", 6.9911e7, "nominal", "L")         # volumetric mean radius
d("Rearth", 6.3710e6, "nominal", "L")       # volumetric mean radius
# --- astronomical distances
AU = Fr(149597870700)
d("AU", AU, "rounded", "L")
d("ly", c_light * julian_year, "rounded", "L")
d("pc", float(AU) * 648000 / PI, "rounded", "L", prefixable=True)
# --- angles
d("degree", PI / 180, "exact", "A")
d("arcmin", PI / 10800, "exact", "A")
d("arcsec", PI / 648000, "exact", "A")
d("mas", PI / 648000000, "exact", "A")
d("hourangle", PI / 12, "exact", "A")
d("sr", Fr(1), "exact", "A2")
d("lat", -PI / 180, "exact", "A", offset=90.0)
d("lon", PI / 180, "exact", "A", offset=-180.0)
d("rpm", 2 * PI / 60, "exact", "A T-1")
d("rev", 2 * PI, "exact", "A")
d("spat", 4 * PI, "exact", "A2")
d("gradian", PI / 200, "exact", "A")
# --- misc
d("eV", e_charge, "codata", E_, prefixable=True)
d("foe", Fr(10**44), "exact", E_)
d("bethe", Fr(10**44), "exact", E_)
d("amu", m_u, "codata", "M")
d("Å", Fr(1, 10**10), "exact", "L")
d("Jy", Fr(1, 10**26), "exact", "M T-2", prefixable=True)
d("me", m_e, "codata", "M")
d("mp", m_p, "codata", "M")
d("Ry", h_planck * c * R_inf, "codata", E_)
d("rayleigh", 2.5e9 / PI, "exact", "L-2 T-1 A-2")
d("lambert", 1e4 / PI, "exact", "J L-2")
d("nt", Fr(1), "exact", "J L-2")
# --- Planck units
m_pl = math.sqrt(hbar * c / G_newton)
d("m_pl", m_pl, "grav", "M")
d("l_pl", math.sqrt(hbar * G_newton / c**3), "grav", "L")
d("t_pl", math.sqrt(hbar * G_newton / c**5), "grav", "T")
d("T_pl", m_pl * c * c / k_B, "grav", "K")
d("q_pl", math.sqrt(4 * PI * eps0 * hbar * c), "codata", "I T")
d("E_pl", m_pl * c * c, "grav", E_)
# --- geometrized
d("m_geom", M_sun, "grav", "M")
d("l_geom", GM_sun / c**2, "grav", "L")
d("t_geom", GM_sun / c**3, "grav", "T")
# --- logarithmic
d("B", math.log(10) / 2, "exact", "LOG", prefixable=True)
d("Np", Fr(1), "exact", "LOG", prefixable=True)

# --- SI prefixes (symbol -> factor), independent of unyt's table
PREFIX = {"Y": 1e24, "Z": 1e21, "E": 1e18, "P": 1e15, "T": 1e12, "G": 1e9, "M": 1e6, "k": 1e3, "h": 1e2, "da": 1e1,
          "d": 1e-1, "c": 1e-2, "m": 1e-3, "µ": 1e-6, "u": 1e-6, "μ": 1e-6, "n": 1e-9, "p": 1e-12, "f": 1e-15,
          "a": 1e-18, "z": 1e-21, "y": 1e-24}
PREFIX_WORD = {"yotta": 1e24, "zetta": 1e21, "exa": 1e18, "peta": 1e15, "tera": 1e12, "giga": 1e9, "mega": 1e6,
               "kilo": 1e3, "hecto": 1e2, "deca": 1e1, "deci": 1e-1, "centi": 1e-2, "mili": 1e-3, "milli": 1e-3,
               "micro": 1e-6, "nano": 1e-9, "pico": 1e-12, "femto": 1e-15, "atto": 1e-18, "zepto": 1e-21,
               "yocto": 1e-24}


def split_symbol(name):
    """independent resolver for table symbols with SI prefix symbols: name -> (factor, canonical symbol) or None.
    A table symbol wins over a prefix split; a prefix is accepted only on prefixable symbols."""
    if name in T:
        return 1.0, name
    for p in ("da",) + tuple(k for k in PREFIX if k != "da"):
        if name.startswith(p):
            rest = name[len(p):]
            if rest in T and T[rest].prefixable:
                if p != "da" and name.startswith("da") and name[2:] in T and T[name[2:]].prefixable:
                    continue
                return PREFIX[p], rest
    return None


def to_base(sym, reading, factor=1.0):
    """affine map reading -> base units.  Prefixed offset units keep their zero point (mdegC: K = 1e-3*v + 273.15)."""
    de = T[sym]
    if de.offset == 0.0:
        return reading * de.value * factor
    if sym in ("degC", "degF"):
        return de.value * factor * reading - de.value * de.offset
    return de.value * factor * (reading - de.offset)
