"""C05 history scenarios: live Unit objects that outlive registry edits.

A Unit object carries its own scale; a registry edit (`modify`, `add`, remove + re-`add`) changes what a *string* means but
not the objects built before.  So one registry object can hold several live units with the same expression and different
scales (built before / after an edit, or built with an explicit `base_value`, or copies of a stale unit).  Every algebra law
has to hold on each of them and on mixed tuples, whatever was evaluated first (anything memoised per expression, per registry
or per string would hand one twin the other's result).

This module is pure data + an independent model of the registry table (it never imports unyt):

  plan(rnd, k, tier) -> {"symbols": {sym: (dimspec, value, prefixable)}, "steps": [...], "mode": ..., "exponents": [...]}
     steps:  ("build", uid, factors, route, arg)   route: string | compose | expr (arg=source uid) | explicit (arg=multiplier)
                                                          | copy | deepcopy (arg=source uid)
             ("edit", op, sym, arg)                op: modify-float (arg=value) | modify-quantity (arg=(number, builtin unit))
                                                       | add (arg=(dimspec, value, prefixable)) | readd (arg=value)
                                                       | overwrite (arg=value) | remove | modify-same (arg=None)
             ("use", order, passes)                evaluate the laws on all live units (order: old-first | new-first |
                                                   law-major | law-major-reversed | shuffled)
  factors: list of (token, exponent-as-string); tokens are custom symbols (optionally SI-prefixed) or builtin names
  Model: table sym -> (value, dimvec, prefixable) replayed by the runner: Model.apply(edit), Model.scale(factors, builtin)
  spell(factors) -> unit string
"""
from fractions import Fraction as Fr
from vf.ref import dims, defs

BUILTIN = ("m", "s", "g", "cm", "km", "kg", "yr", "pc", "J", "N", "Msun")
PREFIXES = ("k", "M", "m", "c", "G", "u", "n", "da")
BASE_SYMS = {"cuL": "L", "cuM": "M", "cuT": "T", "cuV": "L T-1"}
LATE_SYMS = {"cuX": ("L", "M", "T", "M L-3", "L2 T-2"), "cuY": ("L", "T", "M L2 T-2")}
# factor templates; A, B, C distinct custom symbols; pA an SI-prefixed prefixable custom symbol
TEMPLATES = (
    (("A", 1),), (("pA", 1),), (("A", 1), ("s", -1)), (("A", 1), ("B", -3)), (("A", 1), ("B", 2), ("C", -2)),
    (("g", 1), ("A", 1)), (("m", 1),), (("km", 1), ("s", -1)), (("A", 2),), (("A", -1),), (("A", Fr(1, 2)),),
    (("pA", 1), ("B", -1)), (("A", 1), ("B", 1)), (("A", 3), ("B", -1), ("s", -2)), (("A", Fr(3, 2)), ("s", -1)),
    (("A", 1), ("cm", -1)), (("pA", 2), ("kg", 1), ("B", -2)), (("A", 1), ("pA", -1)),
)
DEFAULT_FACTORS = ((("m", 1),), (("km", 1), ("s", -1)), (("g", 1), ("cm", -3)), (("J", 1), ("kg", -1)), (("pc", 1),), (("N", 1), ("m", -2)),
                   (("Msun", 1), ("yr", -1)), (("s", -1),), (("kg", Fr(1, 2)), ("m", Fr(-1, 2))))
ORDERS = ("old-first", "new-first", "law-major", "law-major-reversed", "shuffled")
EXPONENTS = tuple(Fr(a, b) for b in (1, 2, 3, 4, 5, 6, 8, 12) for a in range(-3 * b, 3 * b + 1)
                  if a != 0 and Fr(a, b).denominator == b and abs(Fr(a, b)) <= 3)


def spell(factors):
    num, den = [], []
    for tok, e in factors:
        e = Fr(e)
        a = abs(e)
        s = tok if a == 1 else (f"{tok}**{a.numerator}" if a.denominator == 1 else f"{tok}**({a.numerator}/{a.denominator})")
        (num if e > 0 else den).append(s)
    out = "*".join(num) if num else "1"
    for d in den:
        out += "/" + d
    return out


def value(rnd):
    k = rnd.random()
    if k < 0.25:
        return rnd.choice([1.0, 2.5, 4096.0, 0.125, 3.0e19, 2.0e30, 3.0e13, 1.0e-5, 7.25])
    m = rnd.choice([1.0, 1.5, 2.0, 3.0857, 6.25, 9.5])
    return float(m * 10.0 ** rnd.randint(-6, 24))


class Model:
    """independent model of the registry table of custom symbols"""

    def __init__(self):
        self.t = {}
        self.gen = 0

    def add(self, sym, dimspec, val, prefixable):
        self.t[sym] = (float(val), dims.D(dimspec), bool(prefixable))

    def apply(self, op, sym, arg, builtin=None):
        self.gen += 1
        if op == "modify-float" or op == "readd" or op == "overwrite":
            v, d, p = self.t[sym]
            self.t[sym] = (float(arg), d, p)
        elif op == "modify-quantity":
            v, d, p = self.t[sym]
            sc, dd = builtin(arg[1])
            assert dd == d
            self.t[sym] = (float(arg[0]) * sc, d, p)
        elif op == "modify-same":
            pass
        elif op == "add":
            self.add(sym, *arg)
        elif op == "remove":
            del self.t[sym]
        else:
            raise ValueError(op)

    def token(self, tok, builtin):
        """-> (scale, dimvec) of one token under the current table, None if it cannot be resolved now"""
        if tok in self.t:
            return self.t[tok][0], self.t[tok][1]
        for p in PREFIXES:
            if tok.startswith(p) and tok[len(p):] in self.t and self.t[tok[len(p):]][2]:
                v, d, _ = self.t[tok[len(p):]]
                return v * defs.PREFIX[p], d
        if tok.startswith("cu") or tok[1:].startswith("cu") or tok[2:].startswith("cu"):
            return None
        return builtin(tok)

    def scale(self, factors, builtin):
        s, d = 1.0, dims.ZERO
        for tok, e in factors:
            r = self.token(tok, builtin)
            if r is None:
                return None
            e = Fr(e)
            s *= r[0] ** float(e) if e.denominator != 1 else r[0] ** int(e)
            d = dims.mul(d, dims.power(r[1], e))
        return s, d

    def mentions(self, factors, sym):
        return any(tok == sym or (tok.endswith(sym) and tok[:-len(sym)] in PREFIXES) for tok, _ in factors)


def _instantiate(rnd, tpl, customs, prefixable):
    pool = list(customs)
    rnd.shuffle(pool)
    m = dict(zip("ABC", pool))
    pa = rnd.choice(sorted(prefixable)) if prefixable else None
    pfx = rnd.choice(PREFIXES)
    out = []
    for tok, e in tpl:
        if tok == "pA":
            if pa is None:
                return None
            tok = pfx + pa
        elif tok in m:
            tok = m[tok]
        elif tok in "ABC":
            return None
        out.append((tok, str(Fr(e))))
    toks = [t for t, _ in out]
    if len(set(toks)) != len(toks):
        return None
    return out


def plan(rnd, k, tier):
    """one scenario; k selects the deterministic dimensions (order of first use, whether memos are warmed before the edits)"""
    epochs = rnd.randint(2, 3) if tier == "quick" else rnd.randint(2, 5)
    per_epoch = 3 if tier == "quick" else 4
    model = Model()
    symbols = {}
    for sym, spec in BASE_SYMS.items():
        symbols[sym] = (spec, value(rnd), sym in ("cuL", "cuM"))
        model.add(sym, *symbols[sym])
    steps = []
    order = ORDERS[k % len(ORDERS)]
    warm = (k // len(ORDERS)) % 2 == 1            # evaluate laws before the edits too (memos filled by the earlier state)
    exps = [Fr(2), Fr(-1), Fr(1, 2)] + rnd.sample(EXPONENTS, 3)
    uid = 0
    pool = []                                     # factor lists used so far: rebuilt after each edit -> twins
    live = []                                     # (uid, factors)
    removed = set()
    for ep in range(epochs):
        last = ep == epochs - 1
        customs = [s for s in model.t]
        prefixable = {s for s in model.t if model.t[s][2]}
        fresh = []
        for _ in range(per_epoch):
            f = None
            while f is None:
                f = _instantiate(rnd, rnd.choice(TEMPLATES), customs, prefixable)
            fresh.append(f)
        todo = [f for f in pool if all(model.token(t, lambda x: (1.0, dims.ZERO)) is not None for t, _ in f)]
        if not last and len(todo) > per_epoch:
            todo = rnd.sample(todo, per_epoch)
        for f in todo + fresh:
            route = rnd.choice(("string", "string", "compose", "expr")) if f in pool else rnd.choice(("string", "string", "compose"))
            src = None
            if route == "expr":
                cands = [u for u, g in live if g == f]
                if cands:
                    src = rnd.choice(cands)
                else:
                    route = "string"
            steps.append(("build", uid, f, route, src)); live.append((uid, f)); uid += 1
            if f not in pool:
                pool.append(f)
        if ep == 0:
            # the default registry cannot be edited, but it too can hold same-expression units of another scale (explicit base value)
            for f in rnd.sample(DEFAULT_FACTORS, 2):
                f = [(t, str(Fr(e))) for t, e in f]
                steps.append(("build", uid, f, "string-default", None)); live.append((uid, f)); uid += 1
                steps.append(("build", uid, f, "explicit-default", rnd.choice([2.0, 0.5, 1000.0, 7.25]))); live.append((uid, f)); uid += 1
        if ep > 0:
            # units whose scale nobody looked up: explicit base value, and copies of older units
            for _ in range(2):
                f = rnd.choice(pool)
                if all(model.token(t, lambda x: (1.0, dims.ZERO)) is not None for t, _ in f):
                    steps.append(("build", uid, f, "explicit", rnd.choice([2.0, 0.5, 1000.0, 7.25, 1.0e-9, 1.0]))); live.append((uid, f)); uid += 1
            for _ in range(2):
                su, f = rnd.choice(live)
                steps.append(("build", uid, f, rnd.choice(("copy", "deepcopy")), su)); live.append((uid, f)); uid += 1
        if last:
            steps.append(("use", order, 2))
            break
        if warm or rnd.random() < 0.3:
            steps.append(("use", rnd.choice(ORDERS), 1))
        # edits
        for _ in range(rnd.randint(1, 3)):
            r = rnd.random()
            cur = [s for s in model.t]
            late = [s for s in LATE_SYMS if s not in model.t]
            if r < 0.45:
                sym = rnd.choice(cur); v = value(rnd)
                while 0.5 < v / model.t[sym][0] < 2.0:
                    v = value(rnd)
                e = ("edit", "modify-float", sym, v)
            elif r < 0.55:
                sym = rnd.choice([s for s in cur if model.t[s][1] in (dims.D("L"), dims.D("M"), dims.D("T"))])
                d = model.t[sym][1]
                bu = {dims.D("L"): ("pc", "km", "cm"), dims.D("M"): ("Msun", "g"), dims.D("T"): ("yr", "s")}[d]
                e = ("edit", "modify-quantity", sym, (rnd.choice([3.0, 0.25, 1.0e4]), rnd.choice(bu)))
            elif r < 0.65 and late:
                sym = rnd.choice(late)
                e = ("edit", "add", sym, (rnd.choice(LATE_SYMS[sym]), value(rnd), rnd.random() < 0.5))
            elif r < 0.78:
                sym = rnd.choice(cur); v = value(rnd)
                while 0.5 < v / model.t[sym][0] < 2.0:
                    v = value(rnd)
                e = ("edit", "readd", sym, v)
            elif r < 0.88:
                sym = rnd.choice(cur); v = value(rnd)
                while 0.5 < v / model.t[sym][0] < 2.0:
                    v = value(rnd)
                e = ("edit", "overwrite", sym, v)
            elif r < 0.94:
                e = ("edit", "modify-same", rnd.choice(cur), None)
            else:
                gone = [s for s in cur if s in LATE_SYMS]
                if not gone:
                    continue
                e = ("edit", "remove", rnd.choice(gone), None)
            steps.append(e)
            if e[1] == "modify-quantity":
                # the generator does not know builtin scales; the value only has to be tracked by the runner's model
                model.gen += 1
                model.t[e[2]] = (model.t[e[2]][0] * 1.0e3 + 1.0, model.t[e[2]][1], model.t[e[2]][2])
            else:
                model.apply(e[1], e[2], e[3])
    return {"symbols": symbols, "steps": steps, "order": order, "warm": warm, "exponents": [str(p) for p in exps]}
