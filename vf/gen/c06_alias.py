"""Operand aliasing x special values: a workload dimension for C06 (needs only NumPy; never imports unyt).

The catalogue and the boundary family hand every operand position its own, independently drawn, finite data.  Code that
wraps a NumPy function can, however, decide by *how the operands are related to each other* (identity shortcuts such as
``if a is b``, overlap checks, caching by id) and by *special values in the data* (NaN is not equal to itself, +-inf, the sign of
zero), and the two interact: ``f(a, a)`` on data containing NaN is exactly where "an object is trivially equal to itself" is false.

This module turns a call with two compatible operand positions into the cross product

* RELATIONS - how the operand in the second position is related to the one in the first:
  "equal-twin"   a separately built object holding equal data (what a copy is; the control: no aliasing),
  "view"         ``a[...]``: another object on the same memory,
  "same-object"  the very same object in both positions (``f(a, a)``);
* SPECIALS - the class of the data both positions see:
  "finite" (the data as generated; the control), "nan" (one or two elements NaN), "all-nan", "inf" (+inf and -inf elements),
  "neg-zero" (0.0 and -0.0 elements), "mixed" (NaN, +inf, -0.0, -inf together).  Complex data get the special value in the real
  part, the imaginary part or both, in turn.  Integer data can only be "finite".

API
---
``inject(data, special, picks)`` -> fresh array (raises Skip where the class does not exist for the dtype/size);
``picks(rng, size)`` -> the element positions the injected values go to (drawn once per case, so that every special class of
one case touches the same elements and a control run can be repeated);
``related(q, relation)`` -> placeholder for the second position (the same Q, a QView of it, or a twin Q);
``boundary_call(bcase, data, relation)`` -> Call for a c06_boundary case with both positions fed from ``data``;
``pairs(call)`` -> [(qa, qb)] compatible unit-carrying operand pairs of a catalogue Call;
``aliased(call, qa, qb, data, relation)`` -> Call in which qa holds ``data`` and qb's position holds ``related(qa', relation)``.
"""
import numpy as np
from vf.gen.npcatalog import Q, QView, Call, Skip

CONTROL_RELATION = "equal-twin"
RELATIONS = ("equal-twin", "view", "same-object")
CONTROL_SPECIAL = "finite"
SPECIALS = ("finite", "nan", "all-nan", "inf", "neg-zero", "mixed")
COMBOS = tuple((r, s) for s in SPECIALS for r in RELATIONS)

_NAN, _INF = float("nan"), float("inf")
_REAL = {
    "nan": (_NAN,),
    "inf": (_INF, -_INF),
    "neg-zero": (-0.0, 0.0),
    "mixed": (_NAN, _INF, -0.0, -_INF),
}


def picks(rng, size):
    """a permutation of the flat element positions; the k-th injected value goes to position picks[k]"""
    p = list(range(size))
    rng.shuffle(p)
    return p


def _value(special, k, is_complex):
    vals = _REAL[special]
    v = vals[k % len(vals)]
    if not is_complex:
        return v
    part = (k // len(vals) + k) % 3          # real part, imaginary part, both - in turn
    other = 0.0 if special == "neg-zero" else 1.0
    return complex(v, other) if part == 0 else complex(other, v) if part == 1 else complex(v, v)


def inject(data, special, where):
    """a fresh array equal to data except that the elements at the first positions of `where` hold the special values"""
    data = np.asarray(data)
    out = data.copy()
    if special == "finite":
        return out
    if data.dtype.kind not in "fc":
        raise Skip("special values need a float or complex dtype")
    if data.size == 0:
        raise Skip("no element to hold a special value")
    is_c = data.dtype.kind == "c"
    if special == "all-nan":
        out[...] = complex(_NAN, _NAN) if is_c else _NAN
        return out
    n = data.size
    count = {"nan": 1 if n < 4 else 2, "inf": min(n, 2), "neg-zero": min(n, 2), "mixed": min(n, 4)}[special]
    if is_c:
        count = min(n, count + 1)
    flat = out.reshape(-1) if out.flags.c_contiguous else None
    for k in range(count):
        v = _value(special, k, is_c)
        if flat is not None:
            flat[where[k]] = v
        else:
            out[np.unravel_index(where[k], out.shape)] = v
    return out


def related(q, relation):
    """placeholder for the second operand position, given the placeholder of the first"""
    if relation == "same-object":
        return q
    if relation == "view":
        return QView(q, Ellipsis)
    if relation == "equal-twin":
        return Q(q.data.copy(), q.dim, role=q.role)
    raise ValueError(relation)


# ------------------------------------------------------------------------------------------------ boundary family
def boundary_call(bc, data, relation):
    """the call of a c06_boundary case with BOTH operand positions fed from `data` (operand kinds Q, Q; dimension slot of x)"""
    from vf.gen.c06_boundary import Dep
    e = bc.t.entry
    A = Q(data, e.dims[0])
    B = related(A, relation)
    kw = {}
    for k, v in bc.kwargs.items():
        if not k.startswith("_"):
            kw[k] = v.fn(data, data) if isinstance(v, Dep) else v
    args, kwargs = e.place(A, B, data, data, kw)
    return Call(args, kwargs)


# ------------------------------------------------------------------------------------------------ any catalogue form
def pairs(call):
    """[(qa, qb)]: two distinct unit-carrying, non-out placeholders of one dimension slot, shape and dtype, in traversal order"""
    lv = [q for _, q in call.leaves() if not q.bare and q.role != "out"]
    out = []
    for i, a in enumerate(lv):
        for b in lv[i + 1:]:
            if a.dim == b.dim and a.data.shape == b.data.shape and a.data.dtype == b.data.dtype:
                out.append((a, b))
    return out


def aliased(call, qa, qb, data, relation):
    """`call` with qa replaced by a placeholder holding `data` and qb replaced by that placeholder's relative"""
    na = Q(data, qa.dim, role=qa.role)
    nb = related(na, relation)
    mapping = {id(qa): na, id(qb): nb}

    def walk(o):
        if isinstance(o, Q):
            return mapping.get(id(o), o)
        if isinstance(o, QView):
            return QView(walk(o.q), o.index)
        if isinstance(o, list):
            return [walk(x) for x in o]
        if isinstance(o, tuple):
            return tuple(walk(x) for x in o)
        if isinstance(o, dict):
            return {k: walk(v) for k, v in o.items()}
        return o
    return Call([walk(a) for a in call.args], {k: walk(v) for k, v in call.kwargs.items()})
