"""Extra call templates for C07 (added to the shared catalogue only in a process that imports this module).

The shared catalogue has no form in which one *independent* operand is a plain array while the others carry units.  For
functions whose operands have independent dimensions that is a fair covariance question (the plain operand is a pure number
and stays as it is; only the unit-carrying operands are re-expressed): histogram coordinates, meshgrid axes.
Tag "independent-operands" tells c07_meta.classify to judge these forms although an operand is bare.
"""
import numpy as np
from vf.gen.npcatalog import X, Q

IND = {"mixed-result", "independent-operands"}


def _u(g, dim="A", n=12):
    g.real_only()
    return g.a(dim, shape=(n,), lo=0, hi=9)


def _plain(g, n=12):
    g.real_only()
    return Q(g.raw((n,), 0, 9), "1", bare=True)


for _dens in (True, False):
    _sfx = "+density" if _dens else ""
    X("numpy.histogramdd", "c07:plain-first" + _sfx, lambda g, d=_dens: ([[_plain(g), _u(g), _u(g, "B")]], {"density": d, "bins": 2}), tags=IND, shapes=("1d",),
      params={"sample", "density", "bins"})
    X("numpy.histogramdd", "c07:plain-middle" + _sfx, lambda g, d=_dens: ([[_u(g, "B"), _plain(g), _u(g)]], {"density": d, "bins": 2}), tags=IND, shapes=("1d",),
      params={"sample", "density", "bins"})
    X("numpy.histogramdd", "c07:plain-last" + _sfx, lambda g, d=_dens: ([[_u(g), _u(g), _plain(g)]], {"density": d, "bins": 2}), tags=IND, shapes=("1d",),
      params={"sample", "density", "bins"})
    X("numpy.histogram2d", "c07:plain-x" + _sfx, lambda g, d=_dens: ([_plain(g), _u(g)], {"density": d, "bins": 3}), tags=IND, shapes=("1d",), params={"x", "y", "density", "bins"})
    X("numpy.histogram2d", "c07:plain-y" + _sfx, lambda g, d=_dens: ([_u(g), _plain(g)], {"density": d, "bins": 3}), tags=IND, shapes=("1d",), params={"x", "y", "density", "bins"})
X("numpy.histogramdd", "c07:plain-first+density+weights", lambda g: ([[_plain(g), _u(g)]], {"density": True, "bins": 2, "weights": Q(g.raw((12,), 1, 4, "f8"), "B")}), tags=IND, shapes=("1d",),
  params={"sample", "density", "bins", "weights"})
X("numpy.meshgrid", "c07:plain-axis", lambda g: [_plain(g, 3), _u(g, "A", 4), _u(g, "B", 2)], tags={"mixed-result", "independent-operands"}, shapes=("1d",), params={"xi"})


# ---- fill values given as quantities in every spelling NumPy accepts (scalar, flat pair, per-axis nested tuples / lists):
# with the 'mixed' unit families of C07 the fill values are written in another unit than the data
SD = {"same-dimension"}


def _arr(g):
    if len(g.dims()) < 1:
        from vf.gen.npcatalog import Skip
        raise Skip("ndim<1")
    return g.a()


def _fv(g):
    return g.q(np.asarray(g.raw((), 1, 9), g.dtype))


X("numpy.pad", "c07:constant_values#qpair", lambda g: ([_arr(g), (1, 2)], {"constant_values": (_fv(g), _fv(g))}), tags=SD, shapes=("1d", "2d", "3d"),
  params={"constant_values"})
X("numpy.pad", "c07:constant_values#qnested-tuple", lambda g: (lambda a: ([a, 1], {"constant_values": tuple((_fv(g), _fv(g)) for _ in range(a.data.ndim))}))(_arr(g)),
  tags=SD, shapes=("1d", "2d", "3d"), params={"constant_values"})
X("numpy.pad", "c07:constant_values#qnested-list", lambda g: (lambda a: ([a, (2, 1)], {"mode": "constant", "constant_values": [[_fv(g), _fv(g)] for _ in range(a.data.ndim)]}))(_arr(g)),
  tags=SD, shapes=("1d", "2d"), params={"constant_values", "mode"})
X("numpy.pad", "c07:constant_values#qnested-half", lambda g: (lambda a: ([a, 1], {"constant_values": tuple((_fv(g), 0) for _ in range(a.data.ndim))}))(_arr(g)),
  tags=SD, shapes=("1d", "2d"), params={"constant_values"})
X("numpy.pad", "c07:end_values#q", lambda g: (g.real_only() or ([_arr(g), 2], {"mode": "linear_ramp", "end_values": _fv(g)})), tags=SD, shapes=("1d", "2d"),
  params={"end_values", "mode"})
X("numpy.pad", "c07:end_values#qpair", lambda g: (g.real_only() or ([_arr(g), 2], {"mode": "linear_ramp", "end_values": (_fv(g), _fv(g))})), tags=SD, shapes=("1d", "2d"),
  params={"end_values", "mode"})
X("numpy.pad", "c07:end_values#qnested", lambda g: (g.real_only() or (lambda a: ([a, 2], {"mode": "linear_ramp", "end_values": tuple((_fv(g), _fv(g)) for _ in range(a.data.ndim))}))(_arr(g))),
  tags=SD, shapes=("1d", "2d"), params={"end_values", "mode"})
X("numpy.diff", "c07:prepend#qscalar", lambda g: ([g.a(shape=(6,))], {"prepend": _fv(g)}), tags=SD, shapes=("1d",), params={"prepend"})
X("numpy.diff", "c07:append#qlist", lambda g: ([g.a(shape=(6,))], {"append": [_fv(g), _fv(g)]}), tags=SD, shapes=("1d",), params={"append"})
X("numpy.ediff1d", "c07:to_begin#q+to_end#qlist", lambda g: ([g.a(shape=(6,))], {"to_begin": _fv(g), "to_end": [_fv(g), _fv(g)]}), tags=SD, shapes=("1d",),
  params={"to_begin", "to_end"})
X("numpy.interp", "c07:left#q+right#q", lambda g: (g.real_only() or ([g.q(np.array([-1.0, 2.5, 9.0]), "B"), g.q(np.array([0.0, 1.0, 4.0, 8.0]), "B"), g.a(shape=(4,))],
                                                                       {"left": _fv(g), "right": _fv(g)})), tags=SD, shapes=("1d",), dtypes=("f8", "f4"), params={"left", "right"})
