"""Extra call templates for C07 (added to the shared catalogue only in a process that imports this module).

The shared catalogue has no form in which one *independent* operand is a plain array while the others carry units.  For
functions whose operands have independent dimensions that is a fair covariance question (the plain operand is a pure number
and stays as it is; only the unit-carrying operands are re-expressed): histogram coordinates, meshgrid axes.
Tag "independent-operands" tells c07_meta.classify to judge these forms although an operand is bare.
"""
import numpy as np
from vf.gen.npcatalog import X, Q

IND = {"mixed-result", "independent-operands"}


def _u(g, dim="A", n=12):
    g.real_only()
    return g.a(dim, shape=(n,), lo=0, hi=9)


def _plain(g, n=12):
    g.real_only()
    return Q(g.raw((n,), 0, 9), "1", bare=True)


for _dens in (True, False):
    _sfx = "+density" if _dens else ""
    X("numpy.histogramdd", "c07:plain-first" + _sfx, lambda g, d=_dens: ([[_plain(g), _u(g), _u(g, "B")]], {"density": d, "bins": 2}), tags=IND, shapes=("1d",),
      params={"sample", "density", "bins"})
    X("numpy.histogramdd", "c07:plain-middle" + _sfx, lambda g, d=_dens: ([[_u(g, "B"), _plain(g), _u(g)]], {"density": d, "bins": 2}), tags=IND, shapes=("1d",),
      params={"sample", "density", "bins"})
    X("numpy.histogramdd", "c07:plain-last" + _sfx, lambda g, d=_dens: ([[_u(g), _u(g), _plain(g)]], {"density": d, "bins": 2}), tags=IND, shapes=("1d",),
      params={"sample", "density", "bins"})
    X("numpy.histogram2d", "c07:plain-x" + _sfx, lambda g, d=_dens: ([_plain(g), _u(g)], {"density": d, "bins": 3}), tags=IND, shapes=("1d",), params={"x", "y", "density", "bins"})
    X("numpy.histogram2d", "c07:plain-y" + _sfx, lambda g, d=_dens: ([_u(g), _plain(g)], {"density": d, "bins": 3}), tags=IND, shapes=("1d",), params={"x", "y", "density", "bins"})
X("numpy.histogramdd", "c07:plain-first+density+weights", lambda g: ([[_plain(g), _u(g)]], {"density": True, "bins": 2, "weights": Q(g.raw((12,), 1, 4, "f8"), "B")}), tags=IND, shapes=("1d",),
  params={"sample", "density", "bins", "weights"})
X("numpy.meshgrid", "c07:plain-axis", lambda g: [_plain(g, 3), _u(g, "A", 4), _u(g, "B", 2)], tags={"mixed-result", "independent-operands"}, shapes=("1d",), params={"xi"})


# ---- fill values given as quantities in every spelling NumPy accepts (scalar, flat pair, per-axis nested tuples / lists):
# with the 'mixed' unit families of C07 the fill values are written in another unit than the data
SD = {"same-dimension"}


def _arr(g):
    if len(g.dims()) < 1:
        from vf.gen.npcatalog import Skip
        raise Skip("ndim<1")
    return g.a()


def _fv(g):
    return g.q(np.asarray(g.raw((), 1, 9), g.dtype))


X("numpy.pad", "c07:constant_values#qpair", lambda g: ([_arr(g), (1, 2)], {"constant_values": (_fv(g), _fv(g))}), tags=SD, shapes=("1d", "2d", "3d"),
  params={"constant_values"})
X("numpy.pad", "c07:constant_values#qnested-tuple", lambda g: (lambda a: ([a, 1], {"constant_values": tuple((_fv(g), _fv(g)) for _ in range(a.data.ndim))}))(_arr(g)),
  tags=SD, shapes=("1d", "2d", "3d"), params={"constant_values"})
X("numpy.pad", "c07:constant_values#qnested-list", lambda g: (lambda a: ([a, (2, 1)], {"mode": "constant", "constant_values": [[_fv(g), _fv(g)] for _ in range(a.data.ndim)]}))(_arr(g)),
  tags=SD, shapes=("1d", "2d"), params={"constant_values", "mode"})
X("numpy.pad", "c07:constant_values#qnested-half", lambda g: (lambda a: ([a, 1], {"constant_values": tuple((_fv(g), 0) for _ in range(a.data.ndim))}))(_arr(g)),
  tags=SD, shapes=("1d", "2d"), params={"constant_values"})
X("numpy.pad", "c07:end_values#q", lambda g: (g.real_only() or ([_arr(g), 2], {"mode": "linear_ramp", "end_values": _fv(g)})), tags=SD, shapes=("1d", "2d"),
  params={"end_values", "mode"})
X("numpy.pad", "c07:end_values#qpair", lambda g: (g.real_only() or ([_arr(g), 2], {"mode": "linear_ramp", "end_values": (_fv(g), _fv(g))})), tags=SD, shapes=("1d", "2d"),
  params={"end_values", "mode"})
X("numpy.pad", "c07:end_values#qnested", lambda g: (g.real_only() or (lambda a: ([a, 2], {"mode": "linear_ramp", "end_values": tuple((_fv(g), _fv(g)) for _ in range(a.data.ndim))}))(_arr(g))),
  tags=SD, shapes=("1d", "2d"), params={"end_values", "mode"})
X("numpy.diff", "c07:prepend#qscalar", lambda g: ([g.a(shape=(6,))], {"prepend": _fv(g)}), tags=SD, shapes=("1d",), params={"prepend"})
X("numpy.diff", "c07:append#qlist", lambda g: ([g.a(shape=(6,))], {"append": [_fv(g), _fv(g)]}), tags=SD, shapes=("1d",), params={"append"})
X("numpy.ediff1d", "c07:to_begin#q+to_end#qlist", lambda g: ([g.a(shape=(6,))], {"to_begin": _fv(g), "to_end": [_fv(g), _fv(g)]}), tags=SD, shapes=("1d",),
  params={"to_begin", "to_end"})
X("numpy.interp", "c07:left#q+right#q", lambda g: (g.real_only() or ([g.q(np.array([-1.0, 2.5, 9.0]), "B"), g.q(np.array([0.0, 1.0, 4.0, 8.0]), "B"), g.a(shape=(4,))],
                                                                       {"left": _fv(g), "right": _fv(g)})), tags=SD, shapes=("1d",), dtypes=("f8", "f4"), params={"left", "right"})


# ---- binary ufuncs whose two operands share one dimension (the shared catalogue holds array functions, methods and operators,
# not the ufuncs themselves): unit-preserving (add ... remainder), comparisons, arctan2, plus multiply/divide as controls whose
# operands are independent.  Forms: plain call, out= buffer, .outer, one 0-d operand, .at (in place); and *compositions* of a
# reduction of each operand with a binary step (np.sum(x) + np.max(y) ...), kind "op", function name "c07.reduce-then-combine".
# With C07's 'mixed' and 'stale' unit families the second operand is written in another unit / in a stale snapshot of the unit.
from vf.gen.npcatalog import Skip as _Skip

IDX = {"index-like"}
PR = {"product"}
_PRESERVING = ("add", "subtract", "maximum", "minimum", "fmax", "fmin", "hypot", "fmod", "remainder")
_COMPARE = ("less", "less_equal", "greater", "greater_equal", "equal", "not_equal")
_USHAPES = ("1d", "2d", "0d", "e1")


def _pair(g, uf, second_shape=None):
    if uf in ("hypot", "fmod", "remainder", "arctan2"):
        g.real_only()
    a = g.a()
    lo = 1 if uf in ("fmod", "remainder") else (0 if uf in _COMPARE else -9)
    hi = 3 if uf in _COMPARE else 9
    if uf in _COMPARE:
        a = g.a(lo=0, hi=3)
    b = Q(g.raw(a.data.shape if second_shape is None else second_shape, lo, hi, a.data.dtype), "A")
    return a, b


def _outbuf(uf, a, b):
    with np.errstate(all="ignore"):
        try:
            r = np.asarray(getattr(np, uf)(a.data, b.data))
        except Exception:
            raise _Skip("bare call raises")
    return Q(np.zeros(r.shape, r.dtype), "A", role="out")


for _uf in _PRESERVING + _COMPARE + ("arctan2",):
    _tags = SD if _uf in _PRESERVING else (IDX if _uf in _COMPARE else set())
    _f = getattr(np, _uf)
    X("numpy." + _uf, "base", lambda g, u=_uf: list(_pair(g, u)), tags=_tags, shapes=_USHAPES, params={"x1", "x2"})
    X("numpy." + _uf, "c07:scalar-second", lambda g, u=_uf: list(_pair(g, u, ())), tags=_tags, shapes=("1d", "2d"), params={"x1", "x2"})
    X("numpy." + _uf, "c07:scalar-first", lambda g, u=_uf: list(_pair(g, u, ()))[::-1], tags=_tags, shapes=("1d", "2d"), params={"x1", "x2"})
    X("numpy." + _uf, "c07:outer", lambda g, u=_uf: (g.need("1d") or list(_pair(g, u, (3,)))), tags=_tags, shapes=("1d",), params={"x1", "x2", "outer"},
      invoke=lambda a, k, f=_f: f.outer(*a, **k))
    if _uf in _PRESERVING:
        X("numpy." + _uf, "out", lambda g, u=_uf: (lambda a, b: ([a, b], {"out": _outbuf(u, a, b)}))(*_pair(g, u)), tags=_tags | {"out"}, shapes=("1d", "2d"),
          params={"x1", "x2", "out"})
    if _uf in ("add", "subtract", "maximum", "minimum"):
        X("numpy." + _uf, "c07:at", lambda g, u=_uf: (g.need("1d") or (lambda a, b: [a, np.array([0, 2, 2]), b])(*_pair(g, u, (3,)))), tags=_tags | {"mutator"},
          shapes=("1d",), params={"x1", "x2", "at"}, invoke=lambda a, k, f=_f: f.at(*a, **k))
for _uf in ("multiply", "divide"):
    X("numpy." + _uf, "base", lambda g: [g.a(), g.a("B", lo=1, hi=5)], tags=PR, shapes=_USHAPES, params={"x1", "x2"})
    X("numpy." + _uf, "c07:same-slot", lambda g: [g.a(), g.a(lo=1, hi=5)], tags=PR, shapes=_USHAPES, params={"x1", "x2"})


# multiply/divide in every call form (out= buffer, .outer, one 0-d operand, in-place operators with a quantity on the right), each
# with the operands in independent slots (A, B) and in one slot (A, A).  With C07's 'partial' families (A and B commensurable) and
# compound 'mixed' families (one slot in two sizes of a fractional-power / alias unit) the two units cancel only partly.
import operator as _operator


def _md(g, slot2, second_shape=None, float_first=False):
    a = g.a(dtype="f8" if float_first and g.dtype.kind in "iu" else None)
    return a, Q(g.raw(a.data.shape if second_shape is None else second_shape, 1, 5, a.data.dtype), slot2)


for _uf in ("multiply", "divide"):
    _f = getattr(np, _uf)
    for _s2, _sfx in (("B", ""), ("A", "+same-slot")):
        X("numpy." + _uf, "out" + _sfx, lambda g, u=_uf, s2=_s2: (lambda a, b: ([a, b], {"out": _outbuf(u, a, b)}))(*_md(g, s2)), tags=PR | {"out"}, shapes=("1d", "2d"),
          params={"x1", "x2", "out"})
        X("numpy." + _uf, "c07:outer" + _sfx, lambda g, s2=_s2: (g.need("1d") or list(_md(g, s2, (3,)))), tags=PR, shapes=("1d",), params={"x1", "x2", "outer"},
          invoke=lambda a, k, f=_f: f.outer(*a, **k))
        X("numpy." + _uf, "c07:scalar-second" + _sfx, lambda g, s2=_s2: list(_md(g, s2, ())), tags=PR, shapes=("1d", "2d"), params={"x1", "x2"})
        X("numpy." + _uf, "c07:scalar-first" + _sfx, lambda g, s2=_s2: (lambda a, b: [Q(b.data, "A"), Q(a.data, s2)])(*_md(g, s2, ())), tags=PR, shapes=("1d", "2d"), params={"x1", "x2"})
for _n, _fn in (("__imul__", _operator.imul), ("__itruediv__", _operator.itruediv)):
    for _s2, _sfx in (("B", ""), ("A", "+same-slot")):
        X("ndarray." + _n, "c07:quantity" + _sfx, lambda g, s2=_s2, n=_n: list(_md(g, s2, float_first=(n == "__itruediv__"))), kind="op", tags={"mutator", "product"}, shapes=_USHAPES,
          invoke=lambda a, k, f=_fn: f(*a))
        X("ndarray." + _n, "c07:quantity-0d" + _sfx, lambda g, s2=_s2, n=_n: list(_md(g, s2, (), float_first=(n == "__itruediv__"))), kind="op", tags={"mutator", "product"}, shapes=("1d", "2d"),
          invoke=lambda a, k, f=_fn: f(*a))
for _n, _fn in (("__mul__", _operator.mul), ("__truediv__", _operator.truediv)):
    X("ndarray." + _n, "c07:same-slot", lambda g: list(_md(g, "A")), kind="op", tags=PR, shapes=_USHAPES, invoke=lambda a, k, f=_fn: f(*a))


def _two(g, lo=-9):
    g.real_only()
    if len(g.dims()) < 1 or 0 in g.dims():
        raise _Skip("needs elements")
    return [g.a(), g.a(lo=lo)]


_COMPOSE = {
    "sum+max": lambda x, y: np.sum(x) + np.max(y),
    "min-mean": lambda x, y: np.min(x) - np.mean(y),
    "mean<y": lambda x, y: np.mean(x) < y,
    "x-median": lambda x, y: x - np.median(y),
    "maximum(cumsum,y)": lambda x, y: np.maximum(np.cumsum(x, axis=-1), y),
    "hypot(ptp,std)": lambda x, y: np.hypot(np.ptp(x), np.std(y)),
    "x.sum()+y.max()": lambda x, y: x.sum() + y.max(),
    "sort(x)>=y.mean()": lambda x, y: np.sort(x, axis=-1) >= y.mean(),
    "sum(x)==sum(y)": lambda x, y: np.sum(x) == np.sum(y),
    "sum*max": lambda x, y: np.sum(x) * np.max(y),
}
for _n, _fn in _COMPOSE.items():
    _t = IDX if any(c in _n for c in "<>=") else (PR if "*" in _n else SD)
    X("c07.reduce-then-combine", _n, _two, kind="op", tags=_t, shapes=("1d", "2d"), invoke=lambda a, k, f=_fn: f(*a))


# combine-then-reduce: functions built on a product / quotient of two quantities (np.mean(a/b) ...), operands in independent slots
# and in one slot
def _two_pos(g, slot2):
    g.real_only()
    if len(g.dims()) < 1 or 0 in g.dims():
        raise _Skip("needs elements")
    return [g.a(), g.a(slot2, lo=1, hi=5)]


_COMBINE = {
    "mean(x/y)": lambda x, y: np.mean(x / y),
    "sum(x/y)": lambda x, y: np.sum(x / y),
    "(x/y).max()": lambda x, y: (x / y).max(),
    "cumsum(x/y)": lambda x, y: np.cumsum(x / y, axis=-1),
    "mean(x*y)": lambda x, y: np.mean(x * y),
    "sum(x)/sum(y)": lambda x, y: np.sum(x) / np.sum(y),
    "x/y.mean()": lambda x, y: x / y.mean(),
    "sqrt(x/y)": lambda x, y: np.sqrt(np.abs(x) / y),
    "std(x)/mean(y)": lambda x, y: np.std(x) / np.mean(y),
}
for _n, _fn in _COMBINE.items():
    for _s2, _sfx in (("B", ""), ("A", "+same-slot")):
        X("c07.combine-then-reduce", _n + _sfx, lambda g, s2=_s2: _two_pos(g, s2), kind="op", tags=PR, shapes=("1d", "2d"), invoke=lambda a, k, f=_fn: f(*a))
