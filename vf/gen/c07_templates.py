"""Extra call templates for C07 (added to the shared catalogue only in a process that imports this module).

The shared catalogue has no form in which one *independent* operand is a plain array while the others carry units.  For
functions whose operands have independent dimensions that is a fair covariance question (the plain operand is a pure number
and stays as it is; only the unit-carrying operands are re-expressed): histogram coordinates, meshgrid axes.
Tag "independent-operands" tells c07_meta.classify to judge these forms although an operand is bare.
"""
import numpy as np
from vf.gen.npcatalog import X, Q

IND = {"mixed-result", "independent-operands"}


def _u(g, dim="A", n=12):
    g.real_only()
    return g.a(dim, shape=(n,), lo=0, hi=9)


def _plain(g, n=12):
    g.real_only()
    return Q(g.raw((n,), 0, 9), "1", bare=True)


for _dens in (True, False):
    _sfx = "+density" if _dens else ""
    X("numpy.histogramdd", "c07:plain-first" + _sfx, lambda g, d=_dens: ([[_plain(g), _u(g), _u(g, "B")]], {"density": d, "bins": 2}), tags=IND, shapes=("1d",),
      params={"sample", "density", "bins"})
    X("numpy.histogramdd", "c07:plain-middle" + _sfx, lambda g, d=_dens: ([[_u(g, "B"), _plain(g), _u(g)]], {"density": d, "bins": 2}), tags=IND, shapes=("1d",),
      params={"sample", "density", "bins"})
    X("numpy.histogramdd", "c07:plain-last" + _sfx, lambda g, d=_dens: ([[_u(g), _u(g), _plain(g)]], {"density": d, "bins": 2}), tags=IND, shapes=("1d",),
      params={"sample", "density", "bins"})
    X("numpy.histogram2d", "c07:plain-x" + _sfx, lambda g, d=_dens: ([_plain(g), _u(g)], {"density": d, "bins": 3}), tags=IND, shapes=("1d",), params={"x", "y", "density", "bins"})
    X("numpy.histogram2d", "c07:plain-y" + _sfx, lambda g, d=_dens: ([_u(g), _plain(g)], {"density": d, "bins": 3}), tags=IND, shapes=("1d",), params={"x", "y", "density", "bins"})
X("numpy.histogramdd", "c07:plain-first+density+weights", lambda g: ([[_plain(g), _u(g)]], {"density": True, "bins": 2, "weights": Q(g.raw((12,), 1, 4, "f8"), "B")}), tags=IND, shapes=("1d",),
  params={"sample", "density", "bins", "weights"})
X("numpy.meshgrid", "c07:plain-axis", lambda g: [_plain(g, 3), _u(g, "A", 4), _u(g, "B", 2)], tags={"mixed-result", "independent-operands"}, shapes=("1d",), params={"xi"})
