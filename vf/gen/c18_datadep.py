"""Data-dependent faults for C18: the *numbers* an in-place target (and the other operands of the call) hold.

The other workload groups of C18 inject faults through the arguments of a call (wrong dimension, unknown unit, bad equivalence,
read-only target ...): such a call is refused before the first number is touched, or not at all.  A call can also fail because of
the DATA - a magnitude outside the domain of the formula (|v| > c for the Lorentz factor, a Lorentz factor below 1, a negative
absolute temperature under a square root, a flux below zero under a fourth root, zero under a reciprocal), an IEEE special value
(NaN, +-inf, -0.0), a magnitude next to the overflow / underflow threshold of the storage type, a value an integer buffer cannot
hold - and then it fails *after* its first in-place steps.  Whether such a failure is raised at all depends on the library (an
explicit domain check) and on the caller's floating-point error policy (np.errstate(... "raise"), RuntimeWarning turned into an
error): under the strict policy NumPy raises FloatingPointError where it would have produced NaN / inf.

This module is plain data and generators (nothing here calls a function C18 judges):

  data class   what the special elements of an operand are: relative to a *domain edge* e of the formula the call evaluates
               (far below / just below / at / just above / far above e, and the mirror image of "far above"), or absolute
               (zero, -0.0, negative, mixed sign, smallest normal, near the largest finite value, the largest finite value, +inf,
               -inf, NaN), next to the ordinary control class
  placement    which elements are special: all, the first, the last, one in the middle (the others are ordinary numbers)
  edges        the domain boundaries of an item, as readings in the unit of the operand: for an equivalence they follow from
               the physics (speed of light for velocities, 1 for Lorentz factors, absolute zero for temperature readings, 0 for
               everything under a root or a reciprocal), written here independently of unyt with the scales of vf.ref.defs
  policy       the caller's floating-point error policy: "default" (NumPy warns; the workers ignore warnings) or "strict"
               (np.errstate(all="raise") and RuntimeWarning raised as an error)
"""
import contextlib
import warnings

import numpy as np

C_SI = 299792458.0            # m/s, exact

EDGE_CLASSES = ["far-below-edge", "just-below-edge", "at-edge", "just-above-edge", "far-above-edge", "mirror-far-above-edge"]
ABS_CLASSES = ["zero", "neg-zero", "negative", "mixed-sign", "tiny", "huge", "max", "inf", "neg-inf", "nan"]
DCLASSES = ["ordinary"] + EDGE_CLASSES + ABS_CLASSES
PLACEMENTS = ["all", "first", "last", "one"]
POLICIES = ["default", "strict"]
DTYPES = {"quick": ["f8", "f8", "f4", "i8", "i4"], "thorough": ["f8", "f4", "f2", ">f8", "c16", "i8", "i4", "i2", "u4"]}
LAYOUTS = {"quick": ["own", "step", "col", "scalar", "elem"], "thorough": ["own", "step", "rev", "T", "col", "scalar", "elem", "size1", "2d"]}

# in-place call families (the property's list: convert_to_*, augmented assignment, out=, item assignment) - each one is driven with
# every data class
FAMILIES = ("convert", "convert-equivalence", "augmented-assignment", "ufunc-out", "ufunc-at", "ufunc-method-out", "function-out", "item-assignment",
            "method-in-place")
# families also driven under the strict floating-point policy (the others have no NumPy-alone replay to compare with)
STRICT_FAMILIES = ("convert", "convert-equivalence", "augmented-assignment", "ufunc-out", "ufunc-method-out", "function-out", "item-assignment")

# ---------------------------------------------------------------------------------------------- equivalences
# equivalence -> (keyword sets, [(unit A, unit B)] converted in both directions).  Several spellings / scales of each side, so that
# the edge is not always the same number.
EQUIVS = {
    "thermal": ([{}], [("K", "keV"), ("MK", "erg"), ("degC", "eV"), ("R", "J")]),
    "mass_energy": ([{}], [("g", "J"), ("kg", "erg"), ("me", "MeV")]),
    "spectral": ([{}], [("angstrom", "keV"), ("Hz", "eV"), ("km", "MHz"), ("1/cm", "eV"), ("nm", "1/m"), ("GHz", "1/cm")]),
    "sound_speed": ([{}, {"mu": 1.2}, {"gamma": 1.4}], [("K", "km/s"), ("cm/s", "keV"), ("degC", "m/s"), ("keV", "km/s")]),
    "lorentz": ([{}], [("km/s", "dimensionless"), ("m/s", "dimensionless"), ("c", "dimensionless"), ("cm/s", "dimensionless"), ("mile/hr", "dimensionless")]),
    "schwarzschild": ([{}], [("Msun", "km"), ("kg", "m"), ("g", "au")]),
    "compton": ([{}], [("me", "angstrom"), ("g", "fm"), ("kg", "m")]),
    "effective_temperature": ([{}], [("K", "W/m**2"), ("degC", "erg/s/cm**2"), ("R", "W/m**2")]),
    "number_density": ([{}, {"mu": 1.4}], [("g/cm**3", "cm**-3"), ("kg/m**3", "m**-3")]),
}
# readings of absolute zero on the offset scales, scales of the velocity spellings (independent of unyt; cross-checked by selfcheck())
ABS_ZERO = {"degC": -273.15, "degF": -459.67}
VELOCITY_SI = {"km/s": 1e3, "m/s": 1.0, "cm/s": 1e-2, "c": C_SI, "mile/hr": 0.44704}


def equiv_edges(eq, src):
    """domain boundaries of the formula, as readings in the unit of the source operand"""
    e = [0.0]
    if eq == "lorentz":
        e = [C_SI / VELOCITY_SI[src]] if src in VELOCITY_SI else [1.0]
    if src in ABS_ZERO:
        e = [ABS_ZERO[src]] + e
    return e


def conv_edges(src):
    return ([ABS_ZERO[src]] if src in ABS_ZERO else []) + [0.0]


UFUNC_EDGES = [0.0, 1.0, -1.0]


def selfcheck():
    """the velocity scales and absolute-zero readings above agree with the independent definition table"""
    from vf.ref import defs, names, uexpr
    res = names.resolver()
    for u, v in VELOCITY_SI.items():
        s, d = uexpr.evaluate(u, res)
        if abs(s - v) > 1e-9 * v:
            raise AssertionError(f"c18_datadep: scale of {u!r} is {s} in vf.ref, {v} here")
    for u, z in ABS_ZERO.items():
        if abs(defs.to_base(u, z)) > 1e-9:
            raise AssertionError(f"c18_datadep: {z} {u} is not absolute zero in vf.ref ({defs.to_base(u, z)} K)")
    for eq, (kws, pairs) in EQUIVS.items():
        for a, b in pairs:
            for u in (a, b):
                if u != "dimensionless":
                    uexpr.evaluate(u, res)


# ---------------------------------------------------------------------------------------------- values
def available(dclass, dt):
    """can the class be written in this storage type?"""
    d = np.dtype(dt)
    if d.kind in "iu":
        if dclass in ("inf", "neg-inf", "nan", "neg-zero", "tiny"):
            return False
        if d.kind == "u" and dclass in ("negative", "mixed-sign", "mirror-far-above-edge"):
            return False
    return True


def special(r, dt, dclass, edges):
    """one special value of the class, as a Python float / int (before the cast to dt)"""
    d = np.dtype(dt)
    fl = d.kind in "fc"
    fi = np.finfo(d) if fl else None
    if dclass == "ordinary":
        return r.uniform(0.5, 90.0)
    if dclass in EDGE_CLASSES:
        e = r.choice(edges)
        unit = max(abs(e), 1.0)
        near = unit * 2.0 ** -18 if (fl and fi.eps < 1e-4) else unit * 2.0 ** -8    # representable next to e in a float32, resp. float16
        if not fl:
            near = max(1.0, near)
        far = unit * r.choice([r.uniform(0.05, 0.9), r.uniform(1.05, 50.0)])
        v = {"far-below-edge": e - far, "just-below-edge": e - near, "at-edge": e, "just-above-edge": e + near, "far-above-edge": e + far,
             "mirror-far-above-edge": -(e + far)}[dclass]
        return v
    if dclass == "zero":
        return 0.0
    if dclass == "neg-zero":
        return -0.0
    if dclass == "negative":
        return -r.uniform(0.5, 90.0)
    if dclass == "mixed-sign":
        return r.choice([-1, 1]) * r.uniform(0.5, 90.0)
    if dclass == "tiny":
        return float(fi.smallest_normal) * r.choice([1.0, 4.0])
    if dclass == "huge":
        return float(fi.max) / r.choice([8.0, 1024.0]) if fl else int(np.iinfo(d).max // r.choice([4, 1024]))
    if dclass == "max":
        return float(fi.max) if fl else int(np.iinfo(d).max)
    if dclass == "inf":
        return float("inf")
    if dclass == "neg-inf":
        return float("-inf")
    if dclass == "nan":
        return float("nan")
    raise KeyError(dclass)


def _cast(vals, dt):
    d = np.dtype(dt)
    if d.kind in "iu":
        ii = np.iinfo(d)
        out = []
        for v in vals:
            v = int(round(v)) if v == v and abs(v) != float("inf") else 0
            out.append(min(max(v, int(ii.min)), int(ii.max)))
        return np.array(out, dtype=d)
    with np.errstate(all="ignore"), warnings.catch_warnings():
        warnings.simplefilter("ignore")
        if d.kind == "c":
            return np.array([complex(v, 0.0) for v in vals]).astype(d)
        return np.array(vals, dtype="f8").astype(d)


def positions(r, n, placement):
    if placement == "all" or n == 1:
        return list(range(n))
    if placement == "first":
        return [0]
    if placement == "last":
        return [n - 1]
    return [r.randrange(1, n - 1) if n > 2 else r.randrange(n)]


def values(r, n, dt, dclass, placement, edges, mixed=True):
    """n numbers of storage type dt: ordinary positive numbers with the special elements of the class at the placed positions"""
    vals = [r.uniform(0.5, 90.0) for _ in range(n)]
    for i in positions(r, n, placement):
        vals[i] = special(r, dt, dclass, edges)
    if dclass == "mixed-sign" and n > 1:
        vals[r.randrange(n)] = -abs(vals[0]) if vals[0] > 0 else abs(vals[0])
    return _cast(vals, dt)


def draw_class(r, dt, pool=DCLASSES):
    for _ in range(20):
        c = r.choice(pool)
        if available(c, dt):
            return c
    return "ordinary"


# ---------------------------------------------------------------------------------------------- operands
def operand(unyt, vals_of, unit, dt, kind):
    """operand of the given layout whose elements are vals_of(n) -> (operand, holder keeping its buffer alive).  Elements of the viewed
    buffer outside the operand's extent are ordinary numbers."""
    ua = unyt.unyt_array

    def bg(n):
        return np.arange(1, n + 1).astype(dt)
    if kind == "own":
        a = ua(vals_of(4), unit); return a, a
    if kind == "step":
        base = bg(9); base[1::2] = vals_of(4); b = ua(base, unit); return b[1::2], b
    if kind == "rev":
        b = ua(vals_of(4), unit); return b[::-1], b
    if kind == "T":
        b = ua(vals_of(4).reshape(2, 2), unit); return b.T, b
    if kind == "2d":
        b = ua(vals_of(4).reshape(2, 2), unit); return b, b
    if kind == "col":
        base = bg(12).reshape(4, 3); base[:, 1] = vals_of(4); b = ua(base, unit); return b[:, 1], b
    if kind == "scalar":
        q = unyt.unyt_quantity(vals_of(1)[0], unit); return q, q
    if kind == "elem":
        base = bg(5); base[2] = vals_of(1)[0]; b = ua(base, unit); return b[2, ...], b
    if kind == "size1":
        a = ua(vals_of(1), unit); return a, a
    raise KeyError(kind)


@contextlib.contextmanager
def policy(name):
    """the caller's floating-point error policy around one call"""
    if name == "strict":
        with np.errstate(all="raise"), warnings.catch_warnings():
            warnings.simplefilter("error", RuntimeWarning)
            yield
    else:
        yield
