"""npcatalog entries: ndarray methods, attributes, operators and builtin protocols."""
import io
import operator
import pickle
import numpy as np
from vf.gen.c06_cat_reduce import _mean_kw
from vf.gen.npcatalog import F, X, OP, Multi, Skip, Q, QView, TmpPath, read_tmp

ALL = ("1d", "2d", "3d", "0d", "e1", "sq")
NE = ("1d", "2d", "3d", "0d", "sq")
ND = ("1d", "2d", "3d", "sq")
A1 = lambda g: [g.a()]
SD = {"same-dimension"}
VIEW = {"same-dimension", "view"}
IDX = {"index-like"}
PR = {"product"}
MUT = {"mutator", "same-dimension"}
AX = [0, -1, (0, 1), None]
mask_of = lambda g, a: g.mask(a[0].data.shape)


def need1(g):
    if len(g.dims()) < 1:
        raise Skip("ndim<1")
    return [g.a()]


def need2(g):
    if len(g.dims()) < 2:
        raise Skip("ndim<2")
    return [g.a()]


def _real(g):
    g.real_only()
    return [g.a()]


for n in ("sum",):
    F("ndarray." + n, A1, opt={"axis": AX, "dtype": ["f8"], "keepdims": [True], "initial": [3], "where": [mask_of]}, out=True, shapes=ALL, tags=SD, posorder=["axis", "dtype", "out", "keepdims"])
F("ndarray.prod", lambda g: [g.a(lo=-3, hi=3)], opt={"axis": AX, "dtype": ["f8"], "keepdims": [True], "initial": [3], "where": [mask_of]}, out=True, shapes=ALL, tags=PR, posorder=["axis", "dtype", "out", "keepdims"])
for n in ("max", "min"):
    F("ndarray." + n, A1, opt={"axis": AX, "keepdims": [True], "initial": [3], "where+initial": [lambda g, a: Multi(where=g.mask(a[0].data.shape), initial=2)]}, out=True, shapes=NE, tags=SD, posorder=["axis", "out", "keepdims"])
F("ndarray.mean", A1, opt={"axis": AX, "dtype": ["f8"], "keepdims": [True], "where": [mask_of]}, out=True, shapes=NE, tags=SD, posorder=["axis", "dtype", "out", "keepdims"])
for n in ("std", "var"):
    F("ndarray." + n, A1, opt={"axis": AX, "dtype": ["f8"], "ddof": [1], "keepdims": [True], "where": [mask_of],
                               "axis+mean": [_mean_kw]}, out=True, shapes=NE,
      tags=SD if n == "std" else PR, posorder=["axis", "dtype", "out", "ddof", "keepdims"])
for n in ("all", "any"):
    F("ndarray." + n, lambda g: [g.a(lo=0, hi=2)], opt={"axis": AX, "keepdims": [True], "where": [mask_of]}, out=True, shapes=ALL, tags=IDX, posorder=["axis"])
for n in ("argmax", "argmin"):
    F("ndarray." + n, A1, opt={"axis": [0, -1, None], "keepdims": [True]}, out=True, shapes=NE, tags=IDX, posorder=["axis", "out"])
F("ndarray.cumsum", A1, opt={"axis": [0, -1], "dtype": ["f8"]}, out=True, shapes=ALL, tags=SD, posorder=["axis", "dtype", "out"])
F("ndarray.cumprod", lambda g: [g.a(lo=-3, hi=3)], opt={"axis": [0, -1], "dtype": ["f8"]}, out=True, shapes=ALL, tags=PR, posorder=["axis", "dtype", "out"], forms={"dimensionless": (lambda g: [g.a("1", lo=-3, hi=3)])})
F("ndarray.trace", need2, opt={"offset": [1, -1], "axis1+axis2": [Multi(axis1=1, axis2=0)], "dtype": ["f8"]}, out=True, shapes=("2d", "sq", "3d"), tags=SD, posorder=["offset"],
  forms={"positional": (lambda g: need2(g) + [1, 1, 0, "f8"])})
F("ndarray.round", A1, opt={"decimals": [1, -1]}, out=True, shapes=ALL, tags=SD, posorder=["decimals", "out"],
  forms={"halves": (lambda g: ([g.q(g.raw() / 4.0 if g.dtype.kind in "fc" else g.raw())], {"decimals": 1})), "large": (lambda g: [g.q(g.raw() * 17), -1])})
F("ndarray.clip", lambda g: (g.real_only() or [g.a(), g.q(np.asarray(1, g.dtype)), g.q(np.asarray(4, g.dtype))]), out=True, shapes=ALL, tags=SD, mixed=False,
  forms={"bare-bounds": (lambda g: (g.real_only() or [g.a(), 1, 4])), "kw:min+max": (lambda g: (g.real_only() or ([g.a()], {"min": g.q(np.asarray(1, g.dtype)), "max": g.q(np.asarray(5, g.dtype))}))),
         "max-only": (lambda g: (g.real_only() or [g.a(), None, g.q(np.asarray(2, g.dtype))])), "swapped-bounds": (lambda g: (g.real_only() or [g.a(), g.q(np.asarray(5, g.dtype)), g.q(np.asarray(1, g.dtype))]))})
for n in ("conj", "conjugate"):
    F("ndarray." + n, A1, shapes=ALL, tags=SD)
F("ndarray.copy", A1, opt={"order": ["F", "K"]}, shapes=ALL, tags=SD, posorder=["order"])
F("ndarray.astype", lambda g: [g.a(), "f8"], opt={"copy": [False], "casting": ["unsafe"], "order": ["F"], "subok": [False]}, shapes=ALL, tags=SD,
  forms={"to-int": (lambda g: (g.real_only() or [g.a(), "i4"])), "to-complex": (lambda g: [g.a(), "c16"]), "same": (lambda g: ([g.a(), g.dtype], {"copy": False}))})
F("ndarray.view", A1, shapes=ALL, tags=VIEW, forms={"dtype": (lambda g: [g.a(dtype="f8"), "i8"]), "type": (lambda g: ([g.a()], {"type": np.ndarray})), "ndarray": (lambda g: [g.a(), np.ndarray])})
F("ndarray.byteswap", A1, opt={"inplace": [True]}, shapes=ALL, posorder=["inplace"])
F("ndarray.getfield", lambda g: [g.a(dtype="c16"), "f8"], opt={"offset": [8]}, shapes=("1d", "2d"), dtypes=("c16",), posorder=["offset"])
F("ndarray.setfield", lambda g: [g.a(dtype="c16"), 3.0, "f8"], opt={"offset": [8]}, shapes=("1d", "2d"), dtypes=("c16",), posorder=["offset"], tags=MUT)
F("ndarray.setflags", A1, opt={"write": [False]}, shapes=("1d",), tags={"opaque"}, observe=lambda a, k, r: bool(a[0].flags.writeable))
F("ndarray.tolist", A1, shapes=ALL + ("e2",), tags={"tolist"})
F("ndarray.item", lambda g: [g.a(shape=())], shapes=("0d",), forms={"index": (lambda g: [g.a(shape=(2, 3)), 4]), "multi-index": (lambda g: [g.a(shape=(2, 3)), 1, 2]), "tuple": (lambda g: [g.a(shape=(2, 3)), (0, 1)]), "size1": (lambda g: [g.a(shape=(1, 1))])})
F("ndarray.tobytes", A1, opt={"order": ["F"]}, shapes=ALL, tags={"opaque", "file"}, posorder=["order"])
F("ndarray.dumps", A1, shapes=("1d", "0d"), tags={"opaque", "file"}, observe=lambda a, k, r: np.asarray(pickle.loads(r)))
F("ndarray.dump", lambda g: [g.a(), io.BytesIO()], shapes=("1d",), tags={"opaque", "file"}, observe=lambda a, k, r: np.asarray(pickle.loads(a[1].getvalue())))
F("ndarray.tofile", lambda g: [g.a(), TmpPath()], opt={"sep": [","]}, shapes=("1d",), tags={"opaque", "file"}, observe=lambda a, k, r: read_tmp(a[1]),
  forms={"sep+format": (lambda g: ([g.a(), TmpPath()], {"sep": " ", "format": "%s"}))})
F("ndarray.fill", lambda g: [g.a(), g.q(np.asarray(7, g.dtype))], shapes=ALL, tags=MUT, mixed=False, forms={"bare": (lambda g: [g.a(), 3])})
F("ndarray.put", lambda g: [g.a(shape=(6,)), [0, 2], g.a(shape=(2,))], opt={"mode": ["wrap", "clip"]}, shapes=("1d",), tags=MUT, mixed=False, posorder=["mode"],
  forms={"oob-wrap": (lambda g: ([g.a(shape=(6,)), [7, -8, 13], g.a(shape=(3,))], {"mode": "wrap"})), "oob-clip": (lambda g: [g.a(shape=(6,)), [7, -8, 13], g.a(shape=(3,)), "clip"]), "bare-value": (lambda g: [g.a(shape=(2, 3)), [1, 4], 7])})
F("ndarray.sort", A1, opt={"axis": [0], "kind": ["stable", "heapsort"], "stable": [True]}, shapes=ALL, tags=MUT, posorder=["axis", "kind"])
F("ndarray.partition", lambda g: [g.distinct(), 1], opt={"axis": [0], "kind": ["introselect"]}, shapes=ND, tags=MUT, posorder=["axis", "kind"])
F("ndarray.argsort", A1, opt={"axis": [0, None], "kind": ["stable"], "stable": [True]}, shapes=ALL, tags=IDX, posorder=["axis", "kind"])
F("ndarray.argpartition", lambda g: [g.distinct(), 1], opt={"axis": [0, None]}, shapes=ND, tags=IDX, posorder=["axis"])
F("ndarray.searchsorted", lambda g: (g.real_only() or [g.sorted1(), g.a(shape=(4,))]), opt={"side": ["right"], "sorter": [lambda g, a: np.arange(a[0].data.size)]}, shapes=("1d",), tags=IDX, posorder=["side", "sorter"],
  forms={"bare-number": (lambda g: (g.real_only() or [g.sorted1(), 2]))})
F("ndarray.nonzero", lambda g: [g.a(lo=-1, hi=1)], shapes=("1d", "2d", "3d", "e1", "sq"), tags=IDX)
F("ndarray.take", lambda g: need1(g) + [[0, -1, 1]], opt={"axis": [0, -1], "mode": ["wrap", "clip"]}, out=True, shapes=ND, tags=SD, posorder=["axis", "out", "mode"],
  forms={"scalar-index": (lambda g: need1(g) + [1]), "2d-indices+axis": (lambda g: (need2(g) + [[[0, 1], [1, 0]]], {"axis": 1})), "wrap-oob": (lambda g: (need1(g) + [[-7, 11, 2]], {"mode": "wrap"})), "clip-oob": (lambda g: need1(g) + [[-7, 11, 2], 0, None, "clip"])})
F("ndarray.compress", lambda g: (lambda a: [a, g.mask((a.data.shape[0],))])(need1(g)[0]), opt={"axis": [0]}, out=True, shapes=ND, tags=SD, posorder=["axis", "out"])
F("ndarray.choose", lambda g: [g.q(g.ints(g.dims(), 0, 2), "1"), [g.a(), g.a(), g.a()]], opt={"mode": ["wrap", "clip"]}, out=True, shapes=("1d", "2d"), dtypes=("f8", "i8", "c16", "f4", "i4"), mixed=False, tags=SD, posorder=["out", "mode"])
F("ndarray.repeat", lambda g: [g.a(), 2], opt={"axis": [0, -1]}, shapes=ALL, tags=SD, posorder=["axis"])
F("ndarray.dot", lambda g: [g.a(shape=(3, 4)), g.a("B", shape=(4, 2))], out=True, shapes=("2d",), tags=PR, forms={"vec": (lambda g: [g.a(shape=(4,)), g.a("B", shape=(4,))]), "bare-b": (lambda g: [g.a(shape=(3, 4)), g.raw((4,))]), "scalar": (lambda g: [g.a(shape=(3,)), g.a("B", shape=())])})
F("ndarray.diagonal", need2, opt={"offset": [1, -1], "axis1+axis2": [Multi(axis1=1, axis2=0)]}, shapes=("2d", "3d", "sq"), tags=VIEW, posorder=["offset"], forms={"positional": (lambda g: need2(g) + [1, 1, 0])})
F("ndarray.flatten", A1, opt={"order": ["F"]}, shapes=ALL, tags=SD, posorder=["order"])
F("ndarray.ravel", A1, opt={"order": ["F", "K"]}, shapes=ALL, tags=VIEW, posorder=["order"])
F("ndarray.reshape", lambda g: [g.a(), -1], opt={"order": ["F"], "copy": [True]}, shapes=ALL, tags=VIEW,
  forms={"tuple": (lambda g: [g.a(shape=(2, 6)), (3, 4)]), "varargs": (lambda g: [g.a(shape=(2, 6)), 4, 3]), "to0d": (lambda g: [g.a(shape=(1,)), ()]), "from0d": (lambda g: [g.a(shape=()), (1, 1)]),
         "from0d-varargs": (lambda g: [g.a(shape=()), 1, 1]), "from0d-minus1": (lambda g: [g.a(shape=()), -1]), "from0d-F": (lambda g: ([g.a(shape=()), (1,)], {"order": "F"})),
         "varargs-F": (lambda g: ([g.a(shape=(2, 6)), 4, 3], {"order": "F"}))})
F("ndarray.resize", lambda g: ([g.a(), (2, 2)], {"refcheck": False}), shapes=("1d", "2d"), tags=MUT, forms={"grow": (lambda g: ([g.a(shape=(3,)), 5], {"refcheck": False}))})
F("ndarray.squeeze", lambda g: [g.a(shape=(1,) + g.dims() + (1,))], opt={"axis": [0, -1]}, shapes=ALL, tags=VIEW, posorder=["axis"], forms={"size1": (lambda g: [g.a(shape=(1, 1))])})
F("ndarray.swapaxes", lambda g: need2(g) + [0, 1], shapes=("2d", "3d", "sq"), tags=VIEW)
F("ndarray.transpose", A1, shapes=ALL, tags=VIEW, forms={"axes": (lambda g: (lambda a: [a, tuple(range(a.data.ndim))[::-1]])(g.a())), "varargs": (lambda g: need2(g) + [1, 0] + list(range(2, len(g.dims()))))})
for n in ("T", "mT", "real", "imag", "flat"):
    F("ndarray." + n, need2 if n == "mT" else A1, kind="attr", shapes=ALL, tags=VIEW, observe=(lambda a, k, r: np.array(list(r))) if n == "flat" else None)
X("ndarray.flat", "index", lambda g: [g.a(shape=(2, 3))], kind="attr", tags=VIEW, shapes=("2d",), invoke=lambda a, k: a[0].flat[1:4])
X("ndarray.flat", "assign", lambda g: [g.a(shape=(2, 3)), g.a(shape=(2,))], kind="attr", tags=MUT, shapes=("2d",), invoke=lambda a, k: a[0].flat.__setitem__(slice(1, 3), a[1]))
X("ndarray.real", "assign", lambda g: [g.a(), 3], kind="attr", tags=MUT, shapes=ALL, invoke=lambda a, k: setattr(a[0], "real", a[1]))
X("ndarray.imag", "assign", lambda g: [g.a(dtype="c16"), 2], kind="attr", tags=MUT, shapes=("1d", "2d"), dtypes=("c16",), invoke=lambda a, k: setattr(a[0], "imag", a[1]))

# operators and protocols ---------------------------------------------------------------------------------------------------
same = lambda g: [g.a(), g.a()]
other = lambda g: [g.a(), g.a("B", lo=1, hi=5)]
nz = lambda g: [g.a(), g.pos()]
for n, fn in (("__add__", operator.add), ("__sub__", operator.sub)):
    OP(n, fn, same, tags=SD, shapes=ALL, forms=None)
for n, fn in (("__mul__", operator.mul), ("__truediv__", operator.truediv), ("__matmul__", None)):
    if fn:
        OP(n, fn, other, tags=PR, shapes=ALL)
OP("__matmul__", operator.matmul, lambda g: [g.a(shape=(3, 4)), g.a("B", shape=(4, 2))], tags=PR, shapes=("2d",))
OP("__floordiv__", operator.floordiv, lambda g: (g.real_only() or nz(g)), tags=PR, shapes=ALL)
OP("__mod__", operator.mod, lambda g: (g.real_only() or nz(g)), tags=SD, shapes=ALL)
OP("__divmod__", divmod, lambda g: (g.real_only() or nz(g)), tags={"mixed-result"}, shapes=ALL)
OP("__pow__", operator.pow, lambda g: [g.a(lo=-3, hi=3), 2], tags=PR, shapes=ALL)
X("ndarray.__pow__", "zero", lambda g: [g.a(), 0], kind="op", tags=PR, shapes=ALL, invoke=lambda a, k: a[0] ** a[1])
X("ndarray.__pow__", "half", lambda g: [g.pos(), 0.5], kind="op", tags=PR, shapes=ALL, invoke=lambda a, k: a[0] ** a[1])
X("ndarray.__pow__", "neg", lambda g: [g.q(g.raw(lo=1, hi=4).astype("f8")), -1], kind="op", tags=PR, shapes=ALL, invoke=lambda a, k: a[0] ** a[1])
X("ndarray.__rpow__", "dimensionless", lambda g: [2.0, g.a("1", lo=-2, hi=3)], kind="op", tags=PR, shapes=ALL, invoke=lambda a, k: a[0] ** a[1])
for n, fn in (("__neg__", operator.neg), ("__pos__", operator.pos), ("__abs__", abs)):
    OP(n, fn, A1, tags=SD, shapes=ALL)
OP("__invert__", operator.invert, lambda g: [g.a("1")], shapes=ALL, dtypes=("i8", "i4", "u1"))
for n, fn in (("__and__", operator.and_), ("__or__", operator.or_), ("__xor__", operator.xor), ("__lshift__", operator.lshift), ("__rshift__", operator.rshift)):
    OP(n, fn, lambda g: [g.a("1", lo=0, hi=7), g.a("1", lo=0, hi=3)], shapes=("1d", "2d", "0d"), dtypes=("i8", "i4", "u1"))
for n, fn in (("__eq__", operator.eq), ("__ne__", operator.ne), ("__lt__", operator.lt), ("__le__", operator.le), ("__gt__", operator.gt), ("__ge__", operator.ge)):
    OP(n, fn, lambda g: [g.a(lo=0, hi=3), g.a(lo=0, hi=3)], tags=IDX, shapes=ALL)
for n, fn in (("__iadd__", operator.iadd), ("__isub__", operator.isub)):
    OP(n, fn, same, tags=MUT, shapes=ALL)
for n, fn in (("__imul__", operator.imul), ("__itruediv__", operator.itruediv), ("__ifloordiv__", operator.ifloordiv), ("__imod__", operator.imod), ("__ipow__", operator.ipow)):
    OP(n, fn, lambda g, n=n: [g.a(dtype="f8" if g.dtype.kind in "iu" and n == "__itruediv__" else None), 2] if g.dtype.kind != "c" or n not in ("__ifloordiv__", "__imod__") else (_ for _ in ()).throw(Skip("complex")), tags=MUT, shapes=ALL)
OP("__imatmul__", operator.imatmul, lambda g: [g.a(shape=(3, 3)), g.a("1", shape=(3, 3))], tags=MUT, shapes=("sq",))
for n, fn in (("__iand__", operator.iand), ("__ior__", operator.ior), ("__ixor__", operator.ixor), ("__ilshift__", operator.ilshift), ("__irshift__", operator.irshift)):
    OP(n, fn, lambda g: [g.a("1", lo=0, hi=7), g.a("1", lo=0, hi=3)], tags={"mutator"}, shapes=("1d", "2d"), dtypes=("i8", "i4", "u1"))
for n, fn in (("__float__", float), ("__int__", int), ("__complex__", complex), ("__bool__", bool), ("__index__", operator.index)):
    OP(n, fn, lambda g: [g.a(shape=())], tags=IDX if n in ("__bool__", "__index__") else SD, shapes=("0d",))
OP("__len__", len, need1, tags=IDX, shapes=ND + ("e1",))
OP("__iter__", lambda a: list(a), need1, tags=SD, shapes=ND + ("e1",))
OP("__contains__", operator.contains, lambda g: (lambda a: [a, g.q(a.data.reshape(-1)[0])])(need1(g)[0]), tags=IDX, shapes=ND)
X("ndarray.__contains__", "bare-number", lambda g: [g.a(lo=0, hi=3), 2], kind="op", tags=IDX, shapes=ND, invoke=lambda a, k: a[1] in a[0])
OP("__copy__", lambda a: a.__copy__(), A1, tags=SD, shapes=ALL)
OP("__deepcopy__", lambda a: a.__deepcopy__({}), A1, tags=SD, shapes=ALL)
OP("__reduce__", lambda a: pickle.loads(pickle.dumps(a)), A1, tags=SD, shapes=ALL)
OP("__array__", lambda a, *r: a.__array__(*r), A1, tags=SD, shapes=ALL)
X("ndarray.__array__", "dtype", lambda g: [g.a(), np.dtype("c16")], kind="op", tags=SD, shapes=ALL, invoke=lambda a, k: a[0].__array__(a[1]))
for n, fn in (("__str__", str), ("__repr__", repr), ("__format__", lambda a: format(a, ""))):
    OP(n, fn, A1, tags={"opaque"}, shapes=ALL)

GI = {"int": 1, "neg": -1, "slice": slice(1, 3), "step": slice(None, None, 2), "rev": slice(None, None, -1), "ellipsis": Ellipsis, "newaxis": None,
      "empty-tuple": (), "fancy": [0, 2, 1], "tuple2": (1, slice(None)), "int-int": (0, 1), "ell-int": (Ellipsis, 0), "fancy2": ([0, 1], [1, 0]), "slice-newaxis": (slice(0, 2), None)}
for form, ix in GI.items():
    X("ndarray.__getitem__", form, (lambda g, ix=ix: [g.a(), ix]), kind="op", tags=SD if form in ("fancy", "fancy2") else VIEW, shapes=ALL, invoke=lambda a, k: a[0][a[1]])
X("ndarray.__getitem__", "bool", lambda g: (lambda a: [a, g.mask(a.data.shape)])(g.a()), kind="op", tags=SD, shapes=ALL, invoke=lambda a, k: a[0][a[1]])
X("ndarray.__getitem__", "bool-from-compare", lambda g: (lambda a: [a, a.data.real > 0])(g.a()), kind="op", tags=SD, shapes=ALL, invoke=lambda a, k: a[0][a[1]])
X("ndarray.__getitem__", "index-array", lambda g: [g.a(shape=(6,)), g.ints((2, 2), 0, 5)], kind="op", tags=SD, shapes=("1d",), invoke=lambda a, k: a[0][a[1]])


def _set(a, k):
    a[0][a[1]] = a[2]


for form, ix in GI.items():
    if form in ("empty-tuple", "newaxis", "slice-newaxis"):
        continue
    X("ndarray.__setitem__", form + ":scalar", (lambda g, ix=ix: [g.a(), ix, g.q(np.asarray(7, g.dtype))]), kind="op", tags=MUT, shapes=ND, invoke=_set)
    X("ndarray.__setitem__", form + ":bare", (lambda g, ix=ix: [g.a(), ix, 5]), kind="op", tags=MUT, shapes=ND, invoke=_set)
X("ndarray.__setitem__", "slice:array", lambda g: [g.a(shape=(6,)), slice(1, 4), g.a(shape=(3,))], kind="op", tags=MUT, shapes=("1d",), invoke=_set)
X("ndarray.__setitem__", "bool:array", lambda g: (lambda m: [g.a(shape=(6,)), m, g.a(shape=(int(m.sum()),))])(g.mask((6,))), kind="op", tags=MUT, shapes=("1d",), invoke=_set)
X("ndarray.__setitem__", "row:array", lambda g: [g.a(shape=(3, 4)), 1, g.a(shape=(4,))], kind="op", tags=MUT, shapes=("2d",), invoke=_set)
X("ndarray.__setitem__", "ellipsis:0d", lambda g: [g.a(shape=()), Ellipsis, g.a(shape=())], kind="op", tags=MUT, shapes=("0d",), invoke=_set)
X("ndarray.__setitem__", "view-target", lambda g: (lambda q: [QView(q, slice(1, 5)), slice(0, 2), g.a(shape=(2,))])(g.a(shape=(6,))), kind="op", tags=MUT, shapes=("1d",), invoke=_set)
