"""Battery of read-only library calls that take shared quantity objects (the exported physical constants) as operands.

Used by C15 ('constants survive being used').  Nothing here judges anything: the module only *drives* calls; the snapshot
contract of vf/monitors/c15_snapshot.py decides afterwards whether the operand objects are byte-for-byte what they were.

``templates(unyt)`` -> list of ``(name, family, arity, fn)``.  ``fn(a)`` / ``fn(a, b)`` performs one library call (or a short
idiom) in which ``a`` and ``b`` are only ever *read* by the caller: the harness never applies an in-place operator, an ``out=``
argument or a ``convert_to_*`` method to an operand, and never writes through a documented view (``.d``, ``.ndview``,
``unyt_array(x)``, ``np.asarray(x)``).  It does write into objects the documentation calls copies (``.to()``, ``.in_units()``,
``.in_base()``, ``.v``, ``.copy()``, ``1*x`` ...): templates named ``scribble(...)``.
Exceptions raised by a call are swallowed by the runner (comparing a mass with a length is still a use of both constants).

``partners(...)`` -> the operand a constant is combined with, by structural kind.
``catalogue_cases(...)`` -> adapter for the shared NumPy call-template catalogue (vf/gen/npcatalog.py): 0-d placeholders are
realised as the constant objects themselves.
"""
import copy
import math
import operator
import pickle

import numpy as np

FAMILIES = ("tolerance-compare", "numpy-compare", "arithmetic", "inplace-on-temporary", "comparison", "ufunc", "conversion",
            "equivalence", "copy-then-scribble", "construct", "registry", "format", "decorator")

# dimension -> unit spellings offered to to_equivalent (every equivalence is tried with every spelling; most raise)
EQUIV_TARGETS = ("g", "Msun", "erg", "eV", "J", "K", "cm", "angstrom", "Hz", "1/cm", "km/s", "dimensionless", "g/cm**3",
                 "cm**-3", "W/m**2", "erg/s/cm**2")


def scribble(r):
    """overwrite the buffer of a result the documentation calls a copy"""
    if isinstance(r, np.ndarray) and r.dtype.kind in "fc" and r.flags.writeable:
        raw = r.view(np.ndarray)
        np.multiply(raw, 3.0, out=raw)
        np.add(raw, 1.0, out=raw)
    return r


def templates(unyt):
    from unyt import allclose_units, unyt_array, unyt_quantity, Unit, UnitRegistry
    from unyt.testing import assert_allclose_units, assert_array_equal_units
    from unyt.unit_object import define_unit
    T = []

    def B(name, fam, fn):
        T.append((name, fam, 2, fn))

    def U(name, fam, fn):
        T.append((name, fam, 1, fn))

    def temp(a, factor=1.0):
        """a fresh quantity built from a Python float: cannot alias the operand"""
        return unyt_quantity(float(np.asarray(a.view(np.ndarray)).real) * factor, a.units)

    # ---- tolerance comparisons (actual, desired, rtol, atol in every position)
    B("allclose_units", "tolerance-compare", lambda a, b: allclose_units(a, b))
    B("allclose_units[rtol]", "tolerance-compare", lambda a, b: allclose_units(a, b, rtol=1e-9))
    B("allclose_units[rtol,atol=0.0]", "tolerance-compare", lambda a, b: allclose_units(a, b, 1e-9, 0.0))
    B("allclose_units[atol=operand]", "tolerance-compare", lambda a, b: allclose_units(a, temp(a, 1.0 + 1e-12), atol=b))
    B("allclose_units[desired=operand,atol=operand]", "tolerance-compare", lambda a, b: allclose_units(temp(b), a, atol=b))
    B("allclose_units[equal_nan]", "tolerance-compare", lambda a, b: allclose_units(a, b, equal_nan=True))
    B("allclose_units[list-of-operands]", "tolerance-compare", lambda a, b: allclose_units([a, b], [b, a]))
    B("assert_allclose_units", "tolerance-compare", lambda a, b: assert_allclose_units(a, b))
    B("assert_allclose_units[rtol]", "tolerance-compare", lambda a, b: assert_allclose_units(a, b, rtol=1e-9))
    B("assert_allclose_units[atol=operand]", "tolerance-compare", lambda a, b: assert_allclose_units(a, temp(a), atol=b))
    B("assert_array_equal_units", "tolerance-compare", lambda a, b: assert_array_equal_units(a, b))
    # ---- NumPy's comparisons through the array-function protocol
    B("np.allclose", "numpy-compare", lambda a, b: np.allclose(a, b))
    B("np.allclose[rtol,atol=operand]", "numpy-compare", lambda a, b: np.allclose(a, temp(a), rtol=1e-9, atol=b))
    B("np.isclose", "numpy-compare", lambda a, b: np.isclose(a, b))
    B("np.array_equal", "numpy-compare", lambda a, b: np.array_equal(a, b))
    B("np.array_equiv", "numpy-compare", lambda a, b: np.array_equiv(a, b))
    B("np.testing.assert_allclose", "numpy-compare", lambda a, b: np.testing.assert_allclose(a, b))
    B("np.testing.assert_array_equal", "numpy-compare", lambda a, b: np.testing.assert_array_equal(a, b))
    B("np.testing.assert_array_almost_equal", "numpy-compare", lambda a, b: np.testing.assert_array_almost_equal(a, b))
    B("math.isclose", "numpy-compare", lambda a, b: math.isclose(a, b))
    # ---- arithmetic
    for nm, op in (("add", operator.add), ("sub", operator.sub), ("mul", operator.mul), ("truediv", operator.truediv),
                   ("floordiv", operator.floordiv), ("mod", operator.mod), ("pow", operator.pow), ("divmod", divmod)):
        B(nm, "arithmetic", op)
    U("neg", "arithmetic", operator.neg)
    U("pos", "arithmetic", operator.pos)
    U("abs", "arithmetic", abs)
    U("pow[2]", "arithmetic", lambda a: a ** 2)
    U("pow[0.5]", "arithmetic", lambda a: a ** 0.5)
    U("pow[-1]", "arithmetic", lambda a: a ** -1)
    U("mul[float]", "arithmetic", lambda a: 2.5 * a)
    U("rtruediv[float]", "arithmetic", lambda a: 1.0 / a)
    U("mul[ndarray]", "arithmetic", lambda a: np.arange(3.0) * a)
    U("mul[list]", "arithmetic", lambda a: a * [1.0, 2.0])
    U("sum-of-list", "arithmetic", lambda a: sum([a, a, a], 0 * a))
    # ---- in-place operators and out= on a temporary, the constant being the other operand
    for nm, op in (("iadd", operator.iadd), ("isub", operator.isub), ("imul", operator.imul), ("itruediv", operator.itruediv)):
        B(nm + "[temporary,operand]", "inplace-on-temporary", lambda a, b, op=op: op(temp(a), b))
    for nm in ("add", "subtract", "multiply", "divide", "maximum", "hypot"):
        B(f"np.{nm}[out=temporary]", "inplace-on-temporary", lambda a, b, f=getattr(np, nm): f(a, b, out=temp(a)))
        B(f"np.{nm}[out=bare]", "inplace-on-temporary", lambda a, b, f=getattr(np, nm): f(a, b, out=np.empty(())))
    U("np.sqrt[out=temporary]", "inplace-on-temporary", lambda a: np.sqrt(a, out=temp(a)))
    U("np.copyto[temporary,operand]", "inplace-on-temporary", lambda a: np.copyto(temp(a, 2.0), a))
    U("setitem[temporary-array,operand]", "inplace-on-temporary", lambda a: operator.setitem(unyt_array([1.0, 2.0], a.units), 0, a))
    B("np.clip[temporary,lo=operand,hi=operand]", "inplace-on-temporary", lambda a, b: np.clip(unyt_array([0.5, 2.0], a.units) * a.view(np.ndarray), a, b))
    B("np.where[cond,operand,operand]", "inplace-on-temporary", lambda a, b: np.where(np.array([True, False]), a, b))
    # ---- comparisons
    for nm, op in (("eq", operator.eq), ("ne", operator.ne), ("lt", operator.lt), ("le", operator.le), ("gt", operator.gt),
                   ("ge", operator.ge)):
        B(nm, "comparison", op)
    B("max-builtin", "comparison", lambda a, b: max(a, b))
    B("min-builtin", "comparison", lambda a, b: min(a, b))
    B("sorted", "comparison", lambda a, b: sorted([a, b, a]))
    # ---- ufuncs and array functions
    for nm in ("add", "subtract", "multiply", "divide", "floor_divide", "remainder", "power", "maximum", "minimum", "fmax", "fmin",
               "hypot", "arctan2", "copysign", "nextafter", "heaviside", "greater", "less_equal", "equal", "not_equal", "fmod",
               "logaddexp"):
        B("np." + nm, "ufunc", getattr(np, nm))
    for nm in ("sqrt", "square", "cbrt", "reciprocal", "negative", "absolute", "fabs", "sign", "exp", "log", "log10", "sin",
               "isfinite", "isnan", "signbit", "floor", "rint", "spacing", "conjugate", "positive"):
        U("np." + nm, "ufunc", getattr(np, nm))
    B("np.dot", "ufunc", np.dot)
    B("np.cross-free-outer", "ufunc", lambda a, b: np.multiply.outer(a, b))
    B("np.add.reduce[list]", "ufunc", lambda a, b: np.add.reduce([a, b]))
    B("method.dot", "ufunc", lambda a, b: a.dot(b))
    U("method.sum", "ufunc", lambda a: a.sum())
    U("method.mean", "ufunc", lambda a: a.mean())
    U("method.std", "ufunc", lambda a: a.std())
    U("method.round", "ufunc", lambda a: a.round(3))
    U("method.astype[f4]", "ufunc", lambda a: a.astype("f4"))
    # ---- conversions: the second operand supplies the target (its Unit object, the unit's string, or the quantity itself)
    B("to[units-of]", "conversion", lambda a, b: a.to(b.units))
    B("to[str-of-units]", "conversion", lambda a, b: a.to(str(b.units)))
    B("to[quantity]", "conversion", lambda a, b: a.to(b))
    B("in_units[units-of]", "conversion", lambda a, b: a.in_units(b.units))
    B("in_units[quantity]", "conversion", lambda a, b: a.in_units(b))
    B("to_value[units-of]", "conversion", lambda a, b: a.to_value(b.units))
    B("units.get_conversion_factor", "conversion", lambda a, b: a.units.get_conversion_factor(b.units))
    B("units.same_dimensions_as", "conversion", lambda a, b: a.units.same_dimensions_as(b.units))
    U("to[own-units]", "conversion", lambda a: a.to(a.units))
    U("in_base", "conversion", lambda a: a.in_base())
    for s in ("cgs", "mks", "imperial", "galactic", "solar", "geometrized", "planck"):
        U(f"in_base[{s}]", "conversion", lambda a, s=s: a.in_base(s))
    U("in_cgs", "conversion", lambda a: a.in_cgs())
    U("in_mks", "conversion", lambda a: a.in_mks())
    U("to_value", "conversion", lambda a: a.to_value())
    U("units.get_base_equivalent", "conversion", lambda a: a.units.get_base_equivalent())
    U("units.get_cgs_equivalent", "conversion", lambda a: a.units.get_cgs_equivalent())
    U("units.get_mks_equivalent", "conversion", lambda a: a.units.get_mks_equivalent())
    U("units.simplify", "conversion", lambda a: a.units.simplify())
    U("units.as_coeff_unit", "conversion", lambda a: a.units.as_coeff_unit())
    # ---- equivalences
    try:
        from unyt.equivalencies import equivalence_registry
        eqs = sorted(equivalence_registry)
    except Exception:
        eqs = []
    for e in eqs:
        def teq(a, e=e):
            n = 0
            for u in EQUIV_TARGETS:
                try:
                    a.to_equivalent(u, e)
                    n += 1
                except Exception:
                    pass
                try:
                    a.to(u, equivalence=e)
                except Exception:
                    pass
            if n == 0:
                raise LookupError(e)
            return n
        U(f"to_equivalent[{e}]", "equivalence", teq)

        def ceq(a, e=e):
            n = 0
            for u in EQUIV_TARGETS:
                t = temp(a)
                try:
                    t.convert_to_equivalent(u, e)
                    n += 1
                except Exception:
                    pass
            if n == 0:
                raise LookupError(e)
        U(f"convert_to_equivalent[temporary,{e}]", "equivalence", ceq)
    def listeq(a):
        import contextlib
        import io
        with contextlib.redirect_stdout(io.StringIO()):      # list_equivalencies prints
            a.list_equivalencies()
        return [a.has_equivalent(e) for e in eqs]
    U("list_equivalencies", "equivalence", listeq)
    # ---- results documented as copies are overwritten; the operand must not notice
    B("scribble(to[units-of])", "copy-then-scribble", lambda a, b: scribble(a.to(b.units)))
    B("scribble(in_units[units-of])", "copy-then-scribble", lambda a, b: scribble(a.in_units(b.units)))
    B("scribble(add)", "copy-then-scribble", lambda a, b: scribble(a + b))
    B("scribble(mul)", "copy-then-scribble", lambda a, b: scribble(a * b))
    B("scribble(np.maximum)", "copy-then-scribble", lambda a, b: scribble(np.maximum(a, b)))
    for nm, f in (("to[own-units]", lambda a: a.to(a.units)), ("in_units[own-units]", lambda a: a.in_units(a.units)),
                  ("in_base", lambda a: a.in_base()), ("in_cgs", lambda a: a.in_cgs()), ("in_mks", lambda a: a.in_mks()),
                  ("in_base[imperial]", lambda a: a.in_base("imperial")), ("copy", lambda a: a.copy()), ("copy.copy", copy.copy),
                  ("copy.deepcopy", copy.deepcopy), ("pickle-roundtrip", lambda a: pickle.loads(pickle.dumps(a))),
                  ("v", lambda a: np.asarray(a.v)), ("value", lambda a: np.asarray(a.value)), ("to_ndarray", lambda a: a.to_ndarray()),
                  ("to_value", lambda a: np.asarray(a.to_value())), ("pos", operator.pos), ("mul[1]", lambda a: 1 * a),
                  ("mul[1.0]-right", lambda a: a * 1.0), ("truediv[1]", lambda a: a / 1), ("pow[1]", lambda a: a ** 1),
                  ("abs", abs), ("np.array", lambda a: np.array(a)), ("np.copy", lambda a: np.copy(a)),
                  ("unyt_quantity(float-of)", lambda a: unyt_quantity(float(a.v), a.units)), ("uq", lambda a: a.uq),
                  ("np.positive", np.positive), ("np.real", lambda a: np.real(a) * 1), ("astype[f8]", lambda a: a.astype("f8")),
                  ("np.atleast_1d-copy", lambda a: np.atleast_1d(a).copy()), ("np.full_like", lambda a: np.full_like(a, a)),
                  ("np.ones_like", lambda a: np.ones_like(a)), ("np.stack", lambda a: np.stack([a, a])),
                  ("unyt_array[list]", lambda a: unyt_array([a, a])), ("np.concatenate", lambda a: np.concatenate([np.atleast_1d(a)] * 2))):
        U(f"scribble({nm})", "copy-then-scribble", lambda a, f=f: scribble(f(a)))
    # ---- constructors and stacking
    B("unyt_array[list-of-operands]", "construct", lambda a, b: unyt_array([a, b]))
    B("unyt_array[list,units-of]", "construct", lambda a, b: unyt_array([a, a], b.units))
    B("unyt_array[operand,units-of]", "construct", lambda a, b: unyt_array(a, b.units))
    B("unyt_quantity[operand,units-of]", "construct", lambda a, b: unyt_quantity(a, b.units))
    B("np.array[list]", "construct", lambda a, b: np.array([a, b]))
    B("np.stack", "construct", lambda a, b: np.stack([a, b]))
    B("np.hstack", "construct", lambda a, b: np.hstack([a, b]))
    B("np.concatenate[atleast_1d]", "construct", lambda a, b: np.concatenate([np.atleast_1d(a), np.atleast_1d(b)]))
    B("uconcatenate", "construct", lambda a, b: unyt.uconcatenate([unyt_array([a]), unyt_array([b])]))
    B("ustack", "construct", lambda a, b: unyt.ustack([a, b]))
    B("uhstack", "construct", lambda a, b: unyt.uhstack([a, b]))
    B("uvstack", "construct", lambda a, b: unyt.uvstack([a, b]))
    B("mul[units-of]", "construct", lambda a, b: a * b.units)
    B("rmul[units-of]", "construct", lambda a, b: b.units * a)
    B("truediv[units-of]", "construct", lambda a, b: a / b.units)
    B("units-mul-units", "construct", lambda a, b: (a.units * b.units, a.units / b.units, a.units == b.units))
    U("unyt_array(operand)-read", "construct", lambda a: float(unyt_array(a).sum().view(np.ndarray)))
    U("unyt_quantity(operand)-read", "construct", lambda a: unyt_quantity(a) + a)
    U("np.asarray-read", "construct", lambda a: float(np.asarray(a)) + 1.0)
    U("np.asanyarray-read", "construct", lambda a: np.asanyarray(a) * 2)
    U("ua", "construct", lambda a: a.ua)
    U("unit_quantity", "construct", lambda a: a.unit_quantity)
    U("from_string(to_string)", "construct", lambda a: unyt_quantity.from_string(a.to_string()))
    U("views-read", "construct", lambda a: (float(a.d), float(a.ndview), float(a.ndarray_view()), a.view(np.ndarray).item()))
    U("reshape-ravel-read", "construct", lambda a: (a.reshape(1), a.ravel(), a[()], a[...], np.atleast_2d(a), a.T, a.squeeze()))
    # ---- registries: a constant as the definition of a symbol in a fresh registry; materialising constants again
    def define(a):
        reg = UnitRegistry()
        define_unit("c15_defined", a, registry=reg)
        return Unit("c15_defined", registry=reg).base_value

    def define_tuple(a):
        reg = UnitRegistry()
        define_unit("c15_defined", (a.view(np.ndarray), str(a.units)), registry=reg)
        return reg["c15_defined"]

    def modify(a):
        reg = UnitRegistry()
        for sym, ent in list(reg.lut.items()):
            if ent[1] == a.units.dimensions and len(ent) > 2 and ent[2] == 0.0:
                reg.modify(sym, a)
                return sym
        raise LookupError("no symbol of this dimension")

    def reg_add(a):
        reg = UnitRegistry()
        reg.add("c15_added", a.in_base().view(np.ndarray), a.units.dimensions)
        return unyt_quantity(1.0, "c15_added", registry=reg).in_base()
    U("define_unit[quantity,fresh-registry]", "registry", define)
    U("define_unit[tuple,fresh-registry]", "registry", define_tuple)
    U("registry.modify[symbol,quantity]", "registry", modify)
    U("registry.add[base-value-of]", "registry", reg_add)
    U("quantity-with-other-registry", "registry", lambda a: unyt_quantity(a, a.units, registry=UnitRegistry(unit_system="cgs")).in_base())
    # ---- formatting and scalar protocol
    U("str-repr-format", "format", lambda a: (str(a), repr(a), format(a, ".3e"), a.to_string(), a.units.latex_repr, f"{a}"))
    U("float-item-tolist", "format", lambda a: (float(a), a.item(), a.tolist(), complex(a), bool(a != 0 * a)))
    U("pickle-dumps", "format", lambda a: pickle.dumps(a, protocol=2))
    U("np.array2string", "format", lambda a: (np.array2string(a), np.array_repr(a), np.array_str(a)))
    # ---- dimension-checking decorators
    try:
        from unyt import accepts, returns

        def deco(a):
            @accepts(x=a.units.dimensions)
            @returns(a.units.dimensions)
            def f(x):
                return x
            return f(a) * 2
        U("accepts-returns", "decorator", deco)
    except Exception:
        pass
    return T


def nullary(unyt):
    """calls that take no constant as operand but (re)materialise or enumerate them; judged by a full snapshot comparison"""
    import unyt.physical_constants as pc
    from unyt.unit_systems import add_constants
    N = []
    for s in ("cgs", "mks", "imperial", "galactic", "solar", "geometrized", "planck"):
        N.append((f"add_constants[fresh-dict,{s}]", lambda s=s: add_constants({}, unyt.UnitRegistry(unit_system=s))))
    N.append(("add_constants[copy-of-module-dict,cgs]", lambda: add_constants({k: v for k, v in vars(pc).items() if not k.startswith("__")},
                                                                              unyt.UnitRegistry(unit_system="cgs"))))
    N.append(("add_constants[copy-of-module-dict,default-registry]",
              lambda: add_constants({k: v for k, v in vars(pc).items() if not k.startswith("__")}, unyt.unit_registry.default_unit_registry)))
    N.append(("add_constants[twice-same-dict]", lambda: [add_constants(d, unyt.UnitRegistry(unit_system=s)) for d in [{}] for s in ("mks", "cgs")]))
    N.append(("add_symbols[fresh-dict]", lambda: unyt.unit_systems.add_symbols({}, unyt.UnitRegistry(unit_system="cgs"))))
    N.append(("UnitSystem-repr-of-builtins", lambda: [str(u) for u in unyt.unit_systems.unit_system_registry.values()]))
    N.append(("registry-json-roundtrip", lambda: unyt.UnitRegistry.from_json(unyt.unit_registry.default_unit_registry.to_json())))
    N.append(("reload-constants-into-object", lambda: add_constants(vars(type("Holder", (), {})()), unyt.UnitRegistry())))
    return N


TEMP_KINDS = ("converted-temporary", "scaled-unit-temporary", "nearby-temporary", "bare-float", "integer-quantity", "array",
              "unit-object")


def partners(unyt, pc, held, canon, names, other, x):
    """-> list of (kind, object, tracked?) to combine the constant object x (canonical name `canon`) with"""
    from unyt import unyt_array, unyt_quantity
    out = [("same-object", x)]
    for n in names:
        if n != canon:
            al = getattr(pc, n, None)
            if al is not None and al is not x:
                out.append(("alias", al))
                break
    for sfx in ("_mks", "_cgs"):
        g = getattr(pc, canon + sfx, None)
        if g is not None:
            out.append((sfx, g))
    for label, (reg, ns) in held.items():
        g = ns.get(canon)
        if g is not None:
            out.append((label, g))
        g = ns.get(canon + "_cgs")
        if g is not None and label in ("sys-imperial", "sys-cgs"):
            out.append((label + "_cgs", g))
    v = float(np.asarray(x.view(np.ndarray)))
    conv = None
    for f in (lambda: x.in_cgs(), lambda: x.in_base("imperial"), lambda: x.in_base("galactic")):
        try:
            c = f()
            if c.units != x.units:
                conv = c
                break
        except Exception:
            pass
    if conv is not None:
        out.append(("converted-temporary", conv))
        try:
            out.append(("integer-quantity", unyt_quantity(3, conv.units)))
            out.append(("array", unyt_array([v, 2 * v, v / 2], x.units).to(conv.units)))
        except Exception:
            pass
    try:
        out.append(("scaled-unit-temporary", unyt_quantity(v / 1000.0, 1000 * x.units)))
    except Exception:
        pass
    out.append(("nearby-temporary", unyt_quantity(v * (1 + 1e-9), x.units)))
    out.append(("bare-float", v))
    out.append(("unit-object", x.units))
    if other is not None:
        out.append(("other-constant", other))
    na = getattr(pc, "Na", None)
    if na is not None and na is not x:
        out.append(("dimensionless-constant", na))
    return out


def catalogue_cases():
    """templates of the shared NumPy catalogue that accept 0-d operands and are not declared mutators"""
    from vf.gen import npcatalog as nc
    cat = [t for t in nc.catalog() if "0d" in t.shapes and not (t.tags & {"mutator", "unsupported", "uninitialized"})
           and "inplace" not in t.params]      # inplace=True is the caller's own request to overwrite the operand
    return nc, cat


def realise_with_constants(nc, unyt, call, x, p, y):
    """0-d placeholders of dimension slot A become x (first) and p (second), slot B becomes y; out= buffers, bare operands, non
    0-d data and further placeholders are fresh temporaries in the units of x / y"""
    seen = {"A": 0, "B": 0}
    ux = {"A": x.units, "B": (y.units if y is not None else x.units)}

    def wrap(data, dim, q):
        if dim == "1":
            return unyt.unyt_quantity(data, "") if data.ndim == 0 else unyt.unyt_array(data, "")
        if q.role == "out" or data.ndim != 0 or data.dtype.kind != "f":
            return unyt.unyt_quantity(data, ux[dim]) if data.ndim == 0 else unyt.unyt_array(data, ux[dim])
        seen[dim] += 1
        if dim == "A":
            if seen[dim] == 1:
                return x
            if seen[dim] == 2 and p is not None:
                return p
        elif dim == "B" and seen[dim] == 1 and y is not None:
            return y
        return unyt.unyt_quantity(data, ux[dim])
    return call.realize(wrap, layout="C")
