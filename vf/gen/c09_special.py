"""C09 workload dimension: special values in the DATA of an equivalence conversion.

The other workload groups of C09 draw ordinary numbers (finite, non-zero, inside the physical domain of the formula, many decades).  A
conversion is an elementwise map, and real data carries elements that are none of that: exact zeros (padding entries, vacuum cells),
negative numbers, +-inf and NaN (masked / failed measurements), numbers next to the under/overflow threshold, numbers on or beyond a
domain edge of the formula (v = c, v > c, gamma = 1, gamma < 1) - alone (0-d quantity, size-1 array, whole array) or *mixed with
ordinary elements in one array*.  This module is plain data and generators (nothing here imports unyt or calls what C09 judges):

  data class   what the special elements are (DCLASSES); "mixed" puts several different special values into one array
  placement    which elements are special: all / first / last / middle / several (every other element); 0-d quantities and size-1
               arrays are always "all"
  dtype        float64 every class; float32 every class (with float32's own extremes); int64 only what an integer can hold (zero, negative,
               mixed zero/negative, the integer edge gamma = 1)
The expected result of every element comes from vf/ref/c09_ieee.py (the published formula evaluated by IEEE arithmetic, several
spellings, unjudged where they disagree); the ordinary elements of a mixed array come from the caller's ordinary generator.
"""
import numpy as np

DCLASSES = ("zero", "neg-zero", "negative", "inf", "neg-inf", "nan", "tiny", "huge", "edge", "mixed")
PLACEMENTS = ("all", "first", "last", "middle", "several")
C_SI = 299792458.0
INT_CLASSES = ("zero", "negative", "mixed", "edge")

TINY = {"f8": [5e-324, 1e-310, 2.2250738585072014e-308, 1e-300, 1e-250, 1e-200, 3e-120], "f4": [1e-45, 1.2e-38, 1e-30, 1e-20]}
HUGE = {"f8": [1.7976931348623157e308, 1e300, 1e250, 1e200, 3e120], "f4": [3.4028235e38, 1e30, 1e20]}


def classes_for(dt, eq):
    cs = DCLASSES if dt[0] == "f" else INT_CLASSES
    return tuple(c for c in cs if c != "edge" or eq == "lorentz")     # every other formula has its only domain edge at 0 (class zero)


def edge_readings(eq, a, scale):
    """readings (in a unit of SI scale `scale`) on and beyond the domain edge of the formula: [(label, value)]"""
    if eq != "lorentz":
        return []
    if a == "velocity":
        e = C_SI / scale
        return [("at-edge", e), ("beyond-edge", 1.5 * e), ("beyond-edge", 1e3 * e), ("beyond-edge", -2.0 * e)]
    return [("at-edge", 1.0), ("beyond-edge", 0.5), ("beyond-edge", 1e-3), ("beyond-edge", -0.25)]


def special_value(dclass, dt, r, ordinary, edges):
    """one special reading of class dclass -> (element label, value); ordinary: an ordinary reading to derive 'negative' from"""
    fk = "f4" if dt == "f4" else "f8"
    if dclass == "zero":
        return "zero", 0.0
    if dclass == "neg-zero":
        return "neg-zero", -0.0
    if dclass == "negative":
        return "negative", -abs(float(ordinary)) if float(ordinary) != 0 else -1.0
    if dclass == "inf":
        return "inf", float("inf")
    if dclass == "neg-inf":
        return "neg-inf", float("-inf")
    if dclass == "nan":
        return "nan", float("nan")
    if dclass == "tiny":
        return "tiny", r.choice(TINY[fk]) * r.choice([1, 1, -1])
    if dclass == "huge":
        return "huge", r.choice(HUGE[fk]) * r.choice([1, 1, -1])
    if dclass == "edge":
        lab, v = r.choice(edges)
        return lab, v
    raise KeyError(dclass)


def positions(n, placement):
    if placement == "all":
        return list(range(n))
    if placement == "first":
        return [0]
    if placement == "last":
        return [n - 1]
    if placement == "middle":
        return [n // 2]
    if placement == "several":
        return list(range(0, n, 2))
    raise KeyError(placement)


def place(ordinary, dclass, placement, dt, r, edges):
    """ordinary: 1-d array of ordinary readings (dtype dt).  -> (array with the special elements written in, labels per element)"""
    arr = np.array(ordinary, dtype=dt, copy=True)
    labels = ["ordinary"] * arr.size
    isint = dt[0] == "i"
    if dclass == "mixed":
        menu = ["zero", "negative"] if isint else ["zero", "nan", "inf", "negative", "neg-inf", "neg-zero", "tiny", "huge"]
        if edges:
            menu.append("edge")
    for j, i in enumerate(positions(arr.size, placement)):
        dc = menu[(j + r.randrange(len(menu))) % len(menu)] if dclass == "mixed" else dclass
        if dclass == "mixed" and j == 0:
            dc = "zero"                              # a mixed array always holds an exact zero
        lab, v = special_value(dc, dt, r, arr[i], edges)
        if isint:
            v = int(v)
        with np.errstate(all="ignore"):
            arr[i] = v
        labels[i] = lab
    return arr, labels


def cases_for(tier, r, dts):
    """(dclass, placement, container kind, dtype) combinations of one direction: quick - every class x {0-d or size-1, contiguous array,
    view} with rotating placement; thorough - every class x every container kind x two rotating placements (about 3x the quick size)"""
    out = []
    off = r.randrange(60)
    for ci, dc in enumerate(DCLASSES):
        if tier == "quick":
            plan = [(("q", "one")[(ci + off) % 2], "all"),
                    (("a1", "a2")[(ci + off) % 2], PLACEMENTS[(ci + off) % 5]),
                    (("view", "viewT")[(ci + off // 2) % 2], PLACEMENTS[1 + (ci + off // 5) % 4])]
            if dc in ("zero", "mixed"):
                plan.append((("a1", "a2", "view", "viewT")[(ci + off) % 4], PLACEMENTS[(ci + off + 2) % 5]))
        else:
            plan = [("q", "all"), ("one", "all")]
            for ki, kd in enumerate(("a1", "a2", "view", "viewT")):
                for pj in range(2):
                    plan.append((kd, PLACEMENTS[(ki + pj * 2 + off + ci) % 5]))
        for j, (kd, pl) in enumerate(plan):
            dt = dts[(j + ci + off) % len(dts)]
            out.append((dc, pl, kd, dt))
    return out


# sentinels written into freed buffers before a copying call (see vf/monitors/c09_heap.py)
SENTINELS = (7.25e77, -3.5e-66)
