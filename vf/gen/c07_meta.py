"""C07 metadata over the shared call-template catalogue (vf/gen/npcatalog.py is read-only for C07).

Structural classifications that decide whether rule 1 (covariance under a change of units) and rule 2 (a same-dimension
result keeps units) are fair questions for a call.  Every entry is a class of calls, never an input.

EXPLICIT_BARE          explicit conversions to plain Python / NumPy objects, byte and text output: the caller asks for the
                       bare numbers in the current unit.  Neither rule is judged (the call is run, counted, noted).
UNIT_RELATIVE          functions whose *definition* refers to the number in the current unit: re-expressing the input
                       changes what is asked (round(3.25 m) vs round(325 cm)).  Rule 2 only.
classify(t, call)      -> (skip_rule1_reason | None, skip_rule2_reason | None) for one concrete call; adds the call-level
                       classes: base-class requests (subok=False, view(np.ndarray)), casts to an integer type, bare numbers
                       in unit positions (UNIT_POSITION_PARAMS by parameter name, catalogue forms named *bare*), operands
                       deliberately passed without unit (catalogue tag mixed-bare / Q.bare), quantities put in index
                       positions (INDEX_POSITION_FORMS).
RULE2_EXEMPT           same-dimension tags of the catalogue that are too coarse for rule 2 (in-place multiplicative
                       operators, callables deciding the dimension, index-returning forms, secondary leaves).
ZERO_DRAW_EXEMPT       functions not driven with the all-zero input class (degenerate histogram ranges).
ORDER_UNSPECIFIED      functions whose result order NumPy leaves unspecified: compared as multisets.
"""
import inspect
import numpy as np
from vf.gen import npcatalog as nc

EXPLICIT_BARE = {
    "ndarray.__int__": "conversion to a plain Python number", "ndarray.__float__": "same", "ndarray.__complex__": "same",
    "ndarray.__index__": "same", "ndarray.item": "same", "ndarray.tolist": "conversion to plain Python numbers",
    "ndarray.__array__": "explicit request for the bare ndarray", "ndarray.tobytes": "bytes of the current numbers",
    "ndarray.getfield": "byte-level access", "ndarray.dump": "pickle", "ndarray.dumps": "pickle", "ndarray.tofile": "file",
    "ndarray.__reduce__": "pickle protocol", "ndarray.__format__": "text", "ndarray.__repr__": "text", "ndarray.__str__": "text",
}

UNIT_RELATIVE = {
    "numpy.round": "rounds to decimals of the current unit", "numpy.around": "same", "ndarray.round": "same",
    "numpy.fix": "rounds to integers of the current unit",
    "ndarray.astype": "casts may truncate to integers of the current unit", "numpy.astype": "same",
    "ndarray.setfield": "byte-level access", "ndarray.byteswap": "byte-level access",
    "ndarray.__ifloordiv__": "floor of the number in the current unit when the divisor is a pure number",
    "numpy.real_if_close": "absolute tolerance in machine epsilons of the current unit",
}

UNIT_POSITION_PARAMS = {
    "initial", "fill_value", "constant_values", "end_values", "left", "right", "period", "discont", "prepend", "append",
    "to_begin", "to_end", "values", "v", "val", "vals", "default", "a_min", "a_max", "min", "max", "range", "bins", "atol", "tol",
    "nan", "posinf", "neginf", "dx", "x", "xi", "varargs", "start", "stop", "mean", "funclist",
}

# catalogue forms that put a unit-carrying operand where NumPy expects indices / counts
INDEX_POSITION_FORMS = {
    ("numpy.bincount", "unit-ints"), ("numpy.unravel_index", "unit"), ("numpy.unravel_index", "scalar"), ("numpy.ravel_multi_index", "array"), ("numpy.ravel_multi_index", "oob-wrap"),
}

# catalogue forms (operators / attribute setters: no parameter names) that pass a bare number where a quantity is meant
BARE_POSITIONAL_FORMS = {("ndarray.__imod__", "base"), ("ndarray.real", "assign"), ("ndarray.imag", "assign")}

# floor / remainder of a dimensional quantity by a pure number (or vice versa) rounds in the current unit
FLOOR_FAMILY = {"ndarray.__floordiv__", "ndarray.__ifloordiv__", "ndarray.__mod__", "ndarray.__imod__", "ndarray.__divmod__"}

RULE2_EXEMPT_FUNCS = {
    "ndarray.__ipow__": "power changes the dimension", "ndarray.__imul__": "product", "ndarray.__itruediv__": "quotient",
    "ndarray.__ifloordiv__": "quotient", "ndarray.__imatmul__": "product",
}
RULE2_EXEMPT_FORMS = {("numpy.where", "cond-only"): "returns indices"}
RULE2_EXEMPT_LEAVES = {("numpy.average", "result[1]"): "sum of weights"}
ORDER_UNSPECIFIED = {"numpy.unique_values"}
# NumPy's isclose/allclose add an absolute tolerance (default 1e-8) to the comparison: a number of the current unit
DEFAULT_ATOL = {"numpy.isclose", "numpy.allclose"}
HISTOGRAMS = {"numpy.histogram", "numpy.histogram2d", "numpy.histogramdd", "numpy.histogram_bin_edges"}
# leaves defined only up to a sign / phase / order of degenerate pairs (LAPACK's choice): compared only with the dyadic pool,
# where both runs perform bit-identical arithmetic
SIGN_AMBIGUOUS_LEAVES = {("numpy.linalg.eig", "result[1]"), ("numpy.linalg.eigh", "result[1]"), ("numpy.linalg.svd", "result[0]"),
                         ("numpy.linalg.svd", "result[2]"), ("numpy.linalg.qr", "result[0]"), ("numpy.linalg.qr", "result[1]"),
                         ("numpy.linalg.eig", "result[0]"), ("numpy.linalg.eigvals", "result")}
# NumPy widens a degenerate data range (all samples equal) by +-0.5 *of the current unit*: unit-relative by NumPy's definition
ZERO_DRAW_EXEMPT = {"numpy.histogram", "numpy.histogram2d", "numpy.histogramdd", "numpy.histogram_bin_edges"}


def unit_relative(t):
    return t.func_name in UNIT_RELATIVE


def _is_bare_number(v):
    if isinstance(v, bool):
        return False
    if isinstance(v, (int, float, complex, np.generic)):
        return v != 0            # zero is the same quantity in every unit
    if isinstance(v, np.ndarray):
        return v.dtype.kind in "iufc"
    if isinstance(v, nc.Q):
        return v.bare and v.role != "out"
    if isinstance(v, (list, tuple)):
        return any(_is_bare_number(e) for e in v)
    return False


def _has_array(v):
    if isinstance(v, np.ndarray):
        return v.ndim > 0
    if isinstance(v, nc.Q):
        return True
    if isinstance(v, (list, tuple)):
        return any(_has_array(e) for e in v)
    return False


def _degenerate_sample(call):
    """does a histogram sample have a coordinate whose values are all equal (NumPy then widens the range by +-0.5)?"""
    def cols(v):
        if isinstance(v, nc.Q):
            d = v.data
            if d.ndim == 2:      # rows too: unyt hands an (N, D) array sample to NumPy as N coordinate arrays (a C06 finding)
                return [d[:, i] for i in range(d.shape[1])] + [d[i] for i in range(d.shape[0])]
            return [d.reshape(-1)]
        if isinstance(v, (list, tuple)):
            return [c for e in v for c in cols(e)]
        return []
    samples = []
    for a in call.args[:2]:
        samples += cols(a)
    return any(c.size and np.all(c == c.reshape(-1)[0]) for c in samples)


_SIGS = {}


def bound(t, call, defaults=True):
    """{parameter name: value} (with defaults on request) for functions; kwargs only for methods"""
    named = dict(call.kwargs)
    if t.kind == "function":
        sig = _SIGS.get(t.func_name)
        if sig is None:
            try:
                sig = inspect.signature(t.target)
            except (TypeError, ValueError):
                sig = False
            _SIGS[t.func_name] = sig
        if sig:
            try:
                b = sig.bind_partial(*call.args, **call.kwargs)
                if defaults:
                    b.apply_defaults()
                named = {}
                for n, v in b.arguments.items():
                    prm = sig.parameters[n]
                    if prm.kind == prm.VAR_KEYWORD:
                        named.update(v)
                    elif prm.kind == prm.VAR_POSITIONAL:
                        named["varargs"] = list(v)
                    else:
                        named[n] = v
            except TypeError:
                pass
    return named


def _dtype_kind(v):
    try:
        return np.dtype(v).kind
    except Exception:
        return None


def classify(t, call):
    """-> (reason rule 1 is not judged | None, reason rule 2 is not judged | None)"""
    fn = t.func_name
    if fn in EXPLICIT_BARE:
        return "explicit-conversion-to-plain-object", "explicit-conversion-to-plain-object"
    named = bound(t, call)
    # explicit request for a base-class array
    if named.get("subok", True) is False:
        return "subok=False", "subok=False"
    if fn == "ndarray.view" and any(a is np.ndarray for a in list(call.args[1:]) + list(call.kwargs.values())):
        return "view-as-base-class", "view-as-base-class"
    if (fn, t.form) in INDEX_POSITION_FORMS:
        return "quantity-in-index-position", "quantity-in-index-position"
    # an operand deliberately passed without its unit: a fair question only where operands have independent dimensions
    # (bilinear products, histogram coordinates): the plain operand is then a pure number that stays as it is
    bare_operand = ("mixed-bare" in t.tags or ("bare" in t.form and not t.form.startswith("out:bare")) or (fn, t.form) in BARE_POSITIONAL_FORMS
                    or any(q.bare and q.role != "out" for _, q in call.leaves()))
    if bare_operand and (fn in FLOOR_FAMILY or not ("independent-operands" in t.tags or ("product" in t.tags and (fn, t.form) not in BARE_POSITIONAL_FORMS))):
        return "operand-passed-bare", "operand-passed-bare"
    r1 = r2 = None
    if fn in UNIT_RELATIVE:
        r1 = "unit-relative-function"
    if fn == "ndarray.view" and len(call.args) + len(call.kwargs) > 1:
        r1 = "reinterpretation-of-the-buffer"
        r2 = "reinterpretation-of-the-buffer"
    k = _dtype_kind(named["dtype"]) if named.get("dtype") is not None else None
    if k in ("i", "u", "b") or named.get("casting") == "unsafe":
        r1 = r1 or "cast-to-integer-type"
    for n, v in bound(t, call, defaults=False).items():      # explicitly passed parameters only: defaults belong to the function
        if n in UNIT_POSITION_PARAMS and v is not None and _is_bare_number(v):
            if n == "bins" and not _has_array(v):
                continue        # a number of bins is a count, not a quantity
            r1 = r1 or "bare-number-in-unit-position"
            break
    if fn in DEFAULT_ATOL and "atol" not in bound(t, call, defaults=False):
        r1 = r1 or "default-absolute-tolerance-1e-8-of-the-current-unit"
    if fn in HISTOGRAMS and _degenerate_sample(call):
        r1 = r1 or "degenerate-histogram-range-widened-by-0.5-of-the-current-unit"
    if fn in RULE2_EXEMPT_FUNCS or (fn, t.form) in RULE2_EXEMPT_FORMS or "callable-arg" in t.tags:
        r2 = r2 or "catalogue-tag-too-coarse"
    return r1, r2
