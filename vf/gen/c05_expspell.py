"""C05 workload dimension: SPELLINGS of one rational exponent (and of one bare multiplier).

The property quantifies over rational exponents with small denominators; a caller may hold such an exponent in many numeric types.
Every spelling of r = a/b is built here from the integers a and b only (never from another spelling), so that each value is the
correctly rounded / exact representative of r in its own type:

  python      int (b == 1), float, fractions.Fraction, decimal.Decimal (28 digits), str 'a/b', str repr(float), str of an int
  numpy       float16/float32/float64/longdouble scalars (T(a)/T(b)), int8..int64 / uint8..uint64 scalars (b == 1),
              0-d ndarrays of float64 / float32 / int64 / object(Fraction)
  sympy       Rational, Integer, Float (15 digits), Float (30 digits);  mpmath.mpf
  unyt        a dimensionless unyt_quantity

value classes (the part of a mechanism key that names the value): integer | dyadic (b a power of two) | decimal (b = 2^i 5^j, j > 0:
a terminating decimal) | nonterminating (b has a prime factor other than 2 and 5: thirds, sixths, sevenths, ninths, twelfths ...).
"""
import decimal
from fractions import Fraction as Fr
import numpy as np

NA = object()            # spelling not applicable to this value (an int type for a non-integer, unsigned for a negative)

VCLASSES = ("integer", "dyadic", "decimal", "nonterminating")


def vclass(r):
    b = Fr(r).denominator
    if b == 1:
        return "integer"
    while b % 2 == 0:
        b //= 2
    if b == 1:
        return "dyadic"
    while b % 5 == 0:
        b //= 5
    return "decimal" if b == 1 else "nonterminating"


def keyclass(r, q=None):
    """value part of a mechanism key: the value class and whether the denominator is at most 6 (structural, never the value itself);
    for two exponents the harder class and the larger denominator"""
    r = Fr(r)
    vc, den = vclass(r), r.denominator
    if q is not None:
        q = Fr(q)
        vc = VCLASSES[max(VCLASSES.index(vc), VCLASSES.index(vclass(q)))]
        den = max(den, q.denominator)
    return f"{vc}:{'den<=6' if den <= 6 else 'den>6'}"


def _npf(t):
    def f(r, env):
        T = getattr(np, t)
        return T(r.numerator) / T(r.denominator)
    return f


def _npi(t):
    def f(r, env):
        if r.denominator != 1:
            return NA
        T = getattr(np, t)
        info = np.iinfo(T)
        if not (info.min <= r.numerator <= info.max):
            return NA
        return T(r.numerator)
    return f


def _int(r, env):
    return int(r) if r.denominator == 1 else NA


def _sympy(kind):
    def f(r, env):
        import sympy
        if kind == "Rational":
            return sympy.Rational(r.numerator, r.denominator)
        if kind == "Integer":
            return sympy.Integer(r.numerator) if r.denominator == 1 else NA
        if kind == "Float":
            return sympy.Float(r.numerator) / sympy.Integer(r.denominator)
        if kind == "Float30":
            return sympy.Rational(r.numerator, r.denominator).evalf(30)
        import mpmath
        return mpmath.mpf(r.numerator) / r.denominator
    return f


def _decimal(r, env):
    with decimal.localcontext() as ctx:
        ctx.prec = 28
        return decimal.Decimal(r.numerator) / decimal.Decimal(r.denominator)


def _zero_d(dt):
    def f(r, env):
        if dt == "int64":
            return np.array(r.numerator, dtype="int64") if r.denominator == 1 else NA
        if dt == "object":
            return np.array(Fr(r), dtype=object)
        return np.array(np.dtype(dt).type(r.numerator) / np.dtype(dt).type(r.denominator))
    return f


def _quantity(r, env):
    return env["unyt"].unyt_quantity(r.numerator / r.denominator, "dimensionless")


# name -> builder(r: Fraction, env) ; the order is the order of evaluation
SPELLINGS = {
    "int": _int,
    "float": lambda r, env: r.numerator / r.denominator,
    "Fraction": lambda r, env: Fr(r),
    "Decimal": _decimal,
    "str-fraction": lambda r, env: f"{r.numerator}/{r.denominator}" if r.denominator != 1 else NA,
    "str-decimal": lambda r, env: repr(r.numerator / r.denominator),
    "str-int": lambda r, env: str(r.numerator) if r.denominator == 1 else NA,
    "np.float16": _npf("float16"),
    "np.float32": _npf("float32"),
    "np.float64": _npf("float64"),
    "np.longdouble": _npf("longdouble"),
    "np.int8": _npi("int8"), "np.int16": _npi("int16"), "np.int32": _npi("int32"), "np.int64": _npi("int64"),
    "np.uint8": _npi("uint8"), "np.uint16": _npi("uint16"), "np.uint32": _npi("uint32"), "np.uint64": _npi("uint64"),
    "0d-float64": _zero_d("float64"),
    "0d-float32": _zero_d("float32"),
    "0d-int64": _zero_d("int64"),
    "0d-object-Fraction": _zero_d("object"),
    "sympy.Rational": _sympy("Rational"),
    "sympy.Integer": _sympy("Integer"),
    "sympy.Float": _sympy("Float"),
    "sympy.Float30": _sympy("Float30"),
    "mpmath.mpf": _sympy("mpf"),
    "dimensionless-quantity": _quantity,
}
INT_ONLY = ("int", "str-int", "np.int8", "np.int16", "np.int32", "np.int64", "np.uint8", "np.uint16", "np.uint32", "np.uint64",
            "0d-int64", "sympy.Integer")
# relative precision with which a spelling carries a non-dyadic value (used only by the multiplier family, where the number itself,
# not a snapped fraction, is the operand)
SPELL_EPS = {"np.float16": 2.0 ** -10, "np.float32": 2.0 ** -23, "0d-float32": 2.0 ** -23}

# spellings a bare multiplier is tried in (a multiplier is data, not an exponent: exact types that NumPy stores as objects are included
# to observe a consistent refusal)
MULT_SPELLINGS = ("int", "float", "Fraction", "Decimal", "np.float16", "np.float32", "np.float64", "np.longdouble", "np.int8", "np.int32",
                  "np.int64", "np.uint8", "np.uint64", "0d-float64", "0d-float32", "0d-int64", "sympy.Rational", "sympy.Float")
MULTIPLIERS = ("2", "3", "1/2", "5/2", "1024", "1/3", "1/10", "-3", "-3/4")

UNIT_DOORS = ("unit-pow",)                                       # u ** p
ARRAY_DOORS = ("quantity-pow", "np.power", "array-pow", "np.power-array-exponent")

# (unit expression, lives in the custom registry)
QUICK_UNITS = (("m", 0), ("km", 0), ("g", 0), ("s", 0), ("Msun", 0), ("J", 0), ("N*m", 0), ("kg*m**2/s**2", 0), ("erg/cm**3", 0),
               ("mile/hr", 0), ("percent", 0), ("cu0", 1), ("kcu0/cu1", 1), ("cu1*kg", 1))
CUSTOM = {"cu0": (2.5, "L", True), "cu1": (4096.0, "T", False)}
CUSTOM_EXTRA = {"cu0": (2.5, "L"), "cu1": (4096.0, "T"), "kcu0": (2500.0, "L")}


def rationals(tier):
    """small-denominator rationals, both signs, |r| <= 4, every value class"""
    dens = (1, 2, 3, 4, 5, 6, 7, 8, 9, 10, 12) if tier == "quick" else (1, 2, 3, 4, 5, 6, 7, 8, 9, 10, 11, 12, 13, 14, 15, 16, 20)
    out = []
    for b in dens:
        if b == 1:
            nums = (1, -1, 2, -2, 3, -3, 4) if tier == "quick" else (1, -1, 2, -2, 3, -3, 4, -4)
        else:
            cop = [a for a in range(1, 4 * b) if Fr(a, b).denominator == b]
            if tier == "quick":
                # the unit fraction with both signs, the largest proper fraction, three improper fractions (just above 1, in the
                # middle, just below 4: the rounding error of a narrow float grows with the magnitude of the exponent)
                proper = [a for a in cop if a < b]
                improper = [a for a in cop if a > b]
                nums = (1, -1, -proper[-1], improper[0], -improper[len(improper) // 2], improper[-1])
            else:
                nums = tuple(cop[::max(1, len(cop) // 5)]) + tuple(-a for a in cop[1::max(1, len(cop) // 3)])
        for a in nums:
            r = Fr(a, b)
            if r not in out:
                out.append(r)
    return out


def unit_class(expr, custom):
    if custom:
        return "custom"
    if any(c in expr for c in "*/"):
        return "compound"
    return "atomic" if expr in ("m", "g", "s", "J", "Msun", "percent") else "prefixed-or-derived"


def batches(tier, seed):
    """[(batch_id, payload)]: one enumerated batch per fixed unit (ignores the seed), plus seeded random batches over all names"""
    rs = [str(r) for r in rationals(tier)]
    out = []
    for i, (expr, custom) in enumerate(QUICK_UNITS):
        family = [e for e, c in QUICK_UNITS if c == custom]                 # the partner of a product lives in the same registry
        partner = family[(family.index(expr) + 3) % len(family)]
        out.append(("expspell/unit/%d" % i, {"mode": "enum", "unit": expr, "custom": custom, "partner": partner, "rationals": rs,
                                              "multipliers": i % 3 == 0}))
    n, per = (4, 24) if tier == "quick" else (8, 36)
    for i in range(n):
        out.append(("expspell/random/%d" % i, {"mode": "random", "seed": seed, "index": i, "n": per, "tier": tier}))
    return out
