"""Operand SHAPE asymmetry as a workload dimension of C19 (plain data, no unyt).

A comparison helper receives two operands that need not have the same number of elements: NumPy broadcasts a 0-d quantity
against an (n,) array, a (1,) array against an (n, m) one, a column against a row.  Which operand is the small one is a
spelling of the call, not a physical fact, so nothing about the verdict may depend on it.  This module enumerates

* SHAPE_PAIRS   ordered pairs of broadcastable shapes: first operand smaller / second smaller (0-d, size-1 of one and two
                dimensions, partial), equal size but different shape (0-d against (1,), column against row) and same-shape
                controls;
* TOL_CFGS      every spelling of the tolerances that decides a verdict: default, bare number, quantity written in the first
                operand's unit, in the second operand's unit, in a third unit; with rtol zero, default and bare;
* placements()  differences relative to the tolerance: zero, well inside, just inside, just outside, well outside - and, for a
                bare/default atol (whose reading depends on which operand's unit it is taken in), relative to BOTH readings,
                including the values between the two readings;
* layout()      readings of both operands for one case: a common value c, one operand perturbed (either one, so the deciding
                difference sits on the small or on the big operand), the deciding element at a drawn position, the others well
                inside.
"""
import math
import numpy as np

# (first shape, second shape); every pair broadcasts
SHAPE_PAIRS = [
    ((), (3,)), ((3,), ()),
    ((1,), (3,)), ((3,), (1,)),
    ((), (2, 3)), ((2, 3), ()),
    ((1,), (2, 3)), ((2, 3), (1,)),
    ((1, 1), (4,)), ((4,), (1, 1)),
    ((3,), (2, 3)), ((2, 3), (3,)),
    ((2, 1), (2, 3)), ((2, 3), (2, 1)),
    ((2, 1), (1, 3)), ((1, 3), (2, 1)),
    ((), (1,)), ((1,), ()),
    ((3, 1), (1, 3)),
    ((), ()), ((3,), (3,)), ((2, 3), (2, 3)),
]
# shapes drawn by the random part (beyond the fixed list)
RANDOM_SHAPES = [(), (1,), (1, 1), (2,), (5,), (1, 4), (4, 1), (2, 2), (2, 1, 3), (1, 1, 1), (3, 2), (1, 2), (7,)]


def size(shape):
    n = 1
    for k in shape:
        n *= k
    return n


def full_shape(sa, sb):
    return tuple(np.broadcast_shapes(sa, sb))


def broadcastable(sa, sb):
    try:
        np.broadcast_shapes(sa, sb)
        return True
    except ValueError:
        return False


def relation(sa, sb):
    """structural class of the asymmetry (part of mechanism keys)"""
    if tuple(sa) == tuple(sb):
        return "same-shape"
    na, nb = size(sa), size(sb)
    if na < nb:
        return "first-smaller"
    if na > nb:
        return "second-smaller"
    return "same-size"


def small_kind(shape, full):
    """how the operand is spelled relative to the common shape"""
    if tuple(shape) == tuple(full):
        return "full"
    if shape == ():
        return "0-d"
    if size(shape) == 1:
        return "size-1"
    return "partial"


# (name, rtol kind, rtol value or None, atol kind, profile)
#   atol kind: default | bare | qty-a (quantity in the first operand's unit) | qty-b (second operand's) | qty-t (a third unit)
#   profile:   'offzero' common value of magnitude 1..100 reference units; 'zero' common value 0 (only atol decides)
TOL_CFGS = [
    ("atol-bare", "zero", 0.0, "bare", "offzero"),
    ("atol-in-a", "zero", 0.0, "qty-a", "offzero"),
    ("atol-in-b", "zero", 0.0, "qty-b", "offzero"),
    ("atol-in-third", "zero", 0.0, "qty-t", "offzero"),
    ("all-default-at-zero", "default", None, "default", "zero"),
    ("rtol0-default-atol-at-zero", "zero", 0.0, "default", "zero"),
    ("all-default", "default", None, "default", "offzero"),
    ("rtol-bare+atol-bare", "bare", 1e-3, "bare", "offzero"),
    ("rtol-bare+atol-in-third", "bare", 1e-3, "qty-t", "offzero"),
    ("rtol-bare+atol-in-a-at-zero", "bare", 1e-3, "qty-a", "zero"),
]

JUST = 1e-6          # 'just inside / just outside' when only atol decides (margin far above the 64-eps exclusion)
JUST_RTOL = 1e-3     # the same when rtol*|b| contributes (the tolerance itself then moves with the perturbed value)


def placements(t_lo, t_hi, rtol_active):
    """differences |a-b| to try, given the smaller and the larger reading of the total tolerance (equal when the atol carries
    its own unit).  -> list of (label, difference)"""
    j = JUST_RTOL if rtol_active else JUST
    out = [("equal", 0.0)]
    if t_lo > 0:
        out += [("well-inside", 0.5 * t_lo), ("just-inside", (1 - j) * t_lo)]
    if t_hi > t_lo * (1 + 4 * j) and t_lo > 0:
        out += [("just-outside-smaller-reading", (1 + j) * t_lo)]
        if t_hi > 4 * t_lo:
            out += [("between-readings", math.sqrt(t_lo) * math.sqrt(t_hi))]
        out += [("just-inside-larger-reading", (1 - j) * t_hi)]
    if t_hi > 0:
        out += [("just-outside", (1 + j) * t_hi), ("well-outside", 2.0 * t_hi), ("far-outside", 1e3 * t_hi)]
    else:
        out += [("any-difference", None)]       # zero tolerance: every non-zero difference is outside (caller picks a size)
    return out


def layout(r, sa, sb, c, diff, inside, perturb, sign):
    """SI values of both operands: everything equals c except the perturbed operand, whose elements are off by `inside`
    fractions (0 or 0.3 of the smaller tolerance reading) and one element, at a drawn position, by `diff`.
    -> (a_si, b_si, index of the deciding element in the perturbed operand)"""
    sp = sa if perturb == "a" else sb
    n = size(sp)
    d = np.array([r.choice([0.0, 0.3]) * inside for _ in range(n)], dtype="f8")
    k = r.randrange(n)
    d[k] = diff
    d = sign * d.reshape(sp)
    a = np.full(sa, c, dtype="f8")
    b = np.full(sb, c, dtype="f8")
    if perturb == "a":
        a = a + d
    else:
        b = b + d
    return a, b, k
