"""Operand *unit spellings*, the ways an operand comes to carry such a unit, and operands that carry no unit at all (C18).

The calls C18 judges must leave "the unit" of every input exactly as it was.  Arrays produced by array arithmetic carry units
unyt has already brought to its own reduced form, and so do all atomic units - on those a call that "normalises" the unit of
an input in place is a no-op and cannot be seen.  This module generates the other half of the input space:

  spelling   a unit written the way a user writes it, in a compound form that is *not* reduced: at least two different
             symbols of one dimension meet (m**2/cm, km/m, g*cm/kg, s*km/ms, J*s/erg, m**(3/2)/cm**(1/2), 2*m**2/cm ...).
             Generated from tables of symbols per dimension (SI prefixes and named non-SI units), so every draw is likely
             to be an expression - and therefore a cache key inside unyt - this process has not met yet.
  route      how the operand gets the unit: from the string, from Unit arithmetic, data times Unit object, a string looked
             up in a private registry (whose parsed-unit cache then holds the very object the operand carries), a copied
             Unit, a pickle round trip, assignment to .units
  bare kind  an operand without units, in every form Python/NumPy offer: int, float, bool, complex, Fraction, Decimal,
             NumPy scalars of several widths, 0-d / n-d ndarrays, list, tuple, range, and the unyt objects that carry the
             empty unit (unyt_quantity(2.0), unyt_array([...]), Unit()), next to a few unit-carrying partners for contrast.

Nothing here calls a function that C18 judges; the tables are plain data, checked against the independent definition table
(vf.ref.defs / vf.ref.names) for "same dimension within a pool" by selfcheck().
"""
from fractions import Fraction
from decimal import Decimal
from collections import namedtuple

import numpy as np

# symbols of one dimension at different scales: SI-prefixed forms of one base and named units defined independently
POOLS = {
    "length": ["m", "km", "cm", "mm", "um", "nm", "Mm", "dm", "hm", "ft", "inch", "mile", "yd", "au", "pc", "kpc"],
    "mass": ["g", "kg", "mg", "ug", "Mg", "lb", "oz", "Msun"],
    "time": ["s", "ms", "us", "ns", "ks", "Ms", "hr", "day", "min", "yr"],
    "temperature": ["K", "mK", "kK", "uK", "R"],
    "current": ["A", "mA", "kA", "uA"],
    "energy": ["J", "kJ", "mJ", "MJ", "erg", "eV", "keV", "MeV"],
    "force": ["N", "kN", "mN", "dyn", "lbf"],
    "pressure": ["Pa", "kPa", "MPa", "hPa", "bar", "atm", "psi"],
    "power": ["W", "kW", "MW", "mW", "hp"],
    "frequency": ["Hz", "kHz", "MHz", "GHz"],
    "angle": ["rad", "mrad", "urad", "degree", "arcmin", "arcsec"],
}
# a factor of another dimension that stays in the unit (the residue)
RESIDUES = ["s", "g", "K", "m", "A", "kg", "hr", "cm", "N", "J", "mol", "cd"]
RESIDUE_DIM = {"s": "time", "hr": "time", "g": "mass", "kg": "mass", "K": "temperature", "m": "length", "cm": "length", "A": "current",
               "N": "force", "J": "energy", "mol": None, "cd": None}

# family -> (template, uses a residue, can be written as Unit arithmetic)
#   {a} {b} {c}: different symbols of one pool; {x}: residue of another dimension; {n}: numeric coefficient
FAMILIES = {
    "ratio": ("{a}/{b}", False, True),                           # km/m: a scaled pure number
    "square-over": ("{a}**2/{b}", False, True),                  # m**2/cm
    "cross": ("{x}*{a}/{b}", True, True),                        # g*cm/kg, s*km/ms
    "cross-denominator": ("{a}/({b}*{x})", True, True),          # km/(m*s)
    "triple": ("{a}*{b}/{c}", False, True),                      # km*cm/m
    "negative-power": ("{b}**-1*{a}**2", False, True),           # same unit as square-over, another text
    "fractional-power": ("{a}**(3/2)/{b}**(1/2)", False, True),  # m**(3/2)/cm**(1/2)
    "coefficient": ("{n}*{a}**2/{b}", False, False),             # 2*m**2/cm (a number times a Unit is a quantity: string only)
    "cube-chain": ("{a}**3/({b}*{c})", False, True),             # m**3/(cm*km)
}
COEFFS = ["2", "1000", "0.5", "60"]
ROUTES = ["string", "unit-arith", "data-times-unit", "registry-string", "unit-copy", "restored", "units-attr"]
# private registries, registry copies and unpickling cost 5-20 ms each inside unyt: drawn less often
ROUTE_WEIGHT = {"string": 3, "unit-arith": 3, "data-times-unit": 3, "units-attr": 2, "registry-string": 1, "unit-copy": 1, "restored": 1}
LAYOUTS = ["own", "step", "0d", "elem", "T"]
DTYPES = ["f8", "f8", "f4", "i8", "c16"]

Spelling = namedtuple("Spelling", "text family pool commens other")
#   commens: an atomic symbol the spelled unit can be converted to ('dimensionless' for pure numbers, None when it would need a
#            compound); other: an atomic symbol of a dimension the unit cannot be converted to


def selfcheck():
    """every pool holds symbols of one dimension and of pairwise different size, according to the independent tables"""
    from vf.ref import defs, names
    for pool, syms in POOLS.items():
        seen = {}
        dim0 = None
        for s in syms:
            r = names.resolve(s)
            if r is None:
                raise AssertionError(f"c18_spellings: reference tables cannot resolve {s!r}")
            scale, base, _amb = r
            d = defs.T[base]
            if dim0 is None:
                dim0 = d.dim
            if d.dim != dim0 or d.offset:
                raise AssertionError(f"c18_spellings: {s!r} is not a plain unit of {pool}")
            v = scale * d.value
            for t, w in seen.items():
                if abs(v - w) <= 1e-9 * abs(w):
                    raise AssertionError(f"c18_spellings: {s!r} and {t!r} have the same size")
            seen[s] = v
    return True


def draw(r, family=None, pool=None):
    """one generated spelling"""
    family = family or r.choice(sorted(FAMILIES))
    pool = pool or r.choice(sorted(POOLS))
    tmpl, uses_x, _arith = FAMILIES[family]
    a, b, c = r.sample(POOLS[pool], 3)
    x = None
    if uses_x:
        x = r.choice([s for s in RESIDUES if RESIDUE_DIM[s] != pool and not (pool in ("energy", "force", "pressure", "power") and s in ("N", "J"))])
    text = tmpl.format(a=a, b=b, c=c, x=x, n=r.choice(COEFFS))
    if family == "ratio":
        commens = "dimensionless"
    elif family == "cross":
        commens = x
    elif family == "cross-denominator":
        commens = "1/" + x
    else:
        commens = a
    taken = {pool, RESIDUE_DIM.get(x)}
    other = next(s for s in ("K", "s", "g") if RESIDUE_DIM[s] not in taken)
    return Spelling(text, family, pool, commens, other)


def routes_for(family):
    """the routes that exist for a family (a number times a Unit object is a quantity, so a coefficient can only be written in a string)"""
    if FAMILIES[family][2]:
        return list(ROUTES)
    return [x for x in ROUTES if x not in ("unit-arith", "data-times-unit", "units-attr")]


def unit_by_arithmetic(unyt, text, registry=None):
    """the Unit a user gets by writing the spelling as Python arithmetic on Unit objects"""
    import re
    ns = {}
    for sym in set(re.findall(r"[A-Za-z_][A-Za-z_0-9]*", text)):
        ns[sym] = unyt.Unit(sym, registry=registry) if registry is not None else unyt.Unit(sym)
    u = eval(text, {"__builtins__": {}}, ns)          # noqa: S307 - the text comes from the templates above
    if not getattr(u, "is_Unit", False):
        raise TypeError("arithmetic did not give a Unit")
    return u


def _vals(r, n, dt):
    k = np.dtype(dt).kind
    if k in "iu":
        return np.array([r.randint(1, 60) for _ in range(n)], dtype=dt)
    if k == "c":
        return np.array([complex(r.uniform(0.5, 9.0), r.uniform(-3, 3)) for _ in range(n)], dtype=dt)
    return np.array([r.uniform(0.5, 9.0) for _ in range(n)], dtype=dt)


def attach(unyt, r, sp, route, vals):
    """vals (an ndarray owning its data, or a NumPy scalar) with the spelled unit attached the given way -> (operand, extra holder)"""
    ua, uq = unyt.unyt_array, unyt.unyt_quantity
    scalar = np.ndim(vals) == 0
    mk = (lambda v, u, **kw: uq(v, u, **kw)) if scalar else (lambda v, u, **kw: ua(v, u, **kw))
    if route == "string":
        return mk(vals, sp.text), None
    if route == "unit-arith":
        return mk(vals, unit_by_arithmetic(unyt, sp.text)), None
    if route == "data-times-unit":
        return (vals.item() if scalar else vals) * unit_by_arithmetic(unyt, sp.text), None
    if route == "registry-string":
        reg = unyt.UnitRegistry()
        # the registry memoises the parsed string: later arrays built from the same text carry the very same Unit object
        first = mk(vals, sp.text, registry=reg)
        return first, (reg, uq(1.0, sp.text, registry=reg))
    if route == "unit-copy":
        return mk(vals, unyt.Unit(sp.text).copy()), None
    if route == "restored":
        import pickle
        return pickle.loads(pickle.dumps(mk(vals, sp.text))), None
    if route == "units-attr":
        a = mk(vals, "dimensionless")
        a.units = unit_by_arithmetic(unyt, sp.text)
        return a, None
    raise KeyError(route)


def operand(unyt, r, sp, route, layout, dt):
    """operand of the given memory layout carrying the spelled unit -> (operand, holder keeping buffers/registries alive)"""
    if layout == "own":
        a, h = attach(unyt, r, sp, route, _vals(r, 4, dt)); return a, (a, h)
    if layout == "step":
        b, h = attach(unyt, r, sp, route, _vals(r, 9, dt)); return b[1::2], (b, h)
    if layout == "0d":
        q, h = attach(unyt, r, sp, route, _vals(r, 1, dt)[0]); return q, (q, h)
    if layout == "elem":
        b, h = attach(unyt, r, sp, route, _vals(r, 5, dt)); return b[2, ...], (b, h)
    if layout == "T":
        b, h = attach(unyt, r, sp, route, _vals(r, 4, dt).reshape(2, 2)); return b.T, (b, h)
    raise KeyError(layout)


# ------------------------------------------------------------------------------------------------ partners
# operands that carry no unit (every spelling Python/NumPy/unyt have for "a plain number"), and unit-carrying ones for contrast
BARE_KINDS = ["py-int", "py-float", "py-bool", "py-complex", "py-zero", "py-one", "py-negative", "fraction", "decimal",
              "np-float64", "np-float32", "np-float16", "np-longdouble", "np-int8", "np-uint16", "np-int64", "np-bool", "np-complex64",
              "nd-0d", "nd-f8", "nd-f4-strided", "nd-i4", "nd-bool", "nd-readonly", "list", "tuple", "list-of-int", "range",
              "unitless-quantity", "unitless-int-quantity", "unitless-array", "unitless-view", "null-unit"]
UNIT_KINDS = ["dimensionless-quantity", "percent-quantity", "same-spelling", "same-unit-object", "self", "commens-atomic", "other-dimension",
              "unit-object", "junk-str", "none"]
PARTNER_KINDS = BARE_KINDS + UNIT_KINDS


def partner(unyt, r, subj, sp, kind):
    """second operand of the given kind, shaped like subj -> (partner, is a fault: the call is expected to be refused)"""
    shape = np.shape(subj)
    n = int(np.prod(shape)) if shape else 1

    def arr(dt):
        return _vals(r, max(1, n), dt)[:n].reshape(shape) if shape else np.array(_vals(r, 1, dt)[0])

    if kind == "py-int":
        return r.randint(2, 7), False
    if kind == "py-float":
        return r.uniform(1.5, 7.5), False
    if kind == "py-bool":
        return True, False
    if kind == "py-complex":
        return complex(2.0, 1.0), False
    if kind == "py-zero":
        return 0, False
    if kind == "py-one":
        return 1, False
    if kind == "py-negative":
        return -2.5, False
    if kind == "fraction":
        return Fraction(r.randint(1, 9), r.randint(2, 5)), False
    if kind == "decimal":
        return Decimal("2.5"), False
    if kind.startswith("np-"):
        t = {"float64": np.float64, "float32": np.float32, "float16": np.float16, "longdouble": np.longdouble, "int8": np.int8,
             "uint16": np.uint16, "int64": np.int64, "bool": np.bool_, "complex64": np.complex64}[kind[3:]]
        return t(r.randint(2, 5)), False
    if kind == "nd-0d":
        return np.array(r.uniform(1.5, 7.5)), False
    if kind == "nd-f8":
        return arr("f8"), False
    if kind == "nd-f4-strided":
        big = _vals(r, 2 * max(1, n) + 1, "f4")
        v = big[1::2][:n]
        return (v.reshape(shape) if shape else v[0, ...]), False
    if kind == "nd-i4":
        return arr("i4"), False
    if kind == "nd-bool":
        return np.ones(shape, dtype=bool), False
    if kind == "nd-readonly":
        a = arr("f8"); a.flags.writeable = False
        return a, False
    if kind in ("list", "tuple", "list-of-int", "range"):
        m = shape[-1] if shape else 1
        if kind == "range":
            return range(1, m + 1), False
        vals = [r.randint(2, 7) if kind == "list-of-int" else r.uniform(1.5, 7.5) for _ in range(m)]
        return (tuple(vals) if kind == "tuple" else vals), False
    if kind == "unitless-quantity":
        return unyt.unyt_quantity(r.uniform(1.5, 7.5)), False
    if kind == "unitless-int-quantity":
        return unyt.unyt_quantity(r.randint(2, 7)), False
    if kind == "unitless-array":
        return unyt.unyt_array(arr("f8")), False
    if kind == "unitless-view":
        big = unyt.unyt_array(_vals(r, 2 * max(1, n) + 1, "f8"))
        v = big[1::2][:n]
        return (v.reshape(shape) if shape else v[0, ...]), False
    if kind == "null-unit":
        return unyt.Unit(), False
    if kind == "dimensionless-quantity":
        return unyt.unyt_quantity(r.uniform(1.5, 7.5), "dimensionless"), False
    if kind == "percent-quantity":
        return unyt.unyt_quantity(r.uniform(1.5, 7.5), "percent"), False
    if kind == "same-spelling":
        return (unyt.unyt_array(arr("f8"), sp.text) if shape else unyt.unyt_quantity(arr("f8")[()], sp.text)), False
    if kind == "same-unit-object":
        u = getattr(subj, "units", subj)
        return (unyt.unyt_array(arr("f8"), u) if shape else unyt.unyt_quantity(arr("f8")[()], u)), False
    if kind == "self":
        return subj, False
    if kind == "commens-atomic":
        return unyt.unyt_quantity(r.uniform(1.5, 7.5), sp.commens or sp.text), False
    if kind == "other-dimension":
        return unyt.unyt_quantity(r.uniform(1.5, 7.5), sp.other), True
    if kind == "unit-object":
        return unyt.Unit(sp.other), False
    if kind == "junk-str":
        return "abc", True
    if kind == "none":
        return None, True
    raise KeyError(kind)


def container_state(p):
    """identity snapshot of a list partner (its elements are immutable numbers or arrays judged separately)"""
    if isinstance(p, list):
        return [id(e) for e in p]
    return None
