"""C16 workload dimension "call form": input door x constructor/converter x keyword set.

The property names calls that return a *view* (the constructor on existing array data, .view(), ndarray_view, .d/.ndview,
slices / reshapes / transposes) and calls that return *independent data* (copy(), .v/.value, to_ndarray/to_value, converting
calls, multiplication by a unit).  Each of those calls has several doors (what kind of array object is handed in) and several
optional keywords; a keyword given at a value that requests NO change (dtype= the dtype the data already has, units= the
units the input already has, registry= the registry the input is bound to, bypass_validation=, name=, order= the order the
data already has, axes= the identity permutation ...) must not change the view/copy answer.  This module enumerates

    doors(unyt, K)          input objects built on one fresh ndarray: plain ndarray, ndarray subclass, unyt_array (units / none /
                            named / custom registry with a user unit and a non-MKS unit system), user subclass of unyt_array,
                            objects derived from a unyt_array by indexing/view, unyt_quantity, user subclass of unyt_quantity
    ctor_classes(K, x)      constructor classes applicable to an input (unyt_array, user subclass; quantity classes for size<=1)
    kw_specs(tier, rng)     keyword sets: none, every keyword value alone, every pair of values of two keywords (quick), the
                            full product (thorough), plus seeded random k-way sets
    realize(unyt, K, x, spec)  (args, kwargs, judged) of one constructor call
    VIEW_FORMS / COPY_FORMS    no-change spellings of the view converters and of the copying calls

Everything here only *builds calls*; the oracle (np.shares_memory + write-through probe, NumPy's own behaviour on the stripped
data as the reference for "this dtype/order request needs no conversion") lives in vf/props/c16.py.
"""
import itertools
import numpy as np


class Classes:
    """user subclasses, made once per worker after `import unyt`"""

    def __init__(self, unyt):
        UA, UQ = unyt.unyt_array, unyt.unyt_quantity

        class UserArray(UA):
            pass

        class UserQuantity(UQ):
            pass

        class UserND(np.ndarray):
            pass
        self.UA, self.UQ, self.UserArray, self.UserQuantity, self.UserND = UA, UQ, UserArray, UserQuantity, UserND
        self.U = unyt.Unit
        self.default_registry = unyt.unit_registry.default_unit_registry
        reg = unyt.UnitRegistry(unit_system="cgs")
        reg.add("c16len", 3.5, unyt.dimensions.length, tex_repr="c16len")
        self.custom_registry = reg
        self.fresh_registry = unyt.UnitRegistry()


# ------------------------------------------------------------------------------------------------ doors
DOORS = ("ndarray", "ndarray-subclass", "unyt_array", "unyt_array-nounits", "unyt_array-named", "unyt_array-customreg",
         "unyt_array-userunit", "unyt_subclass", "unyt_array-indexed", "unyt_array-viewed", "unyt_quantity", "unyt_quantity-subclass")
UNYT_DOORS = tuple(d for d in DOORS if d.startswith("unyt"))


def door(K, name, nd):
    """the object handed to the call, built as a view of `nd` (so that nd stays the ultimate owner); None if not applicable"""
    UA, UQ = K.UA, K.UQ
    if name == "ndarray":
        return nd
    if name == "ndarray-subclass":
        return nd.view(K.UserND)
    if name == "unyt_array":
        return UA(nd, "km")
    if name == "unyt_array-nounits":
        return nd.view(UA)
    if name == "unyt_array-named":
        return UA(nd, "km", name="x")
    if name == "unyt_array-customreg":
        return UA(nd, "km", registry=K.custom_registry)
    if name == "unyt_array-userunit":
        return UA(nd, "c16len", registry=K.custom_registry)
    if name == "unyt_subclass":
        return K.UserArray(nd, "km")
    if name == "unyt_array-indexed":
        return UA(nd, "km")[...]
    if name == "unyt_array-viewed":
        return UA(nd, "km").view()
    if name == "unyt_quantity":
        return UQ(nd, "km") if nd.size == 1 and nd.ndim == 0 else None
    if name == "unyt_quantity-subclass":
        return K.UserQuantity(nd, "km") if nd.size == 1 and nd.ndim == 0 else None
    raise ValueError(name)


def ctor_classes(K, x):
    out = [("unyt_array", K.UA), ("user_subclass", K.UserArray)]
    if x.size == 1:
        out += [("unyt_quantity", K.UQ), ("user_quantity_subclass", K.UserQuantity)]
    return out


# ------------------------------------------------------------------------------------------------ keyword sets
# value classes per keyword; names are structural (they go into coverage cells, the keyword *names* go into keys)
KW = {
    "units": ("str", "Unit", "Unit-rebuilt", "relabel"),
    "registry": ("own", "default", "fresh"),
    "dtype": ("npdtype", "name", "type", "str", "char", "pytype", "change"),
    "bypass_validation": ("False", "True"),
    "name": ("str", "None"),
    "argstyle": ("keyword",),
}
KW_ORDER = tuple(KW)


def kw_specs(tier, rng, nrandom=0):
    """list of dicts keyword -> value class.  quick: none + singles + all pairs of two keywords; thorough: the full product"""
    specs = [{}]
    if tier == "thorough":
        axes = [(None,) + KW[k] for k in KW_ORDER]
        for combo in itertools.product(*axes):
            s = {k: v for k, v in zip(KW_ORDER, combo) if v is not None}
            if s:
                specs.append(s)
        return _enable(specs)
    for k in KW_ORDER:
        for v in KW[k]:
            specs.append({k: v})
    for k1, k2 in itertools.combinations(KW_ORDER, 2):
        for v1 in KW[k1]:
            for v2 in KW[k2]:
                specs.append({k1: v1, k2: v2})
    for _ in range(nrandom):
        s = {}
        for k in KW_ORDER:
            if rng.random() < 0.6:
                s[k] = rng.choice(KW[k])
        if len(s) >= 3:
            specs.append(s)
    return _enable(specs)


def _enable(specs):
    """bypass_validation=True is only a legitimate call next to a Unit object: a keyword set that asks for it without naming
    units gets the enabling units= value added (alternating spellings), so that every single value and every pair involving
    bypass_validation=True is really executed instead of being dropped as not applicable"""
    out, seen = [], set()
    for i, s in enumerate(specs):
        if s.get("bypass_validation") == "True" and "units" not in s:
            s = dict(s, units=("Unit", "Unit-rebuilt")[i % 2])
        key = tuple(sorted(s.items()))
        if key not in seen:
            seen.add(key)
            out.append(s)
    return out


def spec_names(spec):
    return "+".join(k for k in KW_ORDER if k in spec) or "none"


def spec_values(spec):
    return ",".join(f"{k}={spec[k]}" for k in KW_ORDER if k in spec) or "none"


_PYTYPE = {"f": float, "i": int, "c": complex}


def dtype_value(dt, cls):
    """the dtype= value of class `cls` for data of dtype dt; None when that spelling does not exist for dt"""
    if cls == "npdtype":
        return dt
    if cls == "name":
        return dt.name
    if cls == "type":
        return dt.type
    if cls == "str":
        return dt.str
    if cls == "char":
        return dt.char
    if cls == "pytype":
        t = _PYTYPE.get(dt.kind)
        return t if t is not None and np.dtype(t) == dt else None
    if cls == "change":
        return np.dtype("f4") if dt != np.dtype("f4") else np.dtype("f8")
    raise ValueError(cls)


def realize(K, x, spec):
    """(args, kwargs, status) for ctor(x, ...).  status: 'judge' (a no-change request: the result must be a view), 'note:<why>'
    (call is made, not judged) or 'skip:<why>' (not a legitimate call, not made)"""
    U = K.U
    has_units = isinstance(x, K.UA)
    status = "judge"
    kw = {}
    units = None
    u = spec.get("units")
    own_reg = x.units.registry if has_units else K.default_registry
    if u is not None:
        base = str(x.units) if has_units else "m"
        if u == "str":
            units = base
        elif u == "Unit":
            units = x.units if has_units else U("m")
        elif u == "Unit-rebuilt":
            units = U(base, registry=own_reg)
        elif u == "relabel":
            if not has_units:
                return None, None, "skip:relabel-needs-units-on-input"
            units = "s"
            status = "note:relabel-to-other-units"
    r = spec.get("registry")
    if r is not None:
        kw["registry"] = own_reg if r == "own" else (K.default_registry if r == "default" else K.fresh_registry)
    if has_units and str(x.units) == "c16len" and ((r is not None and r != "own") or (r is None and u == "str")):
        # the user unit does not exist in another registry (no registry= means the default one for a string): the call is
        # refused for that reason, which is not C16's subject
        return None, None, "skip:user-unit-unknown-to-other-registry"
    d = spec.get("dtype")
    if d is not None:
        v = dtype_value(x.dtype, d)
        if v is None:
            return None, None, "skip:no-such-dtype-spelling"
        kw["dtype"] = v
        if d == "change":
            status = "note:dtype-change-requested"
    b = spec.get("bypass_validation")
    if b is not None:
        kw["bypass_validation"] = (b == "True")
        if b == "True":
            if not isinstance(units, U):
                return None, None, "skip:bypass-validation-needs-a-Unit-object"
            if d == "change":
                return None, None, "skip:bypass-validation-reinterprets-bytes"
    n = spec.get("name")
    if n is not None:
        kw["name"] = "nm" if n == "str" else None
    if spec.get("argstyle") == "keyword":
        if units is not None:
            kw["units"] = units
        return (x,), kw, status
    args = (x,) if units is None else (x, units)
    return args, kw, status


# ------------------------------------------------------------------------------------------------ view converters, no-change spellings
def _ident(x):
    return tuple(range(x.ndim))


VIEW_FORMS = [
    ("x.view()", lambda x: x.view()), ("x.view(type(x))", lambda x: x.view(type(x))), ("x.view(unyt_array)", lambda x: x.view(_UA(x))),
    ("x.view(ndarray)", lambda x: x.view(np.ndarray)), ("x.view(x.dtype)", lambda x: x.view(x.dtype)), ("x.view(dtype=x.dtype)", lambda x: x.view(dtype=x.dtype)),
    ("x.view(x.dtype,type(x))", lambda x: x.view(x.dtype, type(x))), ("x.view(dtype=,type=)", lambda x: x.view(dtype=x.dtype, type=type(x))),
    ("x.view(x.dtype.str)", lambda x: x.view(x.dtype.str)),
    ("x.ndarray_view()", lambda x: x.ndarray_view()), ("x.d", lambda x: x.d), ("x.ndview", lambda x: x.ndview),
    ("x.reshape(x.shape)", lambda x: x.reshape(x.shape)), ("x.reshape(*x.shape)", lambda x: x.reshape(*x.shape) if x.ndim else x.reshape(())),
    ("x.reshape(x.shape,order=A)", lambda x: x.reshape(x.shape, order="A")), ("x.reshape(x.shape,order=C)", lambda x: x.reshape(x.shape, order="C")),
    ("np.reshape(x,x.shape)", lambda x: np.reshape(x, x.shape)), ("x.reshape(x.shape,copy=False)", lambda x: x.reshape(x.shape, copy=False)),
    ("x.transpose(*ident)", lambda x: x.transpose(*_ident(x))), ("x.transpose(ident)", lambda x: x.transpose(_ident(x))),
    ("np.transpose(x,axes=ident)", lambda x: np.transpose(x, axes=_ident(x))), ("np.permute_dims(x,ident)", lambda x: np.permute_dims(x, _ident(x))),
    ("x.swapaxes(0,0)", lambda x: x.swapaxes(0, 0)), ("np.moveaxis(x,0,0)", lambda x: np.moveaxis(x, 0, 0)), ("x.T.T", lambda x: x.T.T),
    ("x.squeeze(axis=())", lambda x: x.squeeze(axis=())), ("np.squeeze(x,axis=())", lambda x: np.squeeze(x, axis=())),
    ("x[:]", lambda x: x[:]), ("x[...]", lambda x: x[...]), ("x[0:None:1]", lambda x: x[0:None:1]), ("x[full slices]", lambda x: x[(slice(None),) * x.ndim] if x.ndim else x[...]),
    ("x[...,:]", lambda x: x[..., :]), ("x[:len]", lambda x: x[:x.shape[0]]), ("x[-len:]", lambda x: x[-x.shape[0]:] if x.shape[0] else x[:]),
    ("x.astype(x.dtype,copy=False)", lambda x: x.astype(x.dtype, copy=False)), ("x.astype(name,copy=False,subok=True)", lambda x: x.astype(x.dtype.name, copy=False, subok=True)),
    ("np.asanyarray(x,dtype=x.dtype)", lambda x: np.asanyarray(x, dtype=x.dtype)), ("np.array(x,dtype=,copy=False,subok)", lambda x: np.array(x, dtype=x.dtype, copy=False, subok=True)),
    ("np.array(x,copy=None,subok)", lambda x: np.array(x, copy=None, subok=True)), ("np.require(x,dtype=x.dtype)", lambda x: np.require(x, dtype=x.dtype)),
    ("np.atleast_nd(x)", lambda x: (np.atleast_1d, np.atleast_1d, np.atleast_2d, np.atleast_3d)[x.ndim](x) if x.ndim else None),
    ("np.expand_dims(x,())", lambda x: np.expand_dims(x, ())), ("np.broadcast_to(x,x.shape,subok)", lambda x: np.broadcast_to(x, x.shape, subok=True)),
    ("x.real-of-real", lambda x: x.real if x.dtype.kind != "c" else None),
]


def _UA(x):
    for c in type(x).__mro__:
        if c.__name__ == "unyt_array" and (c.__module__ or "").startswith("unyt"):
            return c
    return type(x)


# ------------------------------------------------------------------------------------------------ copying calls, no-change spellings
def _own_system(x):
    return x.units.registry.unit_system


COPY_FORMS = [
    ("x.copy()", lambda x: x.copy()), ("x.copy(order=C)", lambda x: x.copy(order="C")), ("x.copy(order=F)", lambda x: x.copy(order="F")),
    ("x.copy(order=A)", lambda x: x.copy(order="A")), ("x.copy(order=K)", lambda x: x.copy(order="K")), ("x.copy(K) positional", lambda x: x.copy("K")),
    ("copy.copy(x)", lambda x: __import__("copy").copy(x)), ("copy.deepcopy(x)", lambda x: __import__("copy").deepcopy(x)),
    ("np.copy(x,subok)", lambda x: np.copy(x, subok=True)), ("np.copy(x,order=K,subok)", lambda x: np.copy(x, order="K", subok=True)),
    ("np.array(x,subok)", lambda x: np.array(x, subok=True)), ("np.array(x,dtype=x.dtype,subok)", lambda x: np.array(x, dtype=x.dtype, subok=True)),
    ("np.array(x,copy=True,subok)", lambda x: np.array(x, copy=True, subok=True)), ("np.array(x)", lambda x: np.array(x)),
    ("x.astype(x.dtype)", lambda x: x.astype(x.dtype)), ("x.astype(name)", lambda x: x.astype(x.dtype.name)), ("x.astype(x.dtype,copy=True)", lambda x: x.astype(x.dtype, copy=True)),
    ("x.v", lambda x: x.v), ("x.value", lambda x: x.value), ("x.to_ndarray()", lambda x: x.to_ndarray()), ("x.to_value()", lambda x: x.to_value()),
    ("x.to_value(None)", lambda x: x.to_value(None)), ("x.to_value(x.units)", lambda x: x.to_value(x.units)), ("x.to_value(str)", lambda x: x.to_value(str(x.units))),
    ("x.to_value(units=kw)", lambda x: x.to_value(units=x.units)),
    ("x.to(x.units)", lambda x: x.to(x.units)), ("x.to(str)", lambda x: x.to(str(x.units))), ("x.to(units=kw)", lambda x: x.to(units=x.units)),
    ("x.to(x.units,equivalence=None)", lambda x: x.to(x.units, equivalence=None)), ("x.to(Unit-rebuilt)", lambda x: x.to(type(x.units)(str(x.units), registry=x.units.registry))),
    ("x.in_units(x.units)", lambda x: x.in_units(x.units)), ("x.in_units(str)", lambda x: x.in_units(str(x.units))), ("x.in_units(units=kw)", lambda x: x.in_units(units=x.units)),
    ("x.in_units(x.units,equivalence=None)", lambda x: x.in_units(x.units, equivalence=None)),
    ("x.to_equivalent(x.units,spectral)", lambda x: x.to_equivalent(x.units, "spectral")),
    ("x.in_base()", lambda x: x.in_base()), ("x.in_base(own system)", lambda x: x.in_base(_own_system(x))), ("x.in_base(unit_system=kw)", lambda x: x.in_base(unit_system=_own_system(x))),
    ("x.in_cgs()", lambda x: x.in_cgs()), ("x.in_mks()", lambda x: x.in_mks()),
    ("x*dimensionless-unit", lambda x: x * type(x.units)("dimensionless", registry=x.units.registry)), ("dimensionless-unit*x", lambda x: type(x.units)("dimensionless", registry=x.units.registry) * x),
    ("x*unit", lambda x: x * type(x.units)("s", registry=x.units.registry)), ("unit*x", lambda x: type(x.units)("s", registry=x.units.registry) * x),
    ("x/unit", lambda x: x / type(x.units)("s", registry=x.units.registry)), ("x/dimensionless-unit", lambda x: x / type(x.units)("dimensionless", registry=x.units.registry)),
    ("x.d*unit", lambda x: x.d * x.units), ("unit*x.d", lambda x: x.units * x.d), ("unit.__mul__(x.d)", lambda x: x.units.__mul__(x.d)), ("unit.__rmul__(x.d)", lambda x: x.units.__rmul__(x.d)),
    ("x.ndarray_view()*unit", lambda x: x.ndarray_view() * x.units),
]
