"""npcatalog entries: reductions, statistics, cumulative operations, elementwise unary helpers."""
import numpy as np
from vf.gen.npcatalog import F, X, Multi, Skip, Q

ALL = ("1d", "2d", "3d", "0d", "e1", "sq")
NE = ("1d", "2d", "3d", "0d", "sq")        # non-empty
A1 = lambda g: [g.a()]
AX = [0, -1, (0, 1), None]
mask_of = lambda g, a: g.mask(a[0].data.shape)
SD = {"same-dimension"}
IDX = {"index-like"}


def _real(g):
    g.real_only()
    return [g.a()]


# sum-like ------------------------------------------------------------------------------------------
for n in ("sum", "nansum"):
    F("numpy." + n, A1, opt={"axis": AX, "dtype": ["f8", "c16"], "keepdims": [True], "initial": [3],
                             "where": [mask_of]}, out=True, shapes=ALL, tags=SD)
for n in ("prod", "nanprod"):
    F("numpy." + n, lambda g: [g.a(lo=-3, hi=3)], opt={"axis": AX, "dtype": ["f8"], "keepdims": [True], "initial": [3],
                                                     "where": [mask_of]}, out=True, shapes=ALL, tags={"product"})
for n in ("max", "min", "amax", "amin", "nanmax", "nanmin"):
    F("numpy." + n, A1, opt={"axis": AX, "keepdims": [True], "initial": [3],
                             "where+initial": [lambda g, a: Multi(where=g.mask(a[0].data.shape), initial=2)]},
      out=True, shapes=NE, tags=SD)
for n in ("all", "any"):
    F("numpy." + n, lambda g: [g.a(lo=0, hi=2)], opt={"axis": AX, "keepdims": [True], "where": [mask_of]}, out=True,
      shapes=ALL, tags=IDX)
for n in ("mean", "nanmean"):
    F("numpy." + n, A1, opt={"axis": AX, "dtype": ["f8", "c16"], "keepdims": [True], "where": [mask_of]}, out=True,
      shapes=NE, tags=SD)


def _mean_kw(g, a):
    if a[0].data.ndim == 0:
        raise Skip("0d")
    return Multi(axis=0, mean=Q(np.mean(a[0].data, axis=0, keepdims=True), "A"))


for n in ("std", "nanstd", "var", "nanvar"):
    F("numpy." + n, A1, opt={"axis": AX, "dtype": ["f8"], "ddof": [1], "keepdims": [True], "where": [mask_of],
                             "axis+mean": [_mean_kw], "correction": [1]}, out=True, shapes=NE,
      tags=SD if "std" in n else {"product"})
for n in ("median", "nanmedian"):
    F("numpy." + n, _real, opt={"axis": AX, "overwrite_input": [True], "keepdims": [True]}, out=True, shapes=NE, tags=SD)
for n, qs in (("percentile", [50, [25, 75], 0, 100]), ("quantile", [0.5, [0.25, 0.75], 0.0, 1.0]),
              ("nanpercentile", [50, [10, 90]]), ("nanquantile", [0.5, [0.1, 0.9]])):
    for i, qv in enumerate(qs):
        if i == 0:
            F("numpy." + n, lambda g, qv=qv: _real(g) + [qv],
              opt={"axis": AX, "overwrite_input": [True], "keepdims": [True],
                   "method": ["lower", "higher", "midpoint", "nearest", "inverted_cdf", "median_unbiased", "hazen"],
                   "method+weights": [lambda g, a: Multi(method="inverted_cdf", weights=g.raw(a[0].data.shape, 1, 4, "f8"))],
                   "method+weights+axis": [lambda g, a: Multi(method="inverted_cdf", axis=0,
                                                              weights=g.raw(a[0].data.shape[:1], 1, 4, "f8"))]},
              out=True, shapes=NE, tags=SD)
    F_forms = {f"q#{i}": (lambda g, qv=qv: _real(g) + [qv]) for i, qv in enumerate(qs) if i}
    F_forms["q#arr+axis"] = lambda g, qs=qs: (_real(g) + [np.array(qs[1])], {"axis": 0})
    F_forms["q#unit-input-nan"] = lambda g, qs=qs: [g.with_nan(), qs[0]]
    for form, fb in F_forms.items():
        X("numpy." + n, form, fb, tags=SD, shapes=NE, params={"a", "q", "axis"})
for n in ("argmax", "argmin"):
    F("numpy." + n, A1, opt={"axis": [0, -1, None], "keepdims": [True]}, out=True, shapes=NE, tags=IDX)
for n in ("nanargmax", "nanargmin"):
    F("numpy." + n, lambda g: [g.with_nan()], opt={"axis": [0, -1], "keepdims": [True]}, out=True, shapes=("1d", "2d", "3d"),
      dtypes=("f8", "f4"), tags=IDX, forms={"nonan": (lambda g: [g.a()])})
# nan-aware reductions on data that really contain NaN
for n in ("nansum", "nanmax", "nanmin", "nanmean", "nanmedian", "nanstd", "nanvar", "nanprod", "nancumsum", "nancumprod",
          "nanpercentile", "nanquantile"):
    extra = [0.5] if n in ("nanquantile",) else ([50] if n == "nanpercentile" else [])
    for form, kw in (("nan", {}), ("nan+axis0", {"axis": 0}), ("nan+axis-1", {"axis": -1})):
        X("numpy." + n, form, (lambda g, kw=kw, extra=extra: ([g.with_nan()] + extra, dict(kw))), shapes=("1d", "2d", "3d"),
          dtypes=("f8", "f4"), tags=({"product"} if n in ("nanvar", "nanprod", "nancumprod") else SD), params={"a", "axis"})
for n in ("cumsum", "nancumsum"):
    F("numpy." + n, A1, opt={"axis": [0, -1], "dtype": ["f8", "c16"]}, out=True, shapes=ALL, tags=SD)
for n in ("cumprod", "nancumprod"):
    F("numpy." + n, lambda g: [g.a(lo=-3, hi=3)], opt={"axis": [0, -1], "dtype": ["f8"]}, out=True, shapes=ALL,
      tags={"product"}, forms={"dimensionless": (lambda g: [g.a("1", lo=-3, hi=3)])})
F("numpy.cumulative_sum", lambda g: (g.need("1d", "e1") or [g.a()]), opt={"axis": [0, -1], "dtype": ["f8"], "include_initial": [True]},
  out=True, shapes=("1d", "e1"), tags=SD,
  forms={"nd+axis0": (lambda g: ([g.a()], {"axis": 0})), "nd+axis-1+initial": (lambda g: ([g.a()], {"axis": -1, "include_initial": True}))})
F("numpy.cumulative_prod", lambda g: [g.a(lo=-3, hi=3)], opt={"axis": [0, -1], "dtype": ["f8"], "include_initial": [True]},
  out=True, shapes=("1d", "e1"), tags={"product"}, forms={"dimensionless": (lambda g: [g.a("1", lo=-3, hi=3)])})
F("numpy.ptp", _real, opt={"axis": AX, "keepdims": [True]}, out=True, shapes=NE, tags=SD)
F("numpy.average", A1, opt={"axis": AX, "keepdims": [True], "returned": [True],
                            "weights": [lambda g, a: g.raw(a[0].data.shape, 1, 4, "f8")],
                            "weights+axis": [lambda g, a: Multi(axis=0, weights=g.raw(a[0].data.shape[:1], 1, 4, "f8")),
                                             lambda g, a: Multi(axis=-1, returned=True, weights=Q(g.raw(a[0].data.shape[-1:], 1, 4, "f8"), "B"))]},
  shapes=NE, tags=SD)
F("numpy.count_nonzero", lambda g: [g.a(lo=-1, hi=1)], opt={"axis": AX, "keepdims": [True]}, shapes=ALL, tags=IDX)
F("numpy.trace", A1, opt={"offset": [1, -1], "dtype": ["f8"],
                          "axis1+axis2": [Multi(axis1=1, axis2=0), Multi(axis1=-1, axis2=0, offset=1)]}, out=True,
  shapes=("2d", "sq", "3d", "stk", "e2"), tags=SD)

# elementwise helpers implemented in Python on top of ufuncs --------------------------------------------
F("numpy.around", A1, opt={"decimals": [1, -1, 2]}, out=True, shapes=ALL, tags=SD,
  forms={"halves": (lambda g: ([g.q(g.raw() / 4.0 if g.dtype.kind in "fc" else g.raw())], {"decimals": 1})),
         "halves0": (lambda g: [g.q(g.raw() + (0.5 if g.dtype.kind in "fc" else 0))]),
         "large": (lambda g: ([g.q(g.raw() * 17)], {"decimals": -1}))})
F("numpy.round", A1, opt={"decimals": [1, -1, 2]}, out=True, shapes=ALL, tags=SD,
  forms={"halves": (lambda g: ([g.q(g.raw() / 4.0 if g.dtype.kind in "fc" else g.raw())], {"decimals": 1})),
         "large": (lambda g: ([g.q(g.raw() * 17)], {"decimals": -1}))})
F("numpy.fix", lambda g: (g.real_only() or [g.q(g.raw() / 4.0 if g.dtype.kind == "f" else g.raw())]), out=True, shapes=ALL, tags=SD)


def _clipargs(g):
    g.real_only()
    return [g.a(), g.q(np.asarray(-3).astype(g.dtype) if g.dtype.kind != "u" else np.asarray(2, g.dtype)), g.q(np.asarray(4, g.dtype))]


F("numpy.clip", _clipargs, out=True, shapes=ALL, tags=SD,
  forms={"bare-bounds": (lambda g: (g.real_only() or [g.a(), 1, 4])),
         "kw:min+max": (lambda g: ([_clipargs(g)[0]], {"min": g.q(np.asarray(1, g.dtype)), "max": g.q(np.asarray(5, g.dtype))})),
         "kw:a_min+a_max": (lambda g: ([_clipargs(g)[0]], {"a_min": g.q(np.asarray(1, g.dtype)), "a_max": g.q(np.asarray(5, g.dtype))})),
         "min-only": (lambda g: _clipargs(g)[:2] + [None]),
         "max-only": (lambda g: [_clipargs(g)[0], None, g.q(np.asarray(2, g.dtype))]),
         "array-bounds": (lambda g: (lambda a: [a, g.like(a, lo=-6, hi=0) if g.dtype.kind != "u" else g.like(a, lo=0, hi=2), g.like(a, lo=3, hi=6)])(_clipargs(g)[0])),
         "swapped-bounds": (lambda g: (g.real_only() or [g.a(), g.q(np.asarray(5, g.dtype)), g.q(np.asarray(1, g.dtype))]))})
F("numpy.nan_to_num", lambda g: [g.with_nan()], opt={"copy": [False], "nan": [7.0], "posinf": [5.0], "neginf": [-5.0]},
  shapes=("1d", "2d", "3d"), dtypes=("f8", "c16", "f4"), tags=SD,
  forms={"inf": (lambda g: ([g.q(np.where(g.mask(), np.inf, -np.inf).astype(g.dtype))], {"posinf": 9.0, "neginf": -9.0})),
         "finite": (lambda g: [g.a()])})
for n in ("real", "imag"):
    F("numpy." + n, A1, shapes=ALL, tags=SD | {"view"})
F("numpy.angle", A1, opt={"deg": [True]}, shapes=ALL)
F("numpy.real_if_close", lambda g: [g.q(g.raw().real.astype(g.dtype))], opt={"tol": [1000]}, shapes=ALL, tags=SD,
  forms={"not-close": (lambda g: [g.a()])})
for n in ("iscomplex", "isreal"):
    F("numpy." + n, A1, shapes=ALL, tags=IDX)
for n in ("iscomplexobj", "isrealobj", "ndim", "shape"):
    F("numpy." + n, A1, shapes=ALL + ("e2",), tags=IDX)
F("numpy.size", A1, opt={"axis": [0, -1]}, shapes=ALL + ("e2",), tags=IDX)
for n in ("isneginf", "isposinf"):
    F("numpy." + n, lambda g: (g.real_only() or [g.q(np.where(g.mask(), np.inf, -np.inf).astype(g.dtype) if g.dtype.kind == "f" else g.raw())]),
      out=True, shapes=("1d", "2d", "3d"), tags=IDX)
F("numpy.i0", lambda g: (g.real_only() or [g.a(lo=-4, hi=4)]), shapes=("1d", "2d", "0d"))
F("numpy.sinc", lambda g: [g.q(g.raw() / 4.0 if g.dtype.kind in "fc" else g.raw())], shapes=ALL)
F("numpy.astype", lambda g: [g.a(), "f8"], opt={"copy": [False], "device": ["cpu"]}, shapes=ALL, tags=SD,
  forms={"to-int": (lambda g: (g.real_only() or [g.a(), "i4"])), "to-complex": (lambda g: [g.a(), "c16"]), "to-f4": (lambda g: (g.real_only() or [g.a(), np.float32]))})
F("numpy.unwrap", lambda g: (g.real_only() or [g.q(np.cumsum(g.raw(lo=-5, hi=5), axis=-1) if g.dims() else g.raw())]),
  opt={"discont": [2.0], "axis": [0], "period": [4.0, 360]}, shapes=("1d", "2d", "3d"), tags=SD)
