"""Plans of HISTORIES for C19: one unit symbol with several definitions (plain data, JSON-able).

A history is a dict that says how one symbol S comes to mean different things (variants = roles):

    scenario   how the definitions coexist
               two-registries       one user registry per variant (one registry per dataset)
               json-registry        the same, the first-called variant's registry went through to_json/from_json
               default-vs-user      the first variant is added to the default registry, the others to user registries
               readd                one registry; S is removed and added again with the next definition; the values of
                                    the earlier definition were created before the edit and stay alive
               readd-between-calls  the same, but each edit happens only when the first value of the next variant is needed,
                                    i.e. between helper calls
    roles      order in which the variants are defined (matters for readd)
    variants   role -> [dimension name, scale to SI-coherent base units]
    steps      the helper calls, in the order in which one process makes them

The same plan is executed twice by vf.props.c19: all steps in order in one process (the history), and every step alone in a
process that has executed nothing else (vf.monitors.c12_coldserver) -- nothing here calls unyt.
"""

SCENARIOS = ("two-registries", "readd", "json-registry", "readd-between-calls", "default-vs-user")
# realistic user/dataset unit names; none of them (nor a prefix reading of them) exists in the default registry - the worker
# re-checks that with the reference name resolver and with unyt itself and drops a clashing symbol
SYMBOLS = ("code_magnetic", "code_length", "code_time", "code_mass", "code_velocity", "code_density", "code_pressure",
           "sim_tick", "sim_stride", "user_quantum", "grid_span", "code_specific_energy")


def symbol(k):
    base = SYMBOLS[k % len(SYMBOLS)]
    n = k // len(SYMBOLS)
    return base if n == 0 else f"{base}_{n + 1}"


def em_counterparts(names):
    out = {}
    for n in names:
        for a, b in (("_cgs", "_mks"), ("_mks", "_cgs")):
            if n.endswith(a) and n[:-4] + b in names:
                out[n] = n[:-4] + b
    return out


def em_related(v, w):
    """SI and Gaussian electromagnetic vectors: unyt converts between such units by design, so they are neither commensurable
    nor incommensurable operands of the closeness helpers (same decision as for the pools)"""
    def half(x):
        return any(e.denominator != 1 for e in x)
    return (v[5] != 0 and half(w)) or (w[5] != 0 and half(v))


CLASSIC = {"length": "time", "velocity": "length", "energy": "mass", "time": "frequency", "mass": "density", "area": "length",
           "pressure": "energy", "dimensionless": "length", "angle": "dimensionless", "temperature": "energy"}
SCALES = (3.0, 0.25, 1.0, 8.0, 1e-4, 1.5, 2.0e3)
# the other checked parameter / the other returned values: ordinary units of the default registry
PARTNERS = (("time", "s"), ("length", "km"), ("mass", "g"), ("dimensionless", None), ("velocity", "m/s"))
ORDERS = (("A", "B", "A"), ("B", "A", "B"))


def deco_histories(r, names, vecs, tforms, ret_templates, argforms, k0, wide):
    """names: the dimension names this batch owns (each becomes variant A of its histories); vecs: name -> vector for ALL
    names; tforms: {accepts template: [call forms]}; -> list of history dicts.
    For every name: partner dimension B (the Gaussian/SI counterpart, a classic confusion, or any other named dimension) x
    stated dimension (A or B) x which variant is called first (A or B); each combination gets a symbol of its own so that the
    first call for this symbol really is the first one.  wide: also both sharing modes for every combination."""
    allnames = sorted(vecs)
    em = em_counterparts(allnames)
    tnames = sorted(tforms)
    out = []
    k = k0
    for name in names:
        cands = []
        if name in em:
            cands.append(em[name])
        if name in CLASSIC and vecs[CLASSIC[name]] != vecs[name]:
            cands.append(CLASSIC[name])
        while len(cands) < (3 if wide else 1) or (not wide and r.random() < 0.35 and len(cands) < 2):
            o = r.choice(allnames)
            if vecs[o] != vecs[name] and o not in cands:
                cands.append(o)
        if not wide:
            # the Gaussian/SI counterpart always; otherwise one partner in rotation, sometimes a second one
            first = cands[0] if name in em else cands[k % len(cands)]
            rest = [c for c in cands if c != first]
            cands = [first] + (rest[:1] if rest and r.random() < 0.4 else [])
        for bname in cands:
            for stated in ("A", "B"):
                for order in ORDERS:
                    for sharing in (("same-function", "new-function") if wide else (("same-function", "new-function")[k % 2],)):
                        tname = tnames[k % len(tnames)]
                        forms = tforms[tname]
                        rt = ret_templates[k % len(ret_templates)]
                        pn, pu = PARTNERS[k % len(PARTNERS)]
                        scen = SCENARIOS[k % len(SCENARIOS)]
                        roles = [order[0], order[1]] if scen in ("default-vs-user", "json-registry") else ["A", "B"]
                        h = {"kind": "deco", "sym": symbol(k), "scenario": scen, "roles": roles,
                             "variants": {"A": [name, SCALES[k % len(SCALES)]], "B": [bname, SCALES[(k + 3) % len(SCALES)]]},
                             "stated": stated, "order": "".join(order), "sharing": sharing, "side": "ab"[(k // 2) % 2],
                             "how": "attr" if r.random() < 0.7 else "composite", "partner": [pn, pu],
                             "s_last": bool(k % 3 == 0), "steps": []}
                        for i, role in enumerate(order):
                            h["steps"].append({"h": "accepts", "tname": tname, "form": forms[(k + i) % len(forms)], "role": role,
                                               "argform": r.choice(argforms)})
                            h["steps"].append({"h": "returns", "tname": rt, "role": role, "argform": r.choice(argforms)})
                        out.append(h)
                        k += 1
        # the symbol of this name's first history is met again later by other functions with the other stated dimension
        # (a long, mixed history)
        if out:
            h0 = next(h for h in out[::-1] if h["variants"]["A"][0] == name and h["stated"] == "A" and h["order"] == "ABA")
            other = "B"
            for i, role in enumerate(r.sample(["A", "B", "A", "B"], 4)):
                tname = tnames[(k + i) % len(tnames)]
                h0["steps"].append({"h": "accepts", "tname": tname, "form": tforms[tname][(k + i) % len(tforms[tname])], "role": role,
                                    "argform": r.choice(argforms), "stated": other if i < 2 else "A", "sharing": "new-function",
                                    "revisit": True})
    return out


RD = (1.0, 2.5, -40.0)
C1 = (3.0, 1.0, 0.25, 8.0, 1.5)              # 1.0: S (variant A) is the partner unit under another name
C2 = (2.0, 1.0 + 1.0 / 8192, 0.5, 1.25)      # the second definition of the same dimension: another scale (one of them by 1.2e-4)
PERMS = (("A", "A2", "B"), ("A2", "A", "B"), ("B", "A", "A2"), ("A", "B", "A2"), ("B", "A2", "A"), ("A2", "B", "A"))


def close_histories(r, fams, vecs, pools, close_fns, eq_fns, k0, wide):
    """fams: families of this batch; pools: fam -> [[unit string, scale, spelling class], ...] (ordinary units of the family).
    Variants of S: A (the family's dimension, scale a1), A2 (same dimension, scale a1*c2), B (another dimension), At (a twin of
    A in a registry of its own).  The partner operand P is written in an ordinary unit and equals the A-reading physically."""
    allnames = sorted(vecs)
    out = []
    k = k0
    for fam in fams:
        pool = pools.get(fam) or []
        if not pool:
            continue
        for rep in range(2 if wide else 1):
            d = vecs[fam]
            bn = None
            for _ in range(50):
                o = r.choice(allnames)
                if vecs[o] != d and not em_related(vecs[o], d) and not em_related(d, vecs[o]):
                    bn = o
                    break
            if bn is None:
                continue
            ps, pa, pcls = pool[(k + rep) % len(pool)]
            c1, c2 = C1[k % len(C1)], C2[(k // 2) % len(C2)]
            a1 = pa * c1
            a2 = a1 * c2
            scen = SCENARIOS[k % len(SCENARIOS)]
            perm = PERMS[k % len(PERMS)]
            roles = list(perm) if scen in ("default-vs-user", "json-registry") else ["A", "A2", "B"]
            h = {"kind": "close", "sym": symbol(k), "scenario": scen, "roles": roles, "fam": fam,
                 "variants": {"A": [fam, a1], "A2": [fam, a2], "B": [bn, 5.0], "At": [fam, a1]},
                 "partner": [ps, pcls], "order": "-".join(perm), "steps": []}
            rd = list(RD)
            prd = [x * c1 for x in rd]                  # the A-reading written in the partner unit
            a2rd = [x / c2 for x in rd]                 # the A-reading written in the A2 definition
            seq = list(perm) + [perm[0]]
            fns = list(close_fns) + list(eq_fns)
            for j, role in enumerate(seq):
                for fi, fn in enumerate(fns):
                    x, y = ["S", role, rd], ["P", prd]
                    if (k + j + fi) % 2:
                        x, y = y, x
                    h["steps"].append({"h": "equal" if fn in eq_fns else "close", "fn": fn, "x": x, "y": y, "profile": "symbol-vs-ordinary-unit"})
            cross = [(["S", "A", rd], ["S", "A2", rd], "same-symbol-other-scale"), (["S", "A", rd], ["S", "B", rd], "same-symbol-other-dimension"),
                     (["S", "A", rd], ["S", "At", rd], "same-symbol-same-definition"), (["S", "A", rd], ["S", "A2", a2rd], "same-symbol-other-scale-equal-values"),
                     (["S", "B", rd], ["S", "A", rd], "same-symbol-other-dimension"), (["S", "A2", rd], ["S", "At", rd], "same-symbol-other-scale")]
            r.shuffle(cross)
            for x, y, prof in cross:
                for fn in fns:
                    h["steps"].append({"h": "equal" if fn in eq_fns else "close", "fn": fn, "x": x, "y": y, "profile": prof})
            # atol written in S: the operands are ordinary and lie between the two tolerances t*a1 and t*a2
            t = 0.5
            gap = t * c1 * (c2 ** 0.5)                  # in partner-unit readings: t*a1/pa * sqrt(c2)
            x = ["P", prd]
            y = ["P", [v + gap for v in prd]]
            for role in seq[:3]:
                for fn in close_fns:
                    h["steps"].append({"h": "close", "fn": fn, "x": x, "y": y, "atol": [role, t], "profile": "atol-in-symbol"})
            out.append(h)
            k += 1
    return out
