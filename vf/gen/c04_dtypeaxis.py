"""C04 workload dimension: the storage type (dtype) of program leaves, in multiplicative programs whose units cancel partly.

Pure data, never imports unyt.  Programs have the format of vf/gen/c04_programs.py with additive leaf fields:

  "dtypes": [tag per variant]      tag in DT below ("i1".."u8", "f2", "f4", "f8", "c8", "c16", "pyint", "pyfloat")
  "vvals":  [flat list | None per variant]   explicit numbers of that variant (integer-preserving re-expression); None = the
                                   numbers of variant 0 re-expressed by the ratio of the observed unit scales (floats)
  "ctor":   "class" | "unitmul"    unyt_array(values, unit) / unyt_quantity(value, unit)   or   values * Unit
and an additive operation-node field "cancel": structural class of the bare coefficient the unit product leaves behind
("frac" <1, "nonint" >1 and not an integer, "int", "huge" >= 1e6, "none" = control without cancellation).

Why a dimension of its own: when commensurable factors of a product/quotient unit cancel (cm * 1/m, ms*Hz, inch/cm,
g/cm**3 * m**3, a leaf written in km/m) unyt multiplies the raw result by a bare coefficient.  Whether that step gives the
right physical value depends on the dtype the raw result is held in (integer results must not truncate 0.01 or 2.54, narrow
integers must not overflow on 1e6), which the float64 programs of the main generator never exercise.

Variants of one program (all denote the same physical operands):
  0  leaves in the drawn dtypes/constructors and units
  1  the same units, every leaf as float64 (complex128 for complex leaves)            -> "as float must not change the result"
  2  every quantity leaf re-expressed in another commensurable unit; an integer leaf stays in its integer dtype when the
     ratio of the two units is an integer and everything still fits (3 m -> 300 cm), otherwise it becomes float64
  3  (real pool) every quantity leaf in the SI-coherent unit of its dimension as float64; (dyadic pool) another re-expression
"""
import re
import numpy as np
from vf.ref import dims, siinterp
from vf.gen import c04_programs as G
from vf.gen import dyadic

# tag -> (numpy dtype name or None for Python literals, class used for counters)
DT = {
    "i1": ("int8", "int"), "i2": ("int16", "int"), "i4": ("int32", "int"), "i8": ("int64", "int"),
    "u1": ("uint8", "uint"), "u2": ("uint16", "uint"), "u4": ("uint32", "uint"), "u8": ("uint64", "uint"),
    "f2": ("float16", "narrowfloat"), "f4": ("float32", "narrowfloat"), "f8": ("float64", "float64"),
    "c8": ("complex64", "complex"), "c16": ("complex128", "complex"),
    "pyint": (None, "pyint"), "pyfloat": (None, "float64"),
}
CLASSES = ["int", "uint", "narrowfloat", "complex", "pyint"]
INTLIKE = {t for t, (n, c) in DT.items() if c in ("int", "uint", "pyint")}
UNSIGNED = {"u1", "u2", "u4", "u8"}
COMPLEX = {"c8", "c16"}
EPS_OF = {"f2": 2.0 ** -10, "f4": 2.0 ** -23, "c8": 2.0 ** -23}
ALL_TAGS = ["i1", "i2", "i4", "i8", "u1", "u2", "u4", "u8", "f2", "f4", "c8", "c16", "pyint", "pyfloat", "f8"]
NONF8 = [t for t in ALL_TAGS if t not in ("f8", "pyfloat")]
DY_TAGS = [t for t in ALL_TAGS if t != "f2"]      # float16 cannot hold 2**-24 times anything as a normal number


def int_limit(tag):
    if tag == "pyint":
        return np.iinfo(np.int64).max
    return int(np.iinfo(np.dtype(DT[tag][0])).max)


def as_float_tag(tag):
    return "c16" if tag in COMPLEX else "f8"


# ------------------------------------------------------------------------------------------------ unit pairs
# (unit of a, unit of b, class of the coefficient left by a*b)
MUL_REAL = [
    ("cm", "1/m", "frac"), ("mm", "1/km", "frac"), ("ms", "Hz", "frac"), ("us", "kHz", "frac"), ("m", "1/km", "frac"),
    ("g", "1/kg", "frac"), ("erg", "1/J", "frac"), ("ft", "1/m", "frac"), ("lb", "1/kg", "frac"), ("degree", "1/rad", "frac"),
    ("cm*s", "1/m", "frac"), ("mm**2", "1/m", "frac"), ("Pa", "1/bar", "frac"),
    ("inch", "1/cm", "nonint"), ("mile", "1/km", "nonint"), ("cal", "1/J", "nonint"), ("yd", "1/ft", "int"),
    ("m", "1/cm", "int"), ("km", "1/m", "int"), ("m**2", "1/cm", "int"), ("min", "Hz", "int"), ("hr", "1/min", "int"),
    ("kg/m**3", "cm**3", "frac"), ("g/cm**3", "m**3", "huge"), ("km", "1/mm", "huge"), ("s", "1/ns", "huge"),
    ("J", "1/erg", "huge"), ("kg", "1/ug", "huge"),
    ("cm", "m", "none"), ("km", "s", "none"), ("cm", "1/s", "none"),
]
# a / b
DIV_REAL = [
    ("cm", "m", "frac"), ("mm", "km", "frac"), ("ms", "s", "frac"), ("g", "kg", "frac"), ("Hz", "kHz", "frac"),
    ("inch", "cm", "nonint"), ("mile", "km", "nonint"), ("min", "s", "int"), ("m**2", "cm", "int"),
    ("g/cm**3", "kg/m**3", "int"), ("km", "mm", "huge"), ("J", "erg", "huge"), ("cm", "s", "none"),
]
# leaves whose own unit is a non-reduced compound: the coefficient appears as soon as they are multiplied by anything
SELF_REAL = [("cm/m", "frac"), ("mm/km", "frac"), ("ms*Hz", "frac"), ("cm*s/m", "frac"), ("inch/cm", "nonint"), ("km/m", "int"),
             ("m**2/cm", "int"), ("km/mm", "huge")]
# partners of a self-cancelling leaf: (unit or None for a bare number)
SELF_PARTNERS_REAL = [None, "s", "dimensionless", "1/m", "percent"]
# multiply.reduce(a) * b
REDUCE_REAL = [("cm", "1/m**3", "frac"), ("ms", "Hz**3", "frac"), ("inch", "1/cm**3", "nonint"), ("m", "1/cm**3", "huge")]

MUL_DY = [
    ("Lm", "1/L1", "frac"), ("L1", "1/L4096", "frac"), ("Tm", "1/T4096", "frac"), ("Lm*T1", "1/L1", "frac"), ("M1/L1**3", "Lm**3", "frac"),
    ("L4096", "1/L1", "int"), ("L1", "1/Lm", "int"), ("L4096**2", "1/L1", "int"), ("M1/Lm**3", "L1**3", "huge"),
    ("T4096", "1/Tm", "huge"), ("Lm", "L1", "none"), ("L1", "T1", "none"),
]
DIV_DY = [("Lm", "L1", "frac"), ("Tm", "T4096", "frac"), ("L4096", "L1", "int"), ("L4096**2", "Lm", "int"), ("T4096", "Tm", "huge"),
          ("L1", "T1", "none")]
SELF_DY = [("Lm/L1", "frac"), ("Tm*L1/T1", "frac"), ("L4096/L1", "int"), ("T4096/Tm", "huge")]
SELF_PARTNERS_DY = [None, "T1", "dimensionless", "1/L1", "D4096"]
REDUCE_DY = [("Lm", "1/L1**3", "frac"), ("L4096", "1/L1**3", "huge")]


_REF = {}


def ref(pool, expr, reg):
    """pool.ref(expr, reg) = (scale, dimension vector) from the reference tables, memoised (pure function of its arguments)"""
    k = (pool.name, expr, reg)
    v = _REF.get(k)
    if v is None:
        v = _REF[k] = pool.ref(expr, reg)
    return v


def tables(pool):
    if pool.exact:
        return MUL_DY, DIV_DY, SELF_DY, SELF_PARTNERS_DY, REDUCE_DY
    return MUL_REAL, DIV_REAL, SELF_REAL, SELF_PARTNERS_REAL, REDUCE_REAL


# ------------------------------------------------------------------------------------------------ re-expression of a unit
_IDENT = re.compile(r"[^\W\d]\w*")
_NOT_UNITS = {"sqrt", "dimensionless"}
_SYMFAM = {}
for _k, _v in G.REAL_FAMILIES.items():
    for _e in _v:
        if _e.isidentifier():
            _SYMFAM.setdefault(_e, _k)
_SI_ATOM = {"M": "kg", "L": "m", "T": "s", "K": "K", "A": "rad", "I": "A"}


def _family(tok, pool, reg):
    """other spellings of one unit symbol"""
    if pool.exact:
        table = pool.table(reg)
        if tok not in table:
            return []
        return [s for s in dyadic.atoms_of(table[tok][0], table) if s != tok]
    fam = _SYMFAM.get(tok)
    if fam is None:
        return []
    return [e if e.isidentifier() else "(" + e + ")" for e in G.REAL_FAMILIES[fam] if e != tok]


def alternatives(expr, reg, pool, rnd, n=6):
    """up to n other expressions of the same dimension: one unit symbol of expr replaced by another of its family"""
    if expr in ("dimensionless", ""):
        return []
    s0, d0 = ref(pool, expr, reg)
    toks = [m for m in _IDENT.finditer(expr) if m.group(0) not in _NOT_UNITS]
    out = []
    for _ in range(4 * n):
        if not toks:
            break
        m = rnd.choice(toks)
        fam = _family(m.group(0), pool, reg)
        if not fam:
            continue
        new = expr[:m.start()] + rnd.choice(fam) + expr[m.end():]
        if new in out or new == expr:
            continue
        try:
            s1, d1 = ref(pool, new, reg)
        except Exception:
            continue
        if d1 != d0 or s1 == s0:
            continue
        out.append(new)
        if len(out) >= n:
            break
    return out


def si_expr(dim):
    """SI-coherent unit expression of a dimension vector (kg, m, s, K, rad, A); None outside these"""
    num, den = [], []
    for i, x in enumerate(dim):
        if x != 0 and i not in G._IDX.values():
            return None
    for letter in ("M", "L", "T", "K", "A", "I"):
        e = dim[G._IDX[letter]]
        if e == 0:
            continue
        (num if e > 0 else den).append(dyadic.fmt_pow(_SI_ATOM[letter], abs(e)))
    if not num and not den:
        return "dimensionless"
    s = "*".join(num) if num else "1"
    if den:
        s += "/" + ("(" + "*".join(den) + ")" if len(den) > 1 else den[0])
    return s


# ------------------------------------------------------------------------------------------------ builder
INT_PRESERVING = {"multiply", "matmul", "dot", "vecdot", "inner", "vdot", "outerprod", "square", "multiply.reduce", "add.reduce", "add",
                  "subtract", "negative", "power"}
SMALL_INT = [1, 2, 3]
F2_HI, F2_LO = 30000.0, 1e-3      # float16: normal numbers 6.1e-5 .. 65504
F4_HI, F4_LO = 1e30, 1e-30        # float32 / complex64: normal numbers 1.2e-38 .. 3.4e38
F2_VALS = [1, 2, 3, 4, 5, 6, 7, 9, 10, 12, 0.5, 1.5, 2.5, 0.25, 8, 11]
INTS = [1, 2, 3, 4, 5, 6, 7, 9, 10, 12, 8, 11, 2, 3]


class Builder:
    def __init__(self, rnd, pool, nvar):
        self.rnd, self.pool, self.nvar = rnd, pool, nvar
        self.I = siinterp.Interp(pool.exact)
        self.nodes, self.vals = [], []

    # -- leaves
    def _numbers(self, tag, shape):
        r = self.rnd
        n = int(np.prod(shape)) if shape else 1
        if tag in INTLIKE or self.pool.exact:
            src = SMALL_INT if tag in ("i1", "u1") else INTS
            out = [float(r.choice(src)) for _ in range(n)]
        else:
            out = [float(r.choice(F2_VALS if tag == "f2" else G.VALS)) for _ in range(n)]
        if tag not in UNSIGNED:
            out = [-v if r.random() < 0.15 else v for v in out]
        return out

    def leaf(self, unit, reg, shape, tag, ctor="class"):
        """unit None = a bare number (ndarray / Python scalar of that dtype)"""
        r, pool, nvar = self.rnd, self.pool, self.nvar
        shape = tuple(shape)
        vals = self._numbers(tag, shape)
        imag = self._numbers("i8" if pool.exact else "f8", shape) if tag in COMPLEX else None
        ft = as_float_tag(tag)
        arr = np.array(vals).reshape(shape)
        if imag is not None:
            arr = arr + 1j * np.array(imag).reshape(shape)
        if unit is None:
            node = {"op": "leaf", "kind": "bare", "shape": list(shape), "vals": vals, "reg": None, "units": None,
                    "dtypes": [tag] + [ft] * (nvar - 1), "ctor": "class"}
            if imag is not None:
                node["imag"] = imag
            v = siinterp.leaf(arr, 1.0, dims.ZERO)
            return self._push(node, v)
        s0, dim = ref(pool, unit, reg)
        units, dts, vvals = [unit, unit], [tag, ft], [None, None]
        alts = alternatives(unit, reg, pool, r)
        for j in range(2, nvar):
            if j == 3 and not pool.exact:
                e = si_expr(dim)
                if e is not None and e != unit:
                    units.append(e); dts.append(ft); vvals.append(None)
                    continue
            if not alts:
                units.append(unit); dts.append(ft); vvals.append(None)
                continue
            choice = None
            if tag in INTLIKE and imag is None:
                # prefer an alternative with an integer ratio: the leaf can stay in its integer dtype
                good = []
                for a in alts:
                    ratio = s0 / ref(pool, a, reg)[0]
                    k = round(ratio)
                    if 2 <= k <= 10 ** 6 and abs(ratio - k) <= 4 * siinterp.EPS * k and max(abs(x) for x in vals) * k <= int_limit(tag):
                        good.append((a, k))
                if good and r.random() < 0.7:
                    a, k = r.choice(good)
                    choice = (a, tag, [float(int(x) * k) for x in vals])
            if choice is None:
                keep = tag if tag in ("f4", "c8", "c16") else ft      # float32 can hold a re-expressed value, integers and float16 cannot
                choice = (r.choice(alts), keep, None)
            units.append(choice[0]); dts.append(choice[1]); vvals.append(choice[2])
        node = {"op": "leaf", "kind": "q", "shape": list(shape), "vals": vals, "reg": reg, "units": units, "dtypes": dts, "vvals": vvals,
                "ctor": ctor}
        if imag is not None:
            node["imag"] = imag
        v = siinterp.leaf(arr, s0, dim, 0.0 if pool.exact else 3 * siinterp.EPS)
        return self._push(node, v)

    def _push(self, node, val):
        self.nodes.append(node)
        self.vals.append(val)
        return len(self.nodes) - 1

    # -- operations
    def op(self, op, form, args, cancel=None, **params):
        node = {"op": op, "form": form, "args": list(args)}
        node.update(params)
        if cancel is not None:
            node["cancel"] = cancel
        try:
            val = G.ref_eval(self.I, node, self.vals)
        except (siinterp.RefError, ValueError, IndexError, TypeError):
            return None
        if isinstance(val, tuple) or not G._in_range(val):
            return None
        node["shape"] = list(val.shape)
        return self._push(node, val)

    # -- range: no intermediate of a variant may leave the narrowest integer dtype among its leaves (NumPy wraps silently), and
    #    with a float16 leaf nothing may leave float16's normal range; bounds are computed on absolute raw numbers
    def _fits(self, j):
        lim = None
        f2 = False          # a narrow float among the leaves: every intermediate has to stay inside its comfortable range
        flo = None
        hi, lo, isint = {}, {}, {}
        for i, nd in enumerate(self.nodes):
            if nd["op"] != "leaf":
                continue
            tag = nd["dtypes"][j]
            vv = nd.get("vvals")
            v = vv[j] if vv and vv[j] is not None else nd["vals"]
            ratio = 1.0
            if nd["kind"] == "q" and not (vv and vv[j] is not None) and nd["units"][j] != nd["units"][0]:
                ratio = ref(self.pool, nd["units"][0], nd["reg"])[0] / ref(self.pool, nd["units"][j], nd["reg"])[0]
            b = np.abs(np.array(v, dtype=float)).reshape(tuple(nd["shape"])) * ratio
            lo[i] = b.copy()
            if nd.get("imag") is not None:
                b = b + np.abs(np.array(nd["imag"], dtype=float)).reshape(tuple(nd["shape"])) * ratio
            hi[i] = b
            isint[i] = tag in INTLIKE
            if isint[i]:
                lim = int_limit(tag) if lim is None else min(lim, int_limit(tag))
                if b.size and b.max() > int_limit(tag):
                    return False
            if tag in EPS_OF:
                f2 = True
                fhi, fl = (F2_HI, F2_LO) if tag == "f2" else (F4_HI, F4_LO)
                lim = fhi if lim is None else min(lim, fhi)
                flo = fl if flo is None else max(flo, fl)
                if b.size and (b.max() > fhi or (lo[i][lo[i] > 0].size and lo[i][lo[i] > 0].min() < fl)):
                    return False
        if lim is None:
            return True
        for i, nd in enumerate(self.nodes):
            if nd["op"] == "leaf":
                continue
            a = [hi[k] for k in nd["args"]]
            l = [lo[k] for k in nd["args"]]
            op = nd["op"]
            isint[i] = all(isint[k] for k in nd["args"]) and op in INT_PRESERVING
            low = None
            with np.errstate(all="ignore"):
                if op in ("multiply", "divide"):
                    x, y, lx, ly = a[0], a[1], l[0], l[1]
                    if nd["form"] == "outer":
                        x = x.reshape(x.shape + (1,) * y.ndim)
                        lx = lx.reshape(lx.shape + (1,) * ly.ndim)
                    if op == "multiply":
                        b, low = x * y, lx * ly
                    else:
                        b, low = x / ly, lx / y
                elif op in ("add", "subtract"):
                    b = a[0] + a[1]
                elif op in ("matmul", "dot"):
                    b = np.asarray(np.dot(a[0], a[1]))
                elif op == "vecdot":
                    b = np.asarray(np.sum(a[0] * a[1], axis=-1))
                elif op == "inner":
                    b = np.asarray(np.inner(a[0], a[1]))
                elif op == "vdot":
                    b = np.asarray(np.vdot(a[0], a[1]))
                elif op == "outerprod":
                    b = np.asarray(np.outer(a[0], a[1]))
                elif op == "square":
                    b, low = a[0] * a[0], l[0] * l[0]
                elif op == "power":
                    b, low = a[0] ** abs(float(nd["p"])), l[0] ** abs(float(nd["p"]))
                elif op == "negative":
                    b, low = a[0], l[0]
                elif op == "multiply.reduce":
                    ax = nd["axis"]
                    ax = tuple(ax) if isinstance(ax, list) else ax
                    b, low = np.asarray(np.multiply.reduce(a[0], axis=ax)), np.asarray(np.multiply.reduce(l[0], axis=ax))
                elif op == "add.reduce":
                    ax = nd["axis"]
                    b = np.asarray(np.add.reduce(a[0], axis=tuple(ax) if isinstance(ax, list) else ax))
                else:
                    return False
            if f2 and op in ("matmul", "dot", "vecdot", "inner", "vdot", "outerprod") and l[0].size and l[1].size \
                    and 0 < l[0].min() * l[1].min() < flo:
                return False          # the terms of the sum would be subnormal in the narrow dtype
            hi[i] = np.asarray(b, dtype=float)
            lo[i] = np.asarray(low, dtype=float) if low is not None else np.zeros(hi[i].shape)
            if (isint[i] or f2) and hi[i].size and not (np.nanmax(hi[i]) <= lim):
                return False
            if f2 and low is not None and lo[i].size and lo[i].min() < flo:
                return False
        return True

    def program(self, family):
        if not any(nd["op"] != "leaf" for nd in self.nodes):
            return None
        if not self._fits(0):
            return None
        for j in range(1, self.nvar):
            if not self._fits(j):
                # the integer-preserving re-expression does not fit: that variant falls back to floats
                for nd in self.nodes:
                    if nd["op"] == "leaf" and (nd["dtypes"][j] in INTLIKE or nd["dtypes"][j] in EPS_OF):
                        nd["dtypes"][j] = as_float_tag(nd["dtypes"][j])
                        if nd["kind"] == "q" and nd["vvals"][j] is not None:
                            nd["vvals"][j] = None
        tags0 = sorted({nd["dtypes"][0] for nd in self.nodes if nd["op"] == "leaf"})
        return {"pool": self.pool.name, "nvar": self.nvar, "nodes": self.nodes, "family": family,
                "dtclasses": sorted({DT[t][1] for t in tags0})}


def rate_ulps(prog, j):
    """rounding charged per operation of variant j, in float64 ulps: the precision of the narrowest float among its leaves"""
    e = siinterp.EPS
    for nd in prog["nodes"]:
        if nd["op"] == "leaf":
            e = max(e, EPS_OF.get(nd["dtypes"][j], siinterp.EPS))
    return e / siinterp.EPS


# ------------------------------------------------------------------------------------------------ enumerated matrix
def _combos(tier, pool):
    tags = DY_TAGS if pool.exact else ALL_TAGS
    if tier != "quick":
        return [(a, b) for a in tags for b in tags if (a, b) != ("f8", "f8")]
    out = []
    for d in tags:
        if d in ("f8", "pyfloat"):
            continue
        out += [(d, d), (d, "f8"), ("f8", d)]
    out += [("i4", "f4"), ("i2", "f2"), ("u1", "i1"), ("i8", "u8"), ("f4", "c8"), ("pyint", "i4"), ("i2", "pyint"), ("pyint", "pyfloat"),
            ("u4", "pyint"), ("i1", "i8"), ("f2", "pyint"), ("c16", "pyint")]
    return [(a, b) for a, b in out if a in tags and b in tags]


def _mul_forms(tier):
    q = tier == "quick"
    el = [((3,), (3,)), ((), (3,)), ((), ())] + ([] if q else [((3,), ()), ((2, 3), (3,))])
    mm = [((3,), (3,)), ((2, 3), (3, 2))] + ([] if q else [((2, 3), (3,)), ((3,), (3, 2))])
    return [("multiply", "op", el), ("multiply", "call", el[:2] if q else el), ("multiply", "outer", [((3,), (2,))]),
            ("matmul", "op", mm), ("matmul", "np", mm[:1] if q else mm), ("vecdot", "np", [((3,), (3,)), ((2, 3), (3,))][:1 if q else 2]),
            ("dot", "np", [((3,), (3,))]), ("dot", "method", [((2, 3), (3, 2))]), ("inner", "np", [((3,), (2, 3))]),
            ("vdot", "np", [((3,), (3,))]), ("outerprod", "np", [((3,), (2,))])]


def _div_forms(tier):
    q = tier == "quick"
    el = [((3,), (3,)), ((), (3,)), ((), ())] + ([] if q else [((3,), ())])
    return [("divide", "op", el), ("divide", "call", el[:2]), ("divide", "outer", [((3,), (2,))])]


def matrix_cells(pool, tier):
    """the enumerated cells (plain tuples) of the depth-1 dtype matrix; deterministic order"""
    MUL, DIV, SELF, PARTNERS, RED = tables(pool)
    combos = _combos(tier, pool)
    q = tier == "quick"
    cells = []
    # quick tier: a rotating quarter of the dtype combinations per (unit pair, form, shape) - every dtype combination still meets
    # every form and every unit pair, only not every triple; the thorough tier enumerates the full product
    n = 0
    for ip, (ua, ub, klass) in enumerate(MUL):
        for jf, (op, form, shapes) in enumerate(_mul_forms(tier)):
            for si, (sa, sb) in enumerate(shapes):
                n += 1
                for k, (da, db) in enumerate(combos):
                    if q and (k + n) % (8 if klass == "none" else 4):
                        continue
                    cells.append(("pair", op, form, ua, ub, klass, da, db, sa, sb))
    for (ua, ub, klass) in DIV:
        for (op, form, shapes) in _div_forms(tier):
            for (sa, sb) in shapes:
                n += 1
                for k, (da, db) in enumerate(combos):
                    if q and (k + n) % 4:
                        continue
                    cells.append(("pair", op, form, ua, ub, klass, da, db, sa, sb))
    tags = DY_TAGS if pool.exact else ALL_TAGS
    for (us, klass) in SELF:
        for partner in PARTNERS:
            for (op, form, shapes) in [("multiply", "op", [((3,), (3,)), ((3,), ()), ((), ())]), ("multiply", "call", [((3,), (3,))]),
                                       ("multiply", "outer", [((3,), (2,))]), ("divide", "op", [((3,), (3,)), ((3,), ())]),
                                       ("matmul", "op", [((3,), (3,))]), ("vecdot", "np", [((3,), (3,))]), ("dot", "np", [((3,), (3,))])]:
                for da in tags:
                    for db in (["pyint", "i4", "f8"] if q else ["pyint", "i1", "i4", "u8", "f4", "f8", "c16"]):
                        if db not in tags or (da, db) == ("f8", "f8"):
                            continue
                        for (sa, sb) in shapes:
                            for order in (0, 1):
                                n += 1
                                if n % (6 if q else 2):
                                    continue
                                cells.append(("self", op, form, us, partner, klass, da, db, sa, sb, order))
    for (ua, ub, klass) in RED:
        for form in ("ufunc", "np", "method"):
            for da in tags:
                for db in (["f8", da] if q else tags):
                    if (da, db) == ("f8", "f8"):
                        continue
                    cells.append(("reduce", "multiply.reduce", form, ua, ub, klass, da, db, (3,), ()))
    return cells


def _ctor(rnd):
    return "unitmul" if rnd.random() < 0.25 else "class"


def cell_program(rnd, pool, cell, nvar):
    main = "A" if pool.exact else "default"
    kind = cell[0]
    b = Builder(rnd, pool, nvar)
    if pool.exact and cell[1] == "divide" and (cell[6] in EPS_OF or cell[7] in EPS_OF):
        return None        # bit-for-bit pool: a float32/complex64 division rounds differently from the float64 reference
    if kind == "pair":
        _, op, form, ua, ub, klass, da, db, sa, sb = cell
        x = b.leaf(ua, main, sa, da, _ctor(rnd))
        y = b.leaf(ub, main, sb, db, _ctor(rnd))
        if b.op(op, form, [x, y], cancel=klass) is None:
            return None
    elif kind == "self":
        _, op, form, us, partner, klass, da, db, sa, sb, order = cell
        x = b.leaf(us, main, sa, da, _ctor(rnd))
        y = b.leaf(partner, main if partner else None, sb, db, _ctor(rnd))
        args = [x, y] if order == 0 else [y, x]
        if op in ("matmul", "vecdot", "dot") and partner is None and order == 0 and form == "method":
            return None
        if b.op(op, form, args, cancel=klass) is None:
            return None
    else:
        _, op, form, ua, ub, klass, da, db, sa, sb = cell
        x = b.leaf(ua, main, sa, da, _ctor(rnd))
        y = b.leaf(ub, main, sb, db, _ctor(rnd))
        p = b.op("multiply.reduce", form, [x], axis=0)
        if p is None or b.op("multiply", rnd.choice(["op", "call"]), [p, y] if rnd.random() < 0.5 else [y, p], cancel=klass) is None:
            return None
    return b.program("matrix")


# ------------------------------------------------------------------------------------------------ random multiplicative chains
TEMPLATES = ["mul-mul", "mul-div", "div-mul", "matmul-mul", "square-mul", "power-mul", "mul-sum", "sum-of-products", "mul-matmul",
             "self-chain", "vecdot-div"]
_W = ["i1", "i2", "i4", "i8", "u1", "u2", "u4", "u8", "pyint", "pyint", "i4", "i8", "f2", "f4", "f4", "c8", "c16", "f8", "f8", "pyfloat"]


def _tag(rnd, pool, narrow_ok=True):
    while True:
        t = rnd.choice(_W)
        if not pool.exact or (t in DY_TAGS and (narrow_ok or t not in EPS_OF)):
            return t


def _mulform(rnd, b, x, y):
    f = ["op", "call"]
    if len(b.nodes[x]["shape"]) == 1 and len(b.nodes[y]["shape"]) == 1:
        f.append("outer")
    return rnd.choice(f)


def random_chain(rnd, pool, nvar):
    """one random multiplicative program of depth 2-3 over leaves of random dtypes; None when the generator rejects it"""
    MUL, DIV, SELF, PARTNERS, RED = tables(pool)
    main = "A" if pool.exact else "default"
    t = rnd.choice(TEMPLATES)
    b = Builder(rnd, pool, nvar)
    ua, ub, klass = rnd.choice(MUL)
    shp = rnd.choice([(3,), (3,), (), (2, 3)])
    # dyadic pool = bit-for-bit: a division in float32/complex64 rounds differently from the float64 reference, so programs that
    # divide take their leaves from the other dtypes there
    divides = t in ("mul-div", "div-mul", "vecdot-div", "self-chain")
    L = lambda u, s=None: b.leaf(u, main if u else None, shp if s is None else s, _tag(rnd, pool, not divides), _ctor(rnd))
    third = rnd.choice([None, None, "s" if not pool.exact else "T1", rnd.choice(SELF)[0], rnd.choice(MUL)[0], rnd.choice(MUL)[1]])
    ok = True
    if t == "mul-mul":
        x, y = L(ua), L(ub)
        p = b.op("multiply", _mulform(rnd, b, x, y), [x, y], cancel=klass)
        if p is not None:
            z = L(third, tuple(b.nodes[p]["shape"]) if rnd.random() < 0.7 else ())
            ok = b.op("multiply", rnd.choice(["op", "call"]), [p, z] if rnd.random() < 0.5 else [z, p], cancel="chain") is not None
        else:
            ok = False
    elif t == "mul-div":
        x, y = L(ua), L(ub)
        p = b.op("multiply", rnd.choice(["op", "call"]), [x, y], cancel=klass)
        z = L(third or ("s" if not pool.exact else "T1"), rnd.choice([shp, ()]))
        ok = p is not None and b.op("divide", rnd.choice(["op", "call"]), [p, z] if rnd.random() < 0.6 else [z, p], cancel="chain") is not None
    elif t == "div-mul":
        va, vb, k2 = rnd.choice(DIV)
        x, y = L(va), L(vb)
        p = b.op("divide", rnd.choice(["op", "call"]), [x, y], cancel=k2)
        z = L(ua, rnd.choice([shp, ()]))
        ok = p is not None and b.op("multiply", rnd.choice(["op", "call"]), [z, p] if rnd.random() < 0.5 else [p, z], cancel="chain") is not None
    elif t in ("matmul-mul", "mul-matmul", "vecdot-div"):
        sa, sb = rnd.choice([((3,), (3,)), ((2, 3), (3,)), ((2, 3), (3, 2)), ((3,), (3, 2))])
        if t == "mul-matmul":
            x, y = L(ua, (3,)), L(ub, rnd.choice([(3,), ()]))
            p = b.op("multiply", rnd.choice(["op", "call"]), [x, y], cancel=klass)
            z = L(third, rnd.choice([(3,), (3, 2)]))
            ok = p is not None and b.op("matmul", rnd.choice(["op", "np"]), [p, z], cancel="chain") is not None
        elif t == "vecdot-div":
            x, y = L(ua, sa if len(sa) == 2 else (3,)), L(ub, (3,))
            p = b.op("vecdot", "np", [x, y], cancel=klass)
            z = L(third or ("s" if not pool.exact else "T1"), ())
            ok = p is not None and b.op("divide", rnd.choice(["op", "call"]), [p, z], cancel="chain") is not None
        else:
            x, y = L(ua, sa), L(ub, sb)
            p = b.op("matmul", rnd.choice(["op", "np"]), [x, y], cancel=klass)
            z = L(third, ())
            ok = p is not None and b.op("multiply", rnd.choice(["op", "call"]), [p, z] if rnd.random() < 0.5 else [z, p], cancel="chain") is not None
    elif t in ("square-mul", "power-mul"):
        x, y = L(ua), L(ub)
        if t == "square-mul":
            p = b.op("square", "call", [x])
        else:
            e = rnd.choice([2, 3])
            p = b.op("power", rnd.choice(["op", "call"]), [x], p=e, pkind="int")
        ok = p is not None and b.op("multiply", rnd.choice(["op", "call"]), [p, y] if rnd.random() < 0.5 else [y, p], cancel=klass) is not None
    elif t == "mul-sum":
        x, y = L(ua, rnd.choice([(3,), (2, 3)])), L(ub, (3,))
        p = b.op("multiply", rnd.choice(["op", "call"]), [x, y], cancel=klass)
        ax = rnd.choice([0, None, -1])
        ok = p is not None and b.op("add.reduce", rnd.choice(["ufunc", "np", "method"]), [p], axis=ax) is not None
    elif t == "sum-of-products":
        x, y, x2, y2 = L(ua), L(ub), L(ua), L(ub)
        p = b.op("multiply", rnd.choice(["op", "call"]), [x, y], cancel=klass)
        p2 = b.op("multiply", rnd.choice(["op", "call"]), [y2, x2], cancel=klass)
        ok = p is not None and p2 is not None and b.op(rnd.choice(["add", "subtract"]), rnd.choice(["op", "call"]), [p, p2]) is not None
    elif t == "self-chain":
        us, k2 = rnd.choice(SELF)
        x = L(us)
        y = L(rnd.choice(PARTNERS), rnd.choice([shp, ()]))
        p = b.op("multiply", rnd.choice(["op", "call"]), [x, y] if rnd.random() < 0.5 else [y, x], cancel=k2)
        z = L(ua, ())
        ok = p is not None and b.op(rnd.choice(["multiply", "divide"]), rnd.choice(["op", "call"]), [p, z], cancel="chain") is not None
    if not ok:
        return None
    return b.program("chain:" + t)
