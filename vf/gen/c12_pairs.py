"""C12 - catalogue for the 'same operation on arrays of several generations' monitor.

A GENERATION is the state of the symbol table between two edits.  An array is built with the SAME unit spelling in every
generation of a short history; only after the last edit the same ufunc-level operation is applied to each of them, in a chosen
order.  Each result is predicted from (the operand's own values) x (the scale its spelling had when the operand was built):
plain float arithmetic on SI numbers, never a unyt call.

UNARY[name]  = (fn(np, unyt, x, T, S), expect(q, d, t, v))   x: the operand, T: a threshold quantity in SI base units of x's
               dimension (built after the last edit), S: 3 s (built after the last edit); q: SI values of x, d: its dimension
               vector, t: SI value of T, v: raw values, returns (kind, values, dimvec) with kind 'q' (physical quantity),
               'bool' (exact list)
CROSS[name]  = (fn(np, unyt, a, b), expect(qa, da, qb, db)) -> as above, or 'raise'
"""
from vf.ref import dims

T_DIM = dims.D("T")


def _q(vals, d):
    return ("q", vals, d)


UNARY = {
    # ---- the memoised unit rules, one ufunc each
    "np.sqrt": (lambda np, U, x, T, S: np.sqrt(x), lambda q, d, t, v: _q(q ** 0.5, dims.power(d, "1/2"))),
    "np.cbrt": (lambda np, U, x, T, S: np.cbrt(x), lambda q, d, t, v: _q(q ** (1.0 / 3.0), dims.power(d, "1/3"))),
    "np.square": (lambda np, U, x, T, S: np.square(x), lambda q, d, t, v: _q(q ** 2, dims.power(d, 2))),
    "x**3": (lambda np, U, x, T, S: x ** 3, lambda q, d, t, v: _q(q ** 3, dims.power(d, 3))),
    "x**0.5": (lambda np, U, x, T, S: x ** 0.5, lambda q, d, t, v: _q(q ** 0.5, dims.power(d, "1/2"))),
    "np.power(x,2)": (lambda np, U, x, T, S: np.power(x, 2), lambda q, d, t, v: _q(q ** 2, dims.power(d, 2))),
    "np.reciprocal": (lambda np, U, x, T, S: np.reciprocal(x), lambda q, d, t, v: _q(1.0 / q, dims.power(d, -1))),
    "2/x": (lambda np, U, x, T, S: 2.0 / x, lambda q, d, t, v: _q(2.0 / q, dims.power(d, -1))),
    "-x": (lambda np, U, x, T, S: -x, lambda q, d, t, v: _q(-q, d)),
    "np.abs": (lambda np, U, x, T, S: np.abs(x), lambda q, d, t, v: _q(abs(q), d)),
    "x*x": (lambda np, U, x, T, S: x * x, lambda q, d, t, v: _q(q * q, dims.power(d, 2))),
    "x/x": (lambda np, U, x, T, S: x / x, lambda q, d, t, v: _q(q / q, dims.ZERO)),
    "x+x": (lambda np, U, x, T, S: x + x, lambda q, d, t, v: _q(q + q, d)),
    "x-x[::-1]": (lambda np, U, x, T, S: x - x[::-1], lambda q, d, t, v: _q(q - q[::-1], d)),
    "3*x": (lambda np, U, x, T, S: 3.0 * x, lambda q, d, t, v: _q(3.0 * q, d)),
    # ---- against the same other unit
    "x*(3 s)": (lambda np, U, x, T, S: x * S, lambda q, d, t, v: _q(3.0 * q, dims.mul(d, T_DIM))),
    "x/(3 s)": (lambda np, U, x, T, S: x / S, lambda q, d, t, v: _q(q / 3.0, dims.div(d, T_DIM))),
    "(3 s)/x": (lambda np, U, x, T, S: S / x, lambda q, d, t, v: _q(3.0 / q, dims.div(T_DIM, d))),
    "x*x.units": (lambda np, U, x, T, S: x * x.units, lambda q, d, t, v: _q(q * (q[0] / v[0]), dims.power(d, 2))),
    "x/x.units": (lambda np, U, x, T, S: x / x.units, lambda q, d, t, v: _q(v * 1.0, dims.ZERO)),
    "x+T": (lambda np, U, x, T, S: x + T, lambda q, d, t, v: _q(q + t, d)),
    "T-x": (lambda np, U, x, T, S: T - x, lambda q, d, t, v: _q(t - q, d)),
    "np.maximum(x,T)": (lambda np, U, x, T, S: np.maximum(x, T), lambda q, d, t, v: _q(np_max(q, t), d)),
    # ---- reductions
    "x.sum": (lambda np, U, x, T, S: x.sum(), lambda q, d, t, v: _q(q.sum().reshape(1), d)),
    "np.sum": (lambda np, U, x, T, S: np.sum(x), lambda q, d, t, v: _q(q.sum().reshape(1), d)),
    "np.mean": (lambda np, U, x, T, S: np.mean(x), lambda q, d, t, v: _q(q.mean().reshape(1), d)),
    "np.cumsum": (lambda np, U, x, T, S: np.cumsum(x), lambda q, d, t, v: _q(q.cumsum(), d)),
    "x.max": (lambda np, U, x, T, S: x.max(), lambda q, d, t, v: _q(q.max().reshape(1), d)),
    "np.prod": (lambda np, U, x, T, S: np.prod(x), lambda q, d, t, v: _q(q.prod().reshape(1), dims.power(d, len(q)))),
    "np.dot(x,x)": (lambda np, U, x, T, S: np.dot(x, x), lambda q, d, t, v: _q((q * q).sum().reshape(1), dims.power(d, 2))),
    "np.diff": (lambda np, U, x, T, S: np.diff(x), lambda q, d, t, v: _q(q[1:] - q[:-1], d)),
    # ---- comparisons (T lies between the first elements of the generations: the answer depends on the operand's scale)
    "x<T": (lambda np, U, x, T, S: x < T, lambda q, d, t, v: ("bool", [bool(b) for b in q < t], None)),
    "x>=T": (lambda np, U, x, T, S: x >= T, lambda q, d, t, v: ("bool", [bool(b) for b in q >= t], None)),
    "T<x": (lambda np, U, x, T, S: T < x, lambda q, d, t, v: ("bool", [bool(b) for b in t < q], None)),
    # ---- conversions of the operand as it is
    "x.in_base": (lambda np, U, x, T, S: x.in_base("mks"), lambda q, d, t, v: _q(q * 1.0, d)),
    "x.to(T.units)": (lambda np, U, x, T, S: x.to(T.units), lambda q, d, t, v: _q(q * 1.0, d)),
    # ---- the unit object itself
    "u*u": (lambda np, U, x, T, S: x.units * x.units, lambda q, d, t, v: _q((q[:1] / v[:1]) ** 2, dims.power(d, 2))),
    "u**2": (lambda np, U, x, T, S: x.units ** 2, lambda q, d, t, v: _q((q[:1] / v[:1]) ** 2, dims.power(d, 2))),
    "u/S.units": (lambda np, U, x, T, S: x.units / S.units, lambda q, d, t, v: _q(q[:1] / v[:1], dims.div(d, T_DIM))),
    "u**0.5": (lambda np, U, x, T, S: x.units ** 0.5, lambda q, d, t, v: _q((q[:1] / v[:1]) ** 0.5, dims.power(d, "1/2"))),
}


def np_max(q, t):
    import numpy as np
    return np.maximum(q, t)


def _same_dim(da, db, res):
    return res if da == db else "raise"


CROSS = {
    "a*b": (lambda np, U, a, b: a * b, lambda qa, da, qb, db: _q(qa * qb, dims.mul(da, db))),
    "a/b": (lambda np, U, a, b: a / b, lambda qa, da, qb, db: _q(qa / qb, dims.div(da, db))),
    "a+b": (lambda np, U, a, b: a + b, lambda qa, da, qb, db: _same_dim(da, db, _q(qa + qb, da))),
    "a-b": (lambda np, U, a, b: a - b, lambda qa, da, qb, db: _same_dim(da, db, _q(qa - qb, da))),
    # (a comparison with a DIMENSIONLESS operand of another dimension is answered, not refused, by unyt whatever the history: what
    # such a comparison should do is not this property's subject -> None = not judged)
    "a<b": (lambda np, U, a, b: a < b, lambda qa, da, qb, db: None if (da != db and dims.ZERO in (da, db)) else
            _same_dim(da, db, ("bool", [bool(x) for x in qa < qb], None))),
    "np.maximum(a,b)": (lambda np, U, a, b: np.maximum(a, b), lambda qa, da, qb, db: _same_dim(da, db, _q(np_max(qa, qb), da))),
    "np.dot(a,b)": (lambda np, U, a, b: np.dot(a, b), lambda qa, da, qb, db: _q((qa * qb).sum().reshape(1), dims.mul(da, db))),
    "ua*ub": (lambda np, U, a, b: a.units * b.units, None),      # expectation filled in by the monitor (needs the scales)
}

# the operations whose result units come straight out of a memoised unit rule (each must be reached in both orders)
RULE_OPS = ("np.sqrt", "np.cbrt", "np.square", "x**3", "np.reciprocal", "x*x", "x/x", "x+x", "x-x[::-1]", "x*(3 s)", "x/(3 s)", "x.sum")

# unit spellings mentioning the edited symbol foo (companions: zed [mass, edited in one history], s, kg)
SPELLINGS_QUICK = (("foo", "atomic"), ("kfoo", "prefixed"), ("foo**2", "compound"), ("foo/s", "compound"), ("foo*zed", "pair-compound"))
SPELLINGS_THOROUGH = SPELLINGS_QUICK + (("foo**3", "compound"), ("mfoo**2*s", "prefixed-compound"), ("kg/kfoo", "prefixed-compound"),
                                        ("zed/foo", "pair-compound"), ("sqrt(foo)", "compound"), ("foo*kg", "compound"))

# edit scripts after the base state (foo = 2 m prefixable, zed = 0.5 kg): label -> list of GENERATION steps; every step is a
# list of (handle, op) applied between two array constructions.  handle 'o' = the registry itself, 'c' = a second handle on
# its table (obtained by `how`).  build = which handle each generation's array is created through.
FOO_L = ("add", "foo", 5.0, "L", True, 0.0)
SCRIPTS = {
    "modify-float": [[("o", ("modf", "foo", 3.0))]],
    "modify-quantity": [[("o", ("modq", "foo", 4.0, "km", "default"))]],
    "modify-quantity-own": [[("o", ("modq", "foo", 5.0, "foo", "own"))]],
    "modify-quantity-prefixed-own": [[("o", ("modq", "foo", 2.0, "kfoo", "own"))]],
    "readd": [[("o", FOO_L)]],
    "remove+add": [[("o", ("rm", "foo")), ("o", FOO_L)]],
    "remove+define_unit": [[("o", ("rm", "foo")), ("o", ("def", "foo", 0.25, "km", True, "default"))]],
    "readd-other-dimension": [[("o", ("add", "foo", 0.5, "M", True, 0.0))]],
    "modify-float:via-copy": [[("c", ("modf", "foo", 3.0))]],
    "modify-float:build-via-copy": [[("o", ("modf", "foo", 3.0))]],
    "modify-companion": [[("o", ("modf", "zed", 3.0))]],
    "modify-float,modify-float-back": [[("o", ("modf", "foo", 3.0))], [("o", ("modf", "foo", 2.0))]],
    "modify-float,readd": [[("o", ("modf", "foo", 3.0))], [("o", FOO_L)]],
}
SCRIPTS_THOROUGH = dict(SCRIPTS, **{
    "modify-float-small": [[("o", ("modf", "foo", 1e-3))]],
    "readd-unprefixable": [[("o", ("add", "foo", 5.0, "L", False, 0.0))]],
    "readd,remove+add": [[("o", FOO_L)], [("o", ("rm", "foo")), ("o", ("add", "foo", 7.0, "L", True, 0.0))]],
    "modify-quantity,modify-quantity-own,modify-float": [[("o", ("modq", "foo", 4.0, "km", "default"))], [("o", ("modq", "foo", 5.0, "foo", "own"))],
                                                          [("c", ("modf", "foo", 3.0))]],
    "remove+add:via-copy": [[("c", ("rm", "foo")), ("c", FOO_L)]],
})
# which handle the arrays of generation 0, 1, ... are created through (default: the registry itself)
BUILD_VIA = {"modify-float:build-via-copy": "oc", "modify-quantity,modify-quantity-own,modify-float": "ococ", "remove+add:via-copy": "oc"}
