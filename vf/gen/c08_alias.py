"""C08 workload: aliasing call forms of one additive temperature operation.

A *plan* is one concrete call `a (+|-) b` together with the buffer the result is written into:
    (a, b, out, call, xe, ye)
a, b   the operand objects (unyt_array / unyt_quantity), freshly built for this plan
out    the object handed as out= (or the in-place target), None when the call allocates its result
call   zero-argument callable performing the call and returning what the library returned
xe, ye float64 readings the operands held *before* the call, in a shape that broadcasts to the result
Every builder is a closure so that nothing is constructed before the judge is ready to snapshot it.
The generator only builds operands and calls NumPy/unyt; it contains no expectation about the result.
"""
import numpy as np

# operand dtype pairs (left, right)
DTPAIRS = {
    "quick": [("f8", "f8"), ("f4", "f4"), ("f8", "f4"), ("f4", "f8"), ("i8", "f8"), ("f8", "i8"), ("i8", "i8")],
    "thorough": [("f8", "f8"), ("f4", "f4"), ("f8", "f4"), ("f4", "f8"), ("i8", "f8"), ("f8", "i8"), ("i8", "i8"), ("i4", "f4"), ("f8", "i4"), ("i4", "i4")],
}


def fl(dt):
    """float type unyt (and C17) give integer data of this width"""
    dt = np.dtype(dt)
    return dt.str[1:] if dt.kind == "f" else "f" + str(max(2, dt.itemsize))


FORMS = (
    # out= is one of the operands
    "out=left", "out=right", "out=left/tuple", "out=right/tuple", "out=left/positional", "out=right/positional",
    # in-place operators
    "iop", "iop/view-of-larger-buffer", "iop/0d",
    # fresh buffers: matching dtype and shape under different labels, other dtype, other shape, bare
    "fresh:label-left", "fresh:label-right", "fresh:label-foreign", "fresh:bare-ndarray", "fresh:other-dtype", "fresh:other-dtype/bare",
    "fresh:bigger-shape", "fresh:0d",
    # broadcasting calls whose out= is the bigger operand, scalar quantities on either side
    "bcast:out=right", "bcast:out=left", "quantity-left:out=right", "quantity-right:out=left", "quantity-right:iop", "0d:out=right", "0d:out=left",
    # both operands are views of one buffer
    "shared:no-out", "shared:out=left", "shared:out=right", "shared:iop", "shared:fresh",
    "reversed:no-out", "reversed:out=left", "reversed:out=right",
    "overlap:no-out", "overlap:out=left", "overlap:out=right", "overlap:iop",
    "strided:out=right", "strided:out=left", "strided:iop",
    # the same object twice
    "self:no-out", "self:out=self", "self:iop",
)


def plans(unyt, op, u1, u2, xs, ys, da, db):
    """yield (form name, builder) for one ordered unit pair, one operation, one pair of operand dtypes"""
    uf = np.add if op == "+" else np.subtract
    UA, UQ = unyt.unyt_array, unyt.unyt_quantity
    n = len(xs)
    X = np.array(xs, dtype=da); Y = np.array(ys, dtype=db)
    Xf = X.astype("f8"); Yf = Y.astype("f8")
    match = np.result_type(np.dtype(fl(da)), np.dtype(fl(db))).str[1:]
    other = "f4" if match == "f8" else "f8"

    def A():
        return UA(X.copy(), u1)

    def B():
        return UA(Y.copy(), u2)

    def iop(a, b):
        if op == "+":
            a += b
        else:
            a -= b
        return a

    def mk(form):
        # ---- out= is an operand
        if form == "out=left":
            a, b = A(), B(); return a, b, a, (lambda: uf(a, b, out=a)), Xf, Yf
        if form == "out=right":
            a, b = A(), B(); return a, b, b, (lambda: uf(a, b, out=b)), Xf, Yf
        if form == "out=left/tuple":
            a, b = A(), B(); return a, b, a, (lambda: uf(a, b, out=(a,))), Xf, Yf
        if form == "out=right/tuple":
            a, b = A(), B(); return a, b, b, (lambda: uf(a, b, out=(b,))), Xf, Yf
        if form == "out=left/positional":
            a, b = A(), B(); return a, b, a, (lambda: uf(a, b, a)), Xf, Yf
        if form == "out=right/positional":
            a, b = A(), B(); return a, b, b, (lambda: uf(a, b, b)), Xf, Yf
        # ---- in-place operators
        if form == "iop":
            a, b = A(), B(); return a, b, a, (lambda: iop(a, b)), Xf, Yf
        if form == "iop/view-of-larger-buffer":
            base = UA(np.concatenate([X[:1], X, X[-1:]]), u1); a = base[1:-1]; b = B()
            return a, b, a, (lambda: iop(a, b)), Xf, Yf
        if form == "iop/0d":
            a = UA(np.array(X[0]), u1); b = UA(np.array(Y[0]), u2); return a, b, a, (lambda: iop(a, b)), Xf[0], Yf[0]
        # ---- fresh buffers
        if form == "fresh:label-left":
            a, b = A(), B(); o = UA(np.zeros(n, dtype=match), u1); return a, b, o, (lambda: uf(a, b, out=o)), Xf, Yf
        if form == "fresh:label-right":
            a, b = A(), B(); o = UA(np.zeros(n, dtype=match), u2); return a, b, o, (lambda: uf(a, b, out=o)), Xf, Yf
        if form == "fresh:label-foreign":
            a, b = A(), B(); o = UA(np.zeros(n, dtype=match), "m"); return a, b, o, (lambda: uf(a, b, out=o)), Xf, Yf
        if form == "fresh:bare-ndarray":
            a, b = A(), B(); o = np.zeros(n, dtype=match); return a, b, o, (lambda: uf(a, b, out=o)), Xf, Yf
        if form == "fresh:other-dtype":
            a, b = A(), B(); o = UA(np.zeros(n, dtype=other), u2); return a, b, o, (lambda: uf(a, b, out=o)), Xf, Yf
        if form == "fresh:other-dtype/bare":
            a, b = A(), B(); o = np.zeros(n, dtype=other); return a, b, o, (lambda: uf(a, b, out=o)), Xf, Yf
        if form == "fresh:bigger-shape":
            a, b = A(), B(); o = UA(np.zeros((2, n), dtype=match), u1); return a, b, o, (lambda: uf(a, b, out=o)), Xf, Yf
        if form == "fresh:0d":
            a = UA(np.array(X[0]), u1); b = UA(np.array(Y[0]), u2); o = UA(np.zeros((), dtype=match), u2)
            return a, b, o, (lambda: uf(a, b, out=o)), Xf[0], Yf[0]
        # ---- broadcasting: out= is the operand that has the result's shape
        if form == "bcast:out=right":
            Y2 = np.stack([Y, Y[::-1]]); a = A(); b = UA(Y2.copy(), u2); return a, b, b, (lambda: uf(a, b, out=b)), Xf, Y2.astype("f8")
        if form == "bcast:out=left":
            X2 = np.stack([X, X[::-1]]); a = UA(X2.copy(), u1); b = B(); return a, b, a, (lambda: uf(a, b, out=a)), X2.astype("f8"), Yf
        if form == "quantity-left:out=right":
            a = UQ(X[0], u1); b = B(); return a, b, b, (lambda: uf(a, b, out=b)), Xf[0], Yf
        if form == "quantity-right:out=left":
            a = A(); b = UQ(Y[0], u2); return a, b, a, (lambda: uf(a, b, out=a)), Xf, Yf[0]
        if form == "quantity-right:iop":
            a = A(); b = UQ(Y[0], u2); return a, b, a, (lambda: iop(a, b)), Xf, Yf[0]
        if form == "0d:out=right":
            a = UA(np.array(X[0]), u1); b = UA(np.array(Y[0]), u2); return a, b, b, (lambda: uf(a, b, out=b)), Xf[0], Yf[0]
        if form == "0d:out=left":
            a = UA(np.array(X[0]), u1); b = UA(np.array(Y[0]), u2); return a, b, a, (lambda: uf(a, b, out=a)), Xf[0], Yf[0]
        # ---- one buffer, two views (need one dtype)
        if form.startswith(("shared:", "reversed:", "overlap:")) and da != db:
            return None
        if form.startswith("shared:"):
            buf = X.copy(); a = UA(buf, u1); b = UA(buf, u2)
            if not np.shares_memory(a, b):
                return None
            xe = ye = Xf
        elif form.startswith("reversed:"):
            buf = X.copy(); a = UA(buf[::-1], u1); b = UA(buf, u2)
            if not np.shares_memory(a, b):
                return None
            xe, ye = Xf[::-1].copy(), Xf
        elif form.startswith("overlap:"):
            buf = np.concatenate([X, X[:1] + X[-1:]]); a = UA(buf[:-1], u1); b = UA(buf[1:], u2)
            if not np.shares_memory(a, b):
                return None
            bf = buf.astype("f8"); xe, ye = bf[:-1].copy(), bf[1:].copy()
        elif form.startswith("strided:"):
            if form == "strided:out=right":
                buf = np.zeros(2 * n, dtype=db); buf[::2] = Y; buf[1::2] = 77
                a = A(); b = UA(buf[::2], u2); return a, b, b, (lambda: uf(a, b, out=b)), Xf, Yf
            buf = np.zeros(2 * n, dtype=da); buf[::2] = X; buf[1::2] = 77
            a = UA(buf[::2], u1); b = B()
            if form == "strided:out=left":
                return a, b, a, (lambda: uf(a, b, out=a)), Xf, Yf
            return a, b, a, (lambda: iop(a, b)), Xf, Yf
        elif form.startswith("self:"):
            if u1 != u2 or da != db:
                return None
            a = A()
            if form == "self:no-out":
                return a, a, None, (lambda: uf(a, a)), Xf, Xf
            if form == "self:out=self":
                return a, a, a, (lambda: uf(a, a, out=a)), Xf, Xf
            return a, a, a, (lambda: iop(a, a)), Xf, Xf
        else:
            raise KeyError(form)
        tail = form.split(":")[1]
        if tail == "no-out":
            return a, b, None, (lambda: uf(a, b)), xe, ye
        if tail == "out=left":
            return a, b, a, (lambda: uf(a, b, out=a)), xe, ye
        if tail == "out=right":
            return a, b, b, (lambda: uf(a, b, out=b)), xe, ye
        if tail == "iop":
            return a, b, a, (lambda: iop(a, b)), xe, ye
        if tail == "fresh":
            o = UA(np.zeros(len(xe), dtype=match), u1); return a, b, o, (lambda: uf(a, b, out=o)), xe, ye
        raise KeyError(form)

    for form in FORMS:
        yield form, (lambda form=form: mk(form))
