"""Value axis of integer operands for C17's mixed-unit binary ufuncs.

The other binary workloads of C17 drive operand *dtypes*, *units*, *call forms* and *buffers*; the numbers they put into an
operand are ordinary (small, random, at the mantissa limits), the second operand is never zero, and a scalar operand holds
one fixed ordinary reading.  The dtype of a result, however, must be a function of the operands' dtypes and units alone:
whether `int km (op) int m` is floating point may not depend on WHAT the integers are.  A library can get this wrong in
many places - a shortcut for "zero is zero on every scale", for a factor or an operand equal to one, for an all-zero
array, an overflow guard keyed on the largest element, a sign test - and each of them shows only for a particular value in
a particular operand spelling at a particular operand position.

This module is plain data and builders (nothing here calls a function C17 judges).  Dimensions:

  value class  what the special operand holds: zero, one, minus-one, the dtype's max and min (thorough: also max-1, min+1,
               two); the CONTROL is the ordinary reading 3 (second special operand: 7) in the same spelling
  spelling     how the special operand is written: unyt_quantity built from a NumPy scalar, 0-d unyt_array, 1-element
               array, n-element array filled with the value, (2,n) array filled with the value, NumPy scalar times Unit,
               Python int times Unit (the everyday `0*m`; only where the platform integer is the dtype under test)
  position     the special operand is the first operand, the second one, or both are special (zero/zero plus a cycled
               pairing of the value classes)
  other        spelling of the ordinary operand: n-element array or quantity; its dtype cycles through all integer and
               float dtypes (thorough: two per group), its readings are small non-zero numbers
  form         ufunc called as function, through the Python operator where one exists, and as ufunc.outer (no out=)

index_map() gives, for every element of the (broadcast or outer) result in C order, which element of either operand it
was computed from, so that the exact reference can be evaluated element by element.
"""
import numpy as np

SPELLINGS = ("quantity", "0d", "len1", "filled", "filled2d", "npscalar*unit", "pyint")
POSITIONS = ("first", "second", "both")
FORMS = ("function", "operator", "outer")
OTHER_SPELLINGS = ("arr", "quantity")
CONTROL = (3, 7)               # ordinary readings of the control call (first / second special operand)
VCLASSES_QUICK = ("zero", "one", "minus-one", "max", "min")
VCLASSES_MORE = ("two", "max-minus-one", "min-plus-one")


def special_values(dt, thorough=False):
    """[(value class, python int)] for one integer dtype"""
    ii = np.iinfo(np.dtype(dt))
    out = [("zero", 0), ("one", 1), ("max", int(ii.max))]
    if ii.min < 0:
        out += [("minus-one", -1), ("min", int(ii.min))]
    if thorough:
        out += [("two", 2), ("max-minus-one", int(ii.max) - 1)]
        if ii.min < 0:
            out.append(("min-plus-one", int(ii.min) + 1))
    return out


def spelling_applies(spelling, dt):
    if spelling == "pyint":
        return np.dtype(dt) == np.dtype(int)          # `0 * m` holds the platform integer
    return True


def spell(unyt, spelling, dt, v, unit, n):
    """the special operand -> (object, shape, flat list of the readings it holds)"""
    d = np.dtype(dt)
    if spelling == "quantity":
        return unyt.unyt_quantity(d.type(v), unit), (), [v]
    if spelling == "0d":
        return unyt.unyt_array(np.array(v, dtype=d), unit), (), [v]
    if spelling == "len1":
        return unyt.unyt_array(np.array([v], dtype=d), unit), (1,), [v]
    if spelling == "filled":
        return unyt.unyt_array(np.full(n, v, dtype=d), unit), (n,), [v] * n
    if spelling == "filled2d":
        return unyt.unyt_array(np.full((2, n), v, dtype=d), unit), (2, n), [v] * (2 * n)
    if spelling == "npscalar*unit":
        return d.type(v) * unyt.Unit(unit), (), [v]
    if spelling == "pyint":
        return int(v) * unyt.Unit(unit), (), [v]
    raise ValueError(spelling)


def ordinary_values(dt, r, n):
    """small non-zero readings for the ordinary operand (never a value class of the special one, never the control)"""
    d = np.dtype(dt)
    if d.kind in "iu":
        vals = []
        while len(vals) < n:
            v = r.randint(4, 100)
            if d.kind == "i" and len(vals) == 1:
                v = -v
            if v not in vals and v != CONTROL[1]:
                vals.append(v)
        return vals
    out = []
    while len(out) < n:
        v = r.randint(9, 400) / 4.0                 # exactly representable in float16
        if len(out) == 1:
            v = -v
        if v not in out:
            out.append(v)
    return out


def spell_other(unyt, spelling, dt, vals, unit):
    """the ordinary operand -> (object, shape, flat list of readings)"""
    d = np.dtype(dt)
    if spelling == "arr":
        if d.kind in "iu":
            a = np.array([int(v) for v in vals], dtype=d)
        else:
            a = np.array(vals, dtype=d)
        return unyt.unyt_array(a, unit), (len(vals),), list(vals)
    if spelling == "quantity":
        return unyt.unyt_quantity(d.type(vals[0]), unit), (), [vals[0]]
    raise ValueError(spelling)


def index_map(shape_a, shape_b, outer):
    """[(i, j)] per result element in C order: i / j = flat index into the first / second operand"""
    na = int(np.prod(shape_a, dtype=int)) if shape_a else 1
    nb = int(np.prod(shape_b, dtype=int)) if shape_b else 1
    ia = np.arange(na).reshape(shape_a)
    ib = np.arange(nb).reshape(shape_b)
    if outer:
        ia = ia.reshape(tuple(shape_a) + (1,) * len(shape_b))
        ib = ib.reshape((1,) * len(shape_a) + tuple(shape_b))
    I, J = np.broadcast_arrays(ia, ib)
    return [(int(i), int(j)) for i, j in zip(I.ravel(), J.ravel())]


def value_pairs(d0, d1, thorough, c):
    """position 'both': [((class0, v0), (class1, v1))] - zero/zero and each first value with a cycled second one (the
    thorough tier has the longer value-class list); c is the running group number, so every pairing comes round whatever
    the seed"""
    s0, s1 = special_values(d0, thorough), special_values(d1, thorough)
    out = [(s0[0], s1[0])]
    for k, a in enumerate(s0):
        b = s1[(k + c) % len(s1)]
        if (a, b) not in out:
            out.append((a, b))
    return out
