"""Type-directed generator of C04 expression programs (pure data; never imports unyt).

A program is a JSON-able dict
  {"pool": "dyadic"|"real", "nvar": n, "nodes": [node, ...]}
node (leaf):  {"op": "leaf", "kind": "q"|"bare", "shape": [...], "vals": [flat floats], "reg": tag, "units": [expr per variant]}
node (op):    {"op": name, "form": form, "args": [node indices], + parameters ("p", "pkind", "axis", ...), "shape": [...]}
Every variant gives each quantity leaf another commensurable unit (same registry); the numbers of variant j are the
numbers of variant 0 re-expressed, so all variants denote the same physical operands.

The generator keeps the reference interpreter (vf.ref.siinterp) in the loop: an operation is only appended when the
reference accepts it dimensionally and all magnitudes stay far from overflow/underflow.
"""
from fractions import Fraction as Fr
import numpy as np
from vf.ref import dims, siinterp, names, uexpr
from vf.gen import dyadic

# ------------------------------------------------------------------------------------------------ catalogue
CMP = ["less", "less_equal", "greater", "greater_equal", "equal", "not_equal"]
OPSYM = {"add": "+", "subtract": "-", "multiply": "*", "divide": "/", "floor_divide": "//", "remainder": "%", "power": "**",
         "less": "<", "less_equal": "<=", "greater": ">", "greater_equal": ">=", "equal": "==", "not_equal": "!=", "matmul": "@"}

# op -> (category, forms)
CATALOGUE = {
    "add": ("bin_same", ["op", "call", "out", "outnd", "iop", "outer"]),
    "subtract": ("bin_same", ["op", "call", "out", "outnd", "iop", "outer"]),
    "minimum": ("bin_same", ["call", "out", "outer"]),
    "maximum": ("bin_same", ["call", "out", "outnd", "outer"]),
    "fmin": ("bin_same", ["call", "out"]),
    "fmax": ("bin_same", ["call", "out"]),
    "hypot": ("bin_same", ["call", "out", "outer"]),
    "remainder": ("bin_same", ["op", "call", "out", "iop", "outer"]),
    "fmod": ("bin_same", ["call", "out"]),
    "floor_divide": ("bin_same", ["op", "call", "out", "iop", "outer"]),
    "arctan2": ("bin_same", ["call", "out"]),
    "divmod": ("bin_same", ["op", "call", "out"]),
    "multiply": ("bin_any", ["op", "call", "out", "outnd", "iop", "outer"]),
    "divide": ("bin_any", ["op", "call", "out", "outnd", "iop", "outer"]),
    "copysign": ("bin_any", ["call", "out"]),
    "negative": ("unary", ["op", "call", "out"]),
    "positive": ("unary", ["op", "call"]),
    "absolute": ("unary", ["op", "call", "out"]),
    "fabs": ("unary", ["call"]),
    "conj": ("unary", ["call", "method"]),
    "sqrt": ("unary", ["call", "out"]),
    "cbrt": ("unary", ["call", "out"]),
    "square": ("unary", ["call", "out"]),
    "reciprocal": ("unary", ["call", "out"]),
    "sign": ("unary", ["call"]),
    "sin": ("trig", ["call", "outnd"]),
    "cos": ("trig", ["call", "outnd"]),
    "tan": ("trig", ["call", "outnd"]),
    "power": ("power", ["op", "call", "iop", "out"]),
    "add.reduce": ("reduce", ["ufunc", "np", "method", "out"]),
    "add.accumulate": ("reduce", ["ufunc", "np", "method"]),
    "multiply.reduce": ("reduce", ["ufunc", "np", "method"]),
    "divide.reduce": ("reduce", ["ufunc"]),
    "subtract.reduce": ("reduce", ["ufunc"]),
    "maximum.reduce": ("reduce", ["ufunc", "np", "method"]),
    "minimum.reduce": ("reduce", ["ufunc", "np", "method"]),
    "maximum.accumulate": ("reduce", ["ufunc"]),
    "hypot.reduce": ("reduce", ["ufunc"]),
    "mean": ("reduce", ["np", "method"]),
    "dot": ("product", ["np", "method", "out"]),
    "matmul": ("product", ["op", "np", "out"]),
    "vecdot": ("product", ["np"]),
    "inner": ("product", ["np"]),
    "vdot": ("product", ["np"]),
    "outerprod": ("product", ["np", "out"]),
    "cross": ("product", ["np"]),
}
for _c in CMP:
    CATALOGUE[_c] = ("bin_same", ["op", "call", "outnd", "outer"])

DISCONTINUOUS = set(CMP) | {"floor_divide", "remainder", "fmod", "divmod", "copysign", "sign"}
TERMINAL = set(CMP) | {"divmod"}
POWERS = [2, 3, -1, -2, 0.5, 1.5, -0.5, 2.0, 1.0 / 3.0, 0, 1, 4, 0.25]
PKINDS = ["int", "float", "npfloat", "arr0", "qdimless", "arrsame"]       # how the exponent is handed over (random programs)
PKINDS_MATRIX = PKINDS + ["qscaled"]     # + a dimensionless quantity written in a scaled unit (50 percent / p*2**-12 D4096): matrix only

# ------------------------------------------------------------------------------------------------ pools
ANGLE = dims.D("A")


class DyadicPool:
    name = "dyadic"
    exact = True
    regs = ["A", "A", "A", "B"]
    leaf_dims = [dims.D("L"), dims.D("L"), dims.D("T"), dims.D("M"), dims.D("A"), dims.ZERO, dims.D("L T-1"), dims.D("M L2 T-2"),
                 dims.D("L1/2"), dims.D("L2")]

    def table(self, reg):
        return dyadic.ATOMS if reg == "A" else dyadic.ATOMS_B

    def units(self, dim, rnd, n, reg):
        alts = dyadic.alternatives(dim, rnd, max(n, 2) + 1, self.table(reg))
        return [alts[i % len(alts)] for i in range(n)]

    def ref(self, expr, reg):
        return dyadic.evaluate(expr, self.table(reg))


# named units per dimension (all of class "exact" in vf/ref/defs.py unless noted); first the families leaves are drawn from
REAL_FAMILIES = {
    "L": ["m", "km", "cm", "mm", "um", "nm", "pm", "fm", "inch", "ft", "yd", "mile"],
    "T": ["s", "ms", "us", "ns", "ps", "fs", "min", "hr", "day", "yr"],
    "M": ["g", "kg", "mg", "ug", "ng", "pg", "lb", "oz", "t"],
    "A": ["rad", "degree", "arcmin", "arcsec", "mrad", "rev"],
    "": ["dimensionless", "percent"],
    "M L2 T-2": ["J", "kJ", "MJ", "erg", "cal", "kcal", "Wh", "kWh", "N*m", "kg*m**2/s**2", "W*s", "dyn*cm", "eV", "keV", "MeV"],
    "M L2 T-3": ["W", "kW", "mW", "J/s", "erg/s", "hp"],
    "M L T-2": ["N", "kN", "dyn", "lbf", "kg*m/s**2", "g*cm/s**2"],
    "M L-1 T-2": ["Pa", "kPa", "bar", "mbar", "atm", "psi", "N/m**2", "dyn/cm**2"],
    "L T-1": ["m/s", "km/hr", "km/s", "cm/s", "mph", "ft/s", "kt"],
    "T-1": ["Hz", "kHz", "1/s", "1/ms", "1/min"],
    "L2": ["m**2", "cm**2", "km**2", "ha", "acre"],
    "L3": ["m**3", "L", "mL", "cm**3", "gal_US"],
    "K": ["K", "mK", "kK", "R"],
    "I": ["A", "mA", "kA"],
    "I T": ["C", "mC", "A*s", "A*hr"],
    "L1/2": ["sqrt(m)", "sqrt(km)", "cm**(1/2)"],
}
REAL_ATOMS = {"M": ["g", "kg", "mg", "lb"], "L": ["m", "km", "cm", "inch", "ft"], "T": ["s", "ms", "min", "hr"],
              "A": ["rad", "degree", "arcmin"], "K": ["K", "mK", "R"], "I": ["A", "mA"]}
# custom registries: the same code-unit names with different sizes (two simulation datasets)
REAL_CODE = {
    "R1": {"code_length": (3.5, "L"), "code_time": (0.3, "T"), "code_mass": (1.989e30, "M")},
    "R2": {"code_length": (7250.0, "L"), "code_time": (86.4, "T"), "code_mass": (2.5e-3, "M")},
}
_IDX = {"M": 0, "L": 1, "T": 2, "K": 3, "A": 4, "I": 5}


class RealPool:
    name = "real"
    exact = False
    regs = ["default", "default", "default", "R1", "R2"]

    def __init__(self, wide=False):
        self.fam = {dims.D(k): list(v) for k, v in REAL_FAMILIES.items()}
        self.leaf_dims = [dims.D(k) for k in ("L", "L", "T", "M", "A", "", "M L2 T-2", "M L2 T-3", "M L T-2", "M L-1 T-2", "L T-1",
                                              "T-1", "L2", "L3", "K", "I", "I T", "L1/2")]
        self._res = {"default": names.resolver()}
        for tag, code in REAL_CODE.items():
            self._res[tag] = names.resolver({k: (v[0], dims.D(v[1])) for k, v in code.items()})

    def named(self, dim, reg):
        out = list(self.fam.get(dim, ()))
        if reg in REAL_CODE:
            for k, (v, d) in REAL_CODE[reg].items():
                if dims.D(d) == dim:
                    out += [k, k]
        return out

    def compose(self, dim, rnd, reg):
        for i, x in enumerate(dim):
            if x != 0 and i not in _IDX.values():
                raise ValueError("dimension outside the real pool")

        def pick(letter):
            c = list(REAL_ATOMS[letter])
            if reg in REAL_CODE:
                c += [k for k, (v, d) in REAL_CODE[reg].items() if d == letter]
            return rnd.choice(c)
        num, den = [], []
        for letter in ("M", "L", "T", "K", "A", "I"):
            e = dim[_IDX[letter]]
            if e == 0:
                continue
            (num if e > 0 else den).append(dyadic.fmt_pow(pick(letter), abs(e)))
        if not num and not den:
            return "dimensionless"
        s = "*".join(num) if num else "1"
        if den:
            s += "/" + ("(" + "*".join(den) + ")" if len(den) > 1 else den[0])
        return s

    def units(self, dim, rnd, n, reg):
        named = self.named(dim, reg)
        out = []
        for _ in range(20 * n):
            if named and rnd.random() < 0.75:
                e = rnd.choice(named)
            else:
                e = self.compose(dim, rnd, reg)
            if e not in out:
                out.append(e)
            if len(out) >= n:
                break
        return [out[i % len(out)] for i in range(n)]

    def ref(self, expr, reg):
        return uexpr.evaluate(expr, self._res[reg])


# ------------------------------------------------------------------------------------------------ generation
VALS = [1, 2, 3, 4, 5, 6, 7, 9, 10, 12, 0.5, 1.5, 2.5, 0.25, 0.75, 3.5, 8, 11, 13, 100, 1, 2, 3]
SHAPES = [(), (), (3,), (3,), (3,), (2, 3), (2, 3), (3, 2), (3, 3)]
LO, HI = 2.0 ** -250, 2.0 ** 250


def _values(rnd, shape, positive=False):
    n = int(np.prod(shape)) if shape else 1
    out = []
    for _ in range(n):
        v = float(rnd.choice(VALS))
        if not positive and rnd.random() < 0.15:
            v = -v
        out.append(v)
    return out


def _in_range(val):
    vals = val if isinstance(val, tuple) else (val,)
    for v in vals:
        a = np.asarray(v.si)
        if a.dtype.kind == "b":
            continue
        if not np.all(np.isfinite(a)):
            return False
        nz = np.abs(a[a != 0])
        if nz.size and (nz.min() < LO or nz.max() > HI):
            return False
        for x in v.dim:
            if abs(x) > 12 or x.denominator not in (1, 2, 3, 4, 6):
                return False
    return True


def _bshape(*shapes):
    try:
        return tuple(np.broadcast_shapes(*shapes))
    except ValueError:
        return None


class Gen:
    def __init__(self, rnd, pool, nvar, ops=None):
        self.rnd, self.pool, self.nvar = rnd, pool, nvar
        self.I = siinterp.Interp(pool.exact)
        self.nodes, self.vals, self.depth = [], [], []
        self.bare = []          # node is a bare number / unit-less result (sign, sin, cos, tan): not a quantity operand
        self.ops = ops or list(CATALOGUE)

    # -- leaves
    def leaf(self, dim=None, shape=None, bare=None, positive=False, reg=None, units=None, dtype=None):
        """dtype (None = float64; "f4", "i8", "c16") is only used by the enumerated single-variant matrix"""
        r = self.rnd
        if shape is None:
            shape = r.choice(SHAPES)
        if bare is None:
            bare = (dim is None or dim == dims.ZERO) and r.random() < (0.08 if dim is None else 0.35)
        vals = _values(r, shape, positive)
        imag = None
        if dtype == "i8":
            vals = [float(int(v) if v == int(v) else int(v * 4)) for v in vals]
        if dtype == "c16":
            imag = _values(r, shape, False)
        if bare:
            node = {"op": "leaf", "kind": "bare", "shape": list(shape), "vals": vals, "reg": None, "units": None}
            v = siinterp.leaf(np.array(vals).reshape(shape), 1.0, dims.ZERO)
        else:
            if dim is None:
                dim = r.choice(self.pool.leaf_dims)
            reg = reg or r.choice(self.pool.regs)
            units = units or self.pool.units(dim, r, self.nvar, reg)
            s, d = self.pool.ref(units[0], reg)
            assert d == dim, (units, d, dim)
            node = {"op": "leaf", "kind": "q", "shape": list(shape), "vals": vals, "reg": reg, "units": units}
            arr = np.array(vals).reshape(shape)
            if dtype:
                node["dtype"] = dtype
            if imag is not None:
                node["imag"] = imag
                arr = arr + 1j * np.array(imag).reshape(shape)
            v = siinterp.leaf(arr, s, dim, 0.0 if self.pool.exact else 3 * siinterp.EPS)
        return self._push(node, v, 0)

    def _push(self, node, val, depth):
        self.bare.append(node.get("kind") == "bare" or node["op"] in ("sign", "sin", "cos", "tan"))
        self.nodes.append(node)
        self.vals.append(val)
        self.depth.append(depth)
        return len(self.nodes) - 1

    def usable(self, maxdepth, pred=None):
        out = []
        for i, v in enumerate(self.vals):
            if isinstance(v, tuple) or v.isbool or self.depth[i] >= maxdepth:
                continue
            if pred is None or pred(i, v):
                out.append(i)
        return out

    def can_have_unit(self, dim):
        if self.pool.exact and any(x.denominator in (3, 6) for x in dim):
            return False     # 4096**(1/3) is not exactly 16 in unyt's float pow: no such leaves in the exact pool
        try:
            self.pool.units(dim, self.rnd, 1, self.pool.regs[0])
            return True
        except Exception:
            return False

    # -- one operation
    def step(self, maxdepth, op=None, form=None):
        r = self.rnd
        op = op or r.choice(self.ops)
        cat, forms = CATALOGUE[op]
        form = form or r.choice(forms)
        node = {"op": op, "form": form}
        I = self.I
        exact_only = self.pool.exact and op in DISCONTINUOUS
        ok_operand = (lambda i, v: not v.err.any()) if exact_only else None
        cand = self.usable(maxdepth, ok_operand)
        if not cand:
            return None
        if cat in ("bin_same", "bin_any"):
            a = r.choice(cand)
            A = self.vals[a]
            if cat == "bin_same":
                partners = [i for i in cand if self.vals[i].dim == A.dim and _bshape(A.shape, self.vals[i].shape) is not None and i != a]
                if partners and r.random() < 0.5:
                    b = r.choice(partners)
                else:
                    if not self.can_have_unit(A.dim):
                        return None
                    shp = r.choice([A.shape, A.shape, (), (3,) if _bshape(A.shape, (3,)) else A.shape])
                    b = self.leaf(dim=A.dim, shape=shp, bare=(A.dim == dims.ZERO and r.random() < 0.3))
            else:
                partners = [i for i in cand if _bshape(A.shape, self.vals[i].shape) is not None]
                if r.random() < 0.6:
                    b = r.choice(partners)
                elif r.random() < 0.5:
                    b = self.leaf(dim=dims.ZERO, shape=(), bare=True)
                else:
                    b = self.leaf(shape=r.choice([A.shape, ()]))
            if r.random() < 0.5:
                a, b = b, a
            A, B = self.vals[a], self.vals[b]
            if self.bare[a] and self.bare[b]:
                return None
            shape = _bshape(A.shape, B.shape)
            if form == "outer":
                if A.si.ndim != 1 or B.si.ndim != 1:
                    form = node["form"] = "call"
            if form == "iop" and (shape != A.shape or (self.nodes[a].get("kind") == "bare" and A.shape == ())):
                form = node["form"] = "op" if op in OPSYM else "call"
            if form in ("out", "outnd") and (shape == () or shape is None):
                form = node["form"] = "call"
            try:
                if op == "divmod":
                    val = I.divmod(A, B)
                elif form == "outer":
                    val = I.outer(op, A, B)
                else:
                    val = I.binary(op, A, B)
            except (siinterp.RefError, ValueError):
                return None
            node["args"] = [a, b]
        elif cat in ("unary", "trig"):
            if cat == "trig":
                ang = [i for i in cand if self.vals[i].dim == ANGLE]
                a = r.choice(ang) if ang and r.random() < 0.7 else self.leaf(dim=ANGLE)
            elif op in ("sqrt",):
                pos = [i for i in cand if np.all(self.vals[i].si > 0)]
                if not pos:
                    return None
                a = r.choice(pos)
            else:
                a = r.choice(cand)
            A = self.vals[a]
            if self.bare[a]:
                return None
            if form in ("out", "outnd") and A.shape == ():
                form = node["form"] = "call"
            try:
                val = I.unary(op, A)
            except siinterp.RefError:
                return None
            node["args"] = [a]
        elif cat == "power":
            a = r.choice(cand)
            A = self.vals[a]
            if self.bare[a]:
                return None
            p = r.choice(POWERS)
            if isinstance(p, float) and p != int(p) and not np.all(A.si > 0):
                p = r.choice([2, 3, -1])
            pk = r.choice(PKINDS)
            if pk == "int" and p != int(p):
                pk = "float"
            if pk == "int":
                p = int(p)
            if pk == "arrsame" and A.shape == ():
                pk = "float"
            if form == "iop" and A.shape == () and False:
                form = node["form"] = "op"
            if form == "out" and A.shape == ():
                form = node["form"] = "call"
            try:
                val = I.power(A, Fr(1, 3) if p == 1.0 / 3.0 else p)
            except siinterp.RefError:
                return None
            node["args"] = [a]
            node["p"] = p
            node["pkind"] = pk
        elif cat == "reduce":
            arrs = [i for i in cand if self.vals[i].si.ndim >= 1]
            if not arrs:
                return None
            a = r.choice(arrs)
            A = self.vals[a]
            if self.bare[a]:
                return None
            nd = A.si.ndim
            axes = [0, None] + ([1, -1, (0, 1)] if nd == 2 else [])
            axis = r.choice(axes)
            name, _, method = op.partition(".")
            if op == "mean":
                if isinstance(axis, tuple):
                    axis = None
                try:
                    val = I.aggregate("mean", A, axis)
                except siinterp.RefError:
                    return None
            else:
                if method == "accumulate":
                    if axis is None or isinstance(axis, tuple):
                        axis = 0
                if form in ("np", "method") and method == "accumulate" and name != "add":
                    form = node["form"] = "ufunc"
                try:
                    val = I.reduce(name, A, axis=axis, method=method)
                except (siinterp.RefError, ValueError):
                    return None
            if form == "out" and val.shape == ():
                form = node["form"] = "ufunc"
            node["args"] = [a]
            node["axis"] = list(axis) if isinstance(axis, tuple) else axis
        elif cat == "product":
            a = r.choice(cand)
            A = self.vals[a]
            need = {"dot": lambda s: s, "cross": lambda s: s}
            # choose b's shape so that the product is defined
            sa = A.shape
            if op in ("vdot",):
                if len(sa) != 1:
                    return None
                sb = sa
            elif op == "cross":
                if sa != (3,):
                    return None
                sb = (3,)
            elif op == "outerprod":
                if len(sa) != 1:
                    return None
                sb = (r.choice([2, 3]),)
            elif op == "vecdot":
                if len(sa) < 1:
                    return None
                sb = r.choice([sa, sa[-1:]])
            elif op == "inner":
                if len(sa) < 1:
                    return None
                sb = r.choice([sa[-1:], (2, sa[-1])])
            else:  # dot, matmul
                if len(sa) < 1:
                    return None
                sb = r.choice([(sa[-1],), (sa[-1], 2), (sa[-1], 3)])
            partners = [i for i in cand if self.vals[i].shape == tuple(sb) and i != a]
            if partners and r.random() < 0.5:
                b = r.choice(partners)
            else:
                b = self.leaf(shape=tuple(sb), bare=(r.random() < 0.1))
            if self.bare[a] and self.bare[b]:
                return None
            A, B = self.vals[a], self.vals[b]
            try:
                val = I.product({"outerprod": "outer"}.get(op, op), A, B)
            except (siinterp.RefError, ValueError):
                return None
            if form == "out" and val.shape == ():
                form = node["form"] = "np"
            node["args"] = [a, b]
        else:
            return None
        if not _in_range(val):
            return None
        node["shape"] = list(val[0].shape if isinstance(val, tuple) else val.shape)
        d = 1 + max(self.depth[i] for i in node["args"])
        return self._push(node, val, d)

    def program(self):
        return {"pool": self.pool.name, "nvar": self.nvar, "nodes": self.nodes}


def random_program(rnd, pool, nvar, nops, maxdepth=6):
    g = Gen(rnd, pool, nvar)
    for _ in range(rnd.choice([2, 2, 3])):
        g.leaf()
    made = 0
    tries = 0
    while made < nops and tries < 6 * nops:
        tries += 1
        n0 = len(g.nodes)
        if g.step(maxdepth) is not None:
            made += 1
        else:
            # drop leaves created for a rejected step? keep them: they are harmless unused operands
            pass
    return g.program() if made else None


def ref_eval(I, node, vals):
    """reference value of one (non-leaf) node given the reference values of the earlier nodes"""
    op, form = node["op"], node["form"]
    cat = CATALOGUE[op][0]
    args = [vals[i] for i in node["args"]]
    if cat in ("bin_same", "bin_any"):
        if op == "divmod":
            return I.divmod(*args)
        if form == "outer":
            return I.outer(op, *args)
        return I.binary(op, *args)
    if cat in ("unary", "trig"):
        return I.unary(op, args[0])
    if cat == "power":
        p = node["p"]
        return I.power(args[0], Fr(1, 3) if p == 1.0 / 3.0 else p)
    if cat == "reduce":
        axis = node["axis"]
        axis = tuple(axis) if isinstance(axis, list) else axis
        if op == "mean":
            return I.aggregate("mean", args[0], axis)
        name, _, method = op.partition(".")
        return I.reduce(name, args[0], axis=axis, method=method)
    if cat == "product":
        return I.product({"outerprod": "outer"}.get(op, op), *args)
    raise siinterp.RefError(op)


def single_op_program(rnd, pool, op, form, operands, extra=None, dtypes=None):
    """depth-1 program for the enumerated matrix: op(form) on leaves; operands = [(unit expr or None for a bare number,
    shape, registry tag), ...] in argument order"""
    g = Gen(rnd, pool, 1)
    cat = CATALOGUE[op][0]
    ids = []
    for k, (u, shp, reg) in enumerate(operands):
        if u is None:
            ids.append(g.leaf(dim=dims.ZERO, shape=tuple(shp), bare=True, positive=True))
        else:
            ids.append(g.leaf(dim=pool.ref(u, reg)[1], shape=tuple(shp), bare=False, reg=reg, units=[u], positive=(op in ("sqrt",)),
                              dtype=(dtypes[k] if dtypes and dtypes[k] != "f8" else None)))
    a = ids[0]
    node = {"op": op, "form": form}
    I = g.I
    try:
        if cat in ("bin_same", "bin_any", "product"):
            b = ids[1]
            A, B = g.vals[a], g.vals[b]
            if cat == "product":
                val = I.product({"outerprod": "outer"}.get(op, op), A, B)
            elif op == "divmod":
                val = I.divmod(A, B)
            elif form == "outer":
                val = I.outer(op, A, B)
            else:
                val = I.binary(op, A, B)
            node["args"] = [a, b]
        elif cat in ("unary", "trig"):
            val = I.unary(op, g.vals[a])
            node["args"] = [a]
        elif cat == "power":
            p, pk = extra
            val = I.power(g.vals[a], Fr(1, 3) if p == 1.0 / 3.0 else p)
            node.update(args=[a], p=p, pkind=pk)
        elif cat == "reduce":
            axis = extra
            name, _, method = op.partition(".")
            val = I.aggregate("mean", g.vals[a], axis) if op == "mean" else I.reduce(name, g.vals[a], axis=axis, method=method)
            node.update(args=[a], axis=list(axis) if isinstance(axis, tuple) else axis)
        else:
            return None
    except (siinterp.RefError, ValueError, IndexError, TypeError):
        return None
    if not _in_range(val):
        return None
    node["shape"] = list(val[0].shape if isinstance(val, tuple) else val.shape)
    if form in ("out", "outnd") and node["shape"] == []:
        return None            # NumPy hands a 0-d out= target back as a scalar: not a call form of interest
    if form == "iop" and list(g.vals[a].shape) != node["shape"]:
        return None
    g._push(node, val, 1)
    return g.program()
