"""C15 workload dimension 'unit systems whose base units are not plain scalings of named units'.

A spec is plain data:

  {"kind": "nonplain", "family": <family>, "name": <unit system name>,
   "base": {"length": B, "mass": B, "time": B, "temperature": B, "angle": B, "current": B or None},
   "override": [{"dim": <attribute of unyt.dimensions>, "unit": <unit string>, "atoms": [[prefix factor, symbol], ...]}, ...],
   "code": [[symbol, scale, dimspec, offset or None], ...] or None}          # symbols added to a private registry first

  B = {"unit": <documented unit name>, "coeff": None | number | [num, den], "how": "string" | "Unit" | "quantity" | "setitem"}

how = the door through which the base unit gets into the system: a string / a Unit object / a quantity handed to the UnitSystem
constructor, or us[<dimension>] = <string> after a construction with the default unit of that dimension.

Families (each is a counter of the check and part of its INCONCLUSIVE gate):
  offset-temperature   temperature unit with a zero-point offset (degC, degF, every documented spelling, SI-prefixed degC)
  scaled-base          base units written coefficient*unit (10*m, 2.5*s, m/3, 1e3*g, 3*K, 3*A), one dimension at a time and all at once
  angle                angle unit other than rad (degree, arcmin, ..., the offset scales lat/lon, 2*rad)
  current              current unit other than A (prefixed, scaled, handed over as an object, set after construction)
  derived-override     a derived dimension given its own unit (energy in eV, velocity in km/hr, ...), also together with an offset base
  offset-code-unit     a registry with user-added symbols of which the temperature symbol carries a zero-point offset
  mixed                seeded combinations of all of the above
"""
import math

FAMILIES = ("offset-temperature", "scaled-base", "angle", "current", "derived-override", "offset-code-unit", "mixed")
DIMS = ("length", "mass", "time", "temperature", "angle", "current")
DEFAULT = {"length": "m", "mass": "kg", "time": "s", "temperature": "K", "angle": "rad", "current": "A"}
HOWS = ("string", "Unit", "quantity", "setitem")
# position of each base dimension in a vf.ref.dims vector
DIMIDX = {"mass": 0, "length": 1, "time": 2, "temperature": 3, "angle": 4, "current": 5}

CONTEXTS = (                       # (length, mass, time, current)
    ("m", "kg", "s", "A"),
    ("ft", "lb", "s", "A"),
    ("cm", "g", "s", None),
    ("kpc", "Msun", "Myr", "A"),
    ("mm", "g", "ms", "mA"),
)
OFFSET_T = ("degC", "degF", "degree_celsius", "degree_Celsius", "celcius", "celsius", "°C", "degree_fahrenheit", "degree_Fahrenheit",
            "fahrenheit", "°F", "mdegC", "kdegC", "udegC")
ANGLES = ("degree", "lat", "arcmin", "lon", "arcsec", "mas", "hourangle", "rev", "gradian", "deg", "latitude", "longitude")
COEFFS = (10, 2.5, [1, 3], 1e3, 1e-3, 3, 0.1, [7, 2], 64, 1.0)
OVERRIDES = (
    {"dim": "energy", "unit": "eV", "atoms": [[1.0, "eV"]]},
    {"dim": "velocity", "unit": "km/hr", "atoms": [[1e3, "m"], [1.0, "hr"]]},
    {"dim": "energy", "unit": "erg", "atoms": [[1.0, "erg"]]},
    {"dim": "area", "unit": "cm**2", "atoms": [[1e-2, "m"]]},
    {"dim": "force", "unit": "dyne", "atoms": [[1.0, "dyn"]]},
    {"dim": "charge_mks", "unit": "mC", "atoms": [[1e-3, "C"]]},
    {"dim": "acceleration", "unit": "cm/s**2", "atoms": [[1e-2, "m"], [1.0, "s"]]},
    {"dim": "velocity", "unit": "c", "atoms": [[1.0, "c"]]},
    {"dim": "mass", "unit": "Msun", "atoms": [[1.0, "Msun"]]},
    {"dim": "temperature", "unit": "degF", "atoms": [[1.0, "degF"]]},
)


def B(unit, coeff=None, how="string"):
    return {"unit": unit, "coeff": coeff, "how": how}


def _spec(family, tag, i, ctx=CONTEXTS[0], **over):
    base = {"length": B(ctx[0]), "mass": B(ctx[1]), "time": B(ctx[2]), "temperature": B("K"), "angle": B("rad"),
            "current": B(ctx[3]) if ctx[3] else None}
    base.update(over)
    return {"kind": "nonplain", "family": family, "name": f"c15_np_{tag}_{i}", "base": base, "override": [], "code": None}


def _code_spec(tag, i, scales, offset, current, temperature_how="string"):
    code = [["code_length", scales[0], "L", None], ["code_mass", scales[1], "M", None], ["code_time", scales[2], "T", None],
            ["code_temperature", scales[3], "K", offset]]
    s = {"kind": "nonplain", "family": "offset-code-unit", "name": f"c15_np_{tag}_{i}", "override": [], "code": code,
         "base": {"length": B("code_length"), "mass": B("code_mass"), "time": B("code_time"),
                  "temperature": B("code_temperature", None, temperature_how), "angle": B("rad"),
                  "current": B("A") if current else None}}
    return s


def specs(tier, r):
    """enumerated part first (ignores the seed), then the seeded 'mixed' family drawn from r"""
    quick = tier == "quick"
    out = []
    # ---- offset temperature units: every spelling once (door by rotation), degC/degF through every door and in every context
    k = 0
    for j, t in enumerate(OFFSET_T):
        hows = HOWS if t in ("degC", "degF") else ((HOWS[j % 4],) if quick else ("string", HOWS[1 + j % 3]))
        for how in hows:
            out.append(_spec("offset-temperature", "off", k, temperature=B(t, None, how)))
            k += 1
    for ctx in CONTEXTS[1:]:
        for j, t in enumerate(("degC", "degF") if quick else ("degC", "degF", "mdegC")):
            for how in (HOWS[(j + len(ctx[0])) % 2 * 3],):
                out.append(_spec("offset-temperature", "off", k, ctx=ctx, temperature=B(t, None, how)))
                k += 1
    # ---- scaled base units: one dimension at a time (coefficient form and door by rotation), then all at once
    k = 0
    scal_dims = ("length", "mass", "time", "temperature", "current")
    for j, d in enumerate(scal_dims):
        for m in range(2 if quick else 4):
            co = COEFFS[(j * 2 + m) % len(COEFFS)]
            for how in (HOWS[(j + m * 2 + 1) % 4],):
                out.append(_spec("scaled-base", "sc", k, **{d: B(DEFAULT[d], co, how)}))
                k += 1
    for how in HOWS:
        out.append(_spec("scaled-base", "sc", k, length=B("m", 10, how), mass=B("g", 1e3, how), time=B("s", 2.5, how),
                         temperature=B("K", [1, 3], how), current=B("A", 3, how)))
        k += 1
        if not quick:
            ctx = CONTEXTS[1 + HOWS.index(how)]
            out.append(_spec("scaled-base", "sc", k, ctx=ctx, length=B(ctx[0], 7, how), mass=B(ctx[1], 0.1, how),
                             time=B(ctx[2], [7, 2], how)))
            k += 1
    # ---- angle units
    k = 0
    for j, a in enumerate(ANGLES[:3] if quick else ANGLES):
        for how in (HOWS[j % 4],):
            out.append(_spec("angle", "ang", k, angle=B(a, None, how)))
            k += 1
    out.append(_spec("angle", "ang", k, angle=B("rad", 2, "quantity")))
    # ---- current units
    k = 0
    cur = [B("mA"), B("A", 3, "string"), B("A", 0.1, "quantity"), B("kA", None, "setitem"), B("uA", None, "Unit")]
    if not quick:
        cur += [B("A", c, HOWS[i % 4]) for i, c in enumerate(COEFFS[:6])]
    for b in cur:
        out.append(_spec("current", "cur", k, current=b))
        k += 1
    # ---- derived dimensions with their own unit
    k = 0
    sets = [[0], [1, 2], [3, 5], [9, 0, 1], [6, 4], [7], [8]]
    for j, idx in enumerate(sets[:4] if quick else sets):
        s = _spec("derived-override", "ovr", k, ctx=CONTEXTS[j % 2])
        s["override"] = [OVERRIDES[i] for i in idx]
        out.append(s)
        k += 1
    s = _spec("derived-override", "ovr", k, temperature=B("degC"), length=B("m", 10, "string"))
    s["override"] = [OVERRIDES[0], OVERRIDES[1]]
    out.append(s)
    # ---- private registries with an offset temperature symbol
    k = 0
    codes = [((3.0, 5.0, 7.0, 2.0), -100.0, True, "string"), ((1e21, 2e33, 3e13, 1.0), -273.15, False, "setitem"),
             ((0.01, 0.001, 1.0, 5.0 / 9.0), -459.67, True, "Unit")]
    if not quick:
        codes += [((10.0 ** (6 * i - 9), 10.0 ** (10 * i - 10), 10.0 ** (4 * i - 4), 0.5 + i), -50.0 * i - 1.0, bool(i % 3), HOWS[i % 4])
                  for i in range(4)]
    for sc, off, cur_, how in codes:
        out.append(_code_spec("code", k, sc, off, cur_, how))
        k += 1
    # ---- seeded combinations
    n = 8 if quick else 60        # the thorough tier stays within ~3x the quick size of this dimension
    for i in range(n):
        ctx = r.choice(CONTEXTS)
        s = _spec("mixed", "mix", i, ctx=ctx)
        b = s["base"]
        for d in ("length", "mass", "time"):
            if r.random() < 0.5:
                b[d] = B(b[d]["unit"], r.choice(COEFFS), r.choice(HOWS))
        u = r.random()
        if u < 0.55:
            b["temperature"] = B(r.choice(OFFSET_T), None, r.choice(("string", "Unit", "setitem")))
        elif u < 0.8:
            b["temperature"] = B(r.choice(("K", "R")), r.choice(COEFFS), r.choice(HOWS))
        if r.random() < 0.4:
            b["angle"] = B(r.choice(ANGLES), None, r.choice(HOWS))
        if b["current"] is not None and r.random() < 0.5:
            b["current"] = B(r.choice(("A", "mA", "kA")), r.choice((None,) + COEFFS), r.choice(HOWS))
        if r.random() < 0.3:
            s["override"] = [r.choice(OVERRIDES[:8])]
        out.append(s)
    return out


# ------------------------------------------------------------------ construction (inside the worker)
def coeff_value(co):
    if co is None:
        return 1.0
    if isinstance(co, (list, tuple)):
        return co[0] / co[1]
    return float(co)


def spelled(b):
    """the base unit as a string the way a user writes it: '10*m', '2.5*s', 'm/3', '7*ft/2'"""
    co, u = b["coeff"], b["unit"]
    if co is None:
        return u
    if isinstance(co, (list, tuple)):
        return (f"{co[0]}*" if co[0] != 1 else "") + f"{u}/{co[1]}"
    return f"{co!r}*{u}"


def handed_over(unyt, b, registry):
    """the object given to the UnitSystem constructor for this base unit"""
    how = b["how"]
    kw = {"registry": registry} if registry is not None else {}
    if how == "string":
        return spelled(b)
    if how == "Unit":
        return unyt.Unit(spelled(b), **kw)
    if how == "quantity":
        return unyt.unyt_quantity(coeff_value(b["coeff"]), b["unit"], **kw)
    raise ValueError(how)


CTOR_KW = {"length": "length_unit", "mass": "mass_unit", "time": "time_unit", "temperature": "temperature_unit", "angle": "angle_unit",
           "current": "current_mks_unit"}
SETITEM_KEY = {"length": "length", "mass": "mass", "time": "time", "temperature": "temperature", "angle": "angle", "current": "current_mks"}
UDIM = {"L": "length", "M": "mass", "T": "time", "K": "temperature"}


def build(unyt, spec, resolve, table_scale):
    """-> (registry, extra {sym: (scale, dimvec)}, offsets {sym: offset}, allowed atoms, has_current, info)
    resolve(name) -> (prefix factor, symbol) by the reference resolver; table_scale(lut, symbol) -> scale read as data.
    info = {"base_scale": [8 floats or None], "base_atoms": set, "affine_T": bool}"""
    from unyt.unit_systems import UnitSystem
    from vf.ref import dims
    base = spec["base"]
    extra, offsets = {}, {}
    reg = None
    if spec["code"]:
        reg = unyt.UnitRegistry()
        for sym, sc, dspec, off in spec["code"]:
            kw = {} if off is None else {"offset": off}
            reg.add(sym, sc, getattr(unyt.dimensions, UDIM[dspec]), **kw)
            extra[sym] = (sc, dims.D(dspec))
            if off is not None:
                offsets[sym] = off
    kw = {}
    later = []
    for d in DIMS:
        b = base[d]
        if b is None:
            kw[CTOR_KW[d]] = None
        elif b["how"] == "setitem":
            if spec["code"] and d in ("length", "mass", "time", "temperature"):
                kw[CTOR_KW[d]] = {"length": "code_length", "mass": "code_mass", "time": "code_time", "temperature": "K"}[d]
            else:
                kw[CTOR_KW[d]] = DEFAULT[d]
            later.append((SETITEM_KEY[d], spelled(b)))
        else:
            kw[CTOR_KW[d]] = handed_over(unyt, b, reg)
    us = UnitSystem(spec["name"], registry=reg, **kw)
    for key, val in later:
        us[key] = val
    for o in spec["override"]:
        us[o["dim"]] = o["unit"]
    if reg is None:
        reg = unyt.UnitRegistry(unit_system=spec["name"])
    else:
        reg.unit_system = us
    allowed = {(1.0, "cd"), (1.0, "Np"), (1.0, "dimensionless")}
    base_atoms = set(allowed)
    scale = [None] * 8
    scale[6] = scale[7] = 1.0
    affine_T = False
    for d in DIMS:
        b = base[d]
        if b is None:
            continue
        if b["unit"] in extra:
            f, sym, sc = 1.0, b["unit"], extra[b["unit"]][0]
        else:
            f, sym = resolve(b["unit"])
            sc = f * table_scale(reg.lut, sym)
        allowed.add((f, sym))
        base_atoms.add((f, sym))
        scale[DIMIDX[d]] = coeff_value(b["coeff"]) * sc
        if d == "temperature" and b["coeff"] is None and b["how"] != "quantity":
            affine_T = True        # a bare offset symbol: pure temperatures are absolute readings on that scale
    for o in spec["override"]:
        for f, sym in o["atoms"]:
            allowed.add((f, sym))
    info = {"base_scale": scale, "base_atoms": base_atoms, "affine_T": affine_T, "system": spec["name"]}
    return reg, extra, offsets, allowed, base["current"] is not None, info


def expected_unit_scale(info, dim):
    """size of the coherent product of the system's base units for a dimension vector; None if a needed base unit is absent"""
    s = 1.0
    for i, x in enumerate(dim):
        if x == 0:
            continue
        if info["base_scale"][i] is None:
            return None
        s *= info["base_scale"][i] ** float(x)
    return s if math.isfinite(s) and s != 0.0 else None
