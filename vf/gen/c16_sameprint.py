"""C16, last clause - workload dimension "which unit does each element of the sequence carry".

The clause (a list of quantities in mixed commensurable units is coerced to the first element's unit, values converted) is
decided by the library by comparing the elements' Unit objects.  Besides differently *spelled* units there is a whole class
of element units that PRINT THE SAME and differ in size:

  custom-registries    the same symbol added (UnitRegistry.add) to several registries with different values (code units)
  define-unit          the same symbol defined with unyt.define_unit(sym, (value, unit), registry=) in several registries
  modified-default     a default symbol (pc, Msun, yr, ...) changed with UnitRegistry.modify in one registry, untouched in another
  stale-modify         ONE registry: a Unit object built before UnitRegistry.modify and one built after it (snapshots)
  stale-readd          ONE registry: a Unit object built before remove+add of the symbol and one built after it
  registry-copy        a deep copy of a registry edited afterwards: original and copy define the symbol differently
  control-same-size    the same symbol added to two registries with the SAME value (prints the same, is the same: numbers stay)
  spelled-differently  ordinary default-registry units of the dimension (m/km/cm ...): the control every refusal is compared with

each over unit *templates* (the bare symbol, a power, a quotient, a numeric coefficient, an SI prefix on the symbol).

What an element denotes is decided here without unyt: every registry edit made on the real registry is mirrored on a
vf.ref.regmodel.RegModel (independent table vf/ref/defs.py + the numbers this harness itself passes to add/modify/define_unit),
and the scale of a Unit object is the model's evaluation of its expression AT THE TIME THE OBJECT WAS BUILT (a Unit object is
a snapshot).  build() returns Handle objects: the real Unit object to attach to data plus that reference scale.

The module also holds the list of *doors* through which a sequence of quantities is coerced (constructor spellings, nested
sequences, sequence operand of a binary ufunc in either position / operator, reflected operator, in-place operator, item
assignment forms, np.copyto) as (name, family, fn(env)) - the driver in vf/props/c16.py judges what they return.
"""
import copy
from collections import namedtuple
import numpy as np
from vf.ref import regmodel

Handle = namedtuple("Handle", "label unit expr scale tol reg fresh")    # fresh: the expression re-read in `reg` now still means this
Pool = namedtuple("Pool", "cls fam template same plain")               # same: handles printing alike; plain: differently spelled ones

# values given to the edited symbol (SI); pairs drawn from it always differ by a factor far from 1
SCALES = (1.0, 10.0, 0.25, 3.0e3, 7.5e-4, 4096.0, 2.5, 1.0e16)

FAMS = {
    "length": {"dim": "L", "plain": ("m", "km", "cm"), "modify": ("pc", "mile", "AU", "ft"), "custom": ("code_length", "Lbox"), "def_in": ("cm", "km")},
    "mass": {"dim": "M", "plain": ("kg", "g", "lb"), "modify": ("Msun", "lb", "oz"), "custom": ("code_mass", "Mhalo"), "def_in": ("g", "kg")},
    "time": {"dim": "T", "plain": ("s", "ms", "hr"), "modify": ("yr", "day", "hr"), "custom": ("code_time", "Torb"), "def_in": ("ms", "hr")},
}
# (template name, format applied to the symbol, needs a prefixable symbol)
TEMPLATES = (("bare", "{s}", False), ("square", "{s}**2", False), ("per-K", "{s}/K", False), ("coefficient", "3*{s}", False), ("prefixed", "k{s}", True),
             ("product", "{s}*A", False), ("inverse", "1/{s}", False))
KINDS = ("custom-registries", "define-unit", "modified-default", "stale-modify", "stale-readd", "registry-copy", "control-same-size")
PREFIXABLE_PLAIN = {"length": ("m", "pc"), "mass": ("g",), "time": ("s", "yr")}

_PRISTINE = []


def _model():
    if not _PRISTINE:
        _PRISTINE.append(regmodel.RegModel(defaults=True))
    return _PRISTINE[0].copy()


def _handle(unyt, label, reg, model, expr, fresh=True):
    """the real Unit object for `expr` in `reg` (None: the library's default registry) + what the model says it denotes now"""
    v = model.evaluate(expr)
    u = unyt.Unit(expr) if reg is None else unyt.Unit(expr, registry=reg)
    return Handle(label, u, expr, float(v.scale), float(v.tol), reg, fresh)


def build(unyt, fam, kind, template, r):
    """-> Pool (None: combination not applicable).  r: random.Random for the choice of symbol names and values (structure is fixed by fam/kind/template)"""
    F = FAMS[fam]
    tname, tfmt, need_prefix = [t for t in TEMPLATES if t[0] == template][0]
    dim = regmodel.dim_expr(unyt, F["dim"])
    scales = list(SCALES)
    r.shuffle(scales)
    same = []
    if kind == "modified-default":
        cand = [s for s in F["modify"] if not need_prefix or s in PREFIXABLE_PLAIN[fam]]
        if not cand:
            return None                                  # no prefixable default symbol of this dimension to modify
        sym = r.choice(cand)
        expr = tfmt.format(s=sym)
        same.append(_handle(unyt, "default-registry", None, _model(), expr))
        for i in range(2):
            reg, m = unyt.UnitRegistry(), _model()
            reg.modify(sym, scales[i])
            m.modify(sym, scales[i])
            same.append(_handle(unyt, f"modified#{i}", reg, m, expr))
    elif kind in ("custom-registries", "control-same-size"):
        sym = r.choice(F["custom"])
        expr = tfmt.format(s=sym)
        for i in range(3 if kind == "custom-registries" else 2):
            sc = scales[i] if kind == "custom-registries" else scales[0]
            reg, m = unyt.UnitRegistry(), _model()
            reg.add(sym, sc, dim, prefixable=True)
            m.add(sym, sc, F["dim"], prefixable=True)
            same.append(_handle(unyt, f"registry#{i}", reg, m, expr))
    elif kind == "define-unit":
        sym = r.choice(F["custom"])
        expr = tfmt.format(s=sym)
        for i in range(2):
            reg, m = unyt.UnitRegistry(), _model()
            unyt.define_unit(sym, (scales[i], F["def_in"][i]), prefixable=True, registry=reg)
            if m.apply(("def", sym, scales[i], F["def_in"][i], True)) != "ok":
                raise RuntimeError("model refused define")
            same.append(_handle(unyt, f"registry#{i}", reg, m, expr))
    elif kind in ("stale-modify", "stale-readd"):
        custom = r.random() < 0.5 or kind == "stale-readd"
        cand = [s for s in F["modify"] if not need_prefix or s in PREFIXABLE_PLAIN[fam]]
        custom = custom or not cand
        sym = r.choice(F["custom"]) if custom else r.choice(cand)
        expr = tfmt.format(s=sym)
        reg, m = unyt.UnitRegistry(), _model()
        if custom:
            reg.add(sym, scales[0], dim, prefixable=True)
            m.add(sym, scales[0], F["dim"], prefixable=True)
        same.append(_handle(unyt, "before-edit", reg, m.copy(), expr, fresh=False))
        if kind == "stale-modify":
            reg.modify(sym, scales[1])
            m.modify(sym, scales[1])
        else:
            reg.remove(sym)
            m.remove(sym)
            reg.add(sym, scales[1], dim, prefixable=True)
            m.add(sym, scales[1], F["dim"], prefixable=True)
        same.append(_handle(unyt, "after-edit", reg, m.copy(), expr))
        if kind == "stale-modify":                      # a second edit: three snapshots of one entry
            reg.modify(sym, scales[2])
            m.modify(sym, scales[2])
            same[1] = same[1]._replace(fresh=False)
            same.append(_handle(unyt, "after-2nd-edit", reg, m.copy(), expr))
    elif kind == "registry-copy":
        sym = r.choice(F["custom"])
        expr = tfmt.format(s=sym)
        reg, m = unyt.UnitRegistry(), _model()
        reg.add(sym, scales[0], dim, prefixable=True)
        m.add(sym, scales[0], F["dim"], prefixable=True)
        reg2, m2 = copy.deepcopy(reg), m.copy()
        reg2.modify(sym, scales[1])
        m2.modify(sym, scales[1])
        same.append(_handle(unyt, "original", reg, m, expr))
        same.append(_handle(unyt, "edited-copy", reg2, m2, expr))
    else:
        raise ValueError(kind)
    pm = _model()
    plain_syms = [p for p in F["plain"] if not need_prefix or p in PREFIXABLE_PLAIN[fam]] if need_prefix else list(F["plain"])
    plain = [_handle(unyt, "plain:" + p, None, pm, tfmt.format(s=p)) for p in plain_syms]
    return Pool(kind, fam, template, same, plain)


def plain_pool(unyt, fam, template):
    """the control pool: only differently spelled default-registry units"""
    tname, tfmt, need_prefix = [t for t in TEMPLATES if t[0] == template][0]
    F = FAMS[fam]
    pm = _model()
    syms = [p for p in F["plain"] + F["modify"][:1] if not need_prefix or p in PREFIXABLE_PLAIN[fam]]
    hs = [_handle(unyt, "plain:" + p, None, pm, tfmt.format(s=p)) for p in dict.fromkeys(syms)]
    if len(hs) < 2:
        return None
    return Pool("spelled-differently", fam, template, hs, hs)


def sequences(pool):
    """orders of handles to put in one sequence: (structural name, [handles]); the first one gives the unit of the result"""
    S, Pl = pool.same, pool.plain
    out = []
    if pool.cls == "spelled-differently":
        out.append(("ab", [S[0], S[1]]))
        out.append(("ba", [S[1], S[0]]))
        if len(S) > 2:
            out.append(("abc", [S[0], S[1], S[2]]))
        out.append(("aab", [S[0], S[0], S[1]]))
        return out
    out.append(("ab", [S[0], S[1]]))
    out.append(("ba", [S[1], S[0]]))
    out.append(("aba", [S[0], S[1], S[0]]))
    out.append(("aab", [S[0], S[0], S[1]]))                    # the difference sits behind an equal neighbour
    if len(S) > 2:
        out.append(("abc", [S[0], S[1], S[2]]))
        out.append(("cab", [S[2], S[0], S[1]]))
    if Pl:
        out.append(("a-plain-b", [S[0], Pl[0], S[1]]))         # same-print elements around a differently spelled one
        out.append(("plain-a-b", [Pl[-1], S[0], S[1]]))        # a differently spelled unit leads: both siblings are converted, by their own sizes
    return out


def targets(pool, seq):
    """units for the other operand / the assignment target: (structural name, handle)"""
    first = seq[0]
    out = [("first-unit", first)]
    sib = [h for h in pool.same if h.unit is not first.unit and abs(h.scale / first.scale - 1) > 1e-6 and str(h.unit) == str(first.unit)]
    if sib:
        out.append(("same-print-sibling", sib[0]))
    oth = [h for h in pool.plain if str(h.unit) != str(first.unit)]
    if oth:
        out.append(("spelled-differently", oth[0]))
    return out


# ---------------------------------------------------------------------------------------------------- elements
# (name, per-element shape, dtype class)
BUILDERS = (("quantity", (), "f8"), ("unit-object*number", (), "f8"), ("str+registry", (), "f8"), ("int-quantity", (), "int"), ("0d-array", (), "f8"),
            ("1d-array", (2,), "f8"), ("f4-quantity", (), "f4"))


def element(unyt, builder, h, v):
    UA, UQ = unyt.unyt_array, unyt.unyt_quantity
    if builder == "quantity":
        return UQ(v, h.unit)
    if builder == "unit-object*number":
        return v * h.unit
    if builder == "str+registry":
        if h.fresh:
            return UQ(v, h.expr, registry=h.reg) if h.reg is not None else UQ(v, h.expr)
        return UQ(v, h.unit)                             # a stale snapshot cannot be spelled again
    if builder == "int-quantity":
        return UQ(int(v), h.unit)
    if builder == "0d-array":
        return UA(np.array(v), h.unit)
    if builder == "1d-array":
        return UA(np.array([v, 2 * v]), h.unit)
    if builder == "f4-quantity":
        return UQ(np.float32(v), h.unit)
    raise ValueError(builder)


def element_numbers(builder, v):
    """the numbers the element holds (reference side)"""
    if builder == "int-quantity":
        return np.float64(int(v))
    if builder == "f4-quantity":
        return np.float64(np.float32(v))
    if builder == "1d-array":
        return np.array([v, 2 * v], dtype="f8")
    return np.float64(v)


# ---------------------------------------------------------------------------------------------------- doors
# env attributes: seq() -> fresh sequence (list) of elements; tup() -> as tuple; nested() -> [[...], [...reversed]] (list of lists) or None;
# z() -> fresh unyt_array of the result's shape in the target unit (values env.zv); z2() -> same for the nested shape;
# t()/t2() -> fresh assignment targets (zeros) in the target unit; first_reg -> registry of the first element's unit; n -> len(seq)
# Every door: (name, family, result-unit rule, value rule, fn).  result-unit rule: 'first' | 'target' | 'bool'
# value rule: 'seq' (the converted sequence itself) or a NumPy function name applied as f(seq, z) / f(z, seq) on reference numbers
def _set(t, key, val):
    t[key] = val
    return t


def _copyto(np_, t, src, **kw):
    np_.copyto(t, src, **kw)
    return t


def _iop(z, op, seq):
    if op == "+":
        z += seq
    else:
        z -= seq
    return z


DOORS = (
    # constructor spellings
    ("unyt_array(list)", "ctor", "first", ("seq",), lambda e: e.UA(e.seq())),
    ("unyt_array(tuple)", "ctor", "first", ("seq",), lambda e: e.UA(e.tup())),
    ("unyt_array(input_array=list)", "ctor", "first", ("seq",), lambda e: e.UA(input_array=e.seq())),
    ("unyt_array(list,registry=first's)", "ctor", "first", ("seq",), lambda e: e.UA(e.seq(), registry=e.first_reg)),
    ("unyt_array(list,name=)", "ctor", "first", ("seq",), lambda e: e.UA(e.seq(), name="n")),
    ("unyt_array(nested-list)", "ctor-nested", "first", ("nested",), lambda e: e.UA(e.nested())),
    ("unyt_array(tuple-of-lists)", "ctor-nested", "first", ("nested",), lambda e: e.UA(tuple(e.nested()))),
    # sequence as operand of a binary ufunc: second position
    ("z+list", "ufunc-second", "target", ("add", "zs"), lambda e: e.z() + e.seq()),
    ("z-tuple", "ufunc-second", "target", ("subtract", "zs"), lambda e: e.z() - e.tup()),
    ("np.add(z,list)", "ufunc-second", "target", ("add", "zs"), lambda e: e.np.add(e.z(), e.seq())),
    ("np.maximum(z,list)", "ufunc-second", "target", ("maximum", "zs"), lambda e: e.np.maximum(e.z(), e.seq())),
    ("np.hypot(z,tuple)", "ufunc-second", "target", ("hypot", "zs"), lambda e: e.np.hypot(e.z(), e.tup())),
    ("np.less(z,list)", "ufunc-second", "bool", ("less", "zs"), lambda e: e.np.less(e.z(), e.seq())),
    ("z>=list", "ufunc-second", "bool", ("greater_equal", "zs"), lambda e: e.z() >= e.seq()),
    ("z+=list", "ufunc-inplace", "target", ("add", "zs"), lambda e: _iop(e.z(), "+", e.seq())),
    ("z-=tuple", "ufunc-inplace", "target", ("subtract", "zs"), lambda e: _iop(e.z(), "-", e.tup())),
    ("z2+nested", "ufunc-nested", "target", ("add", "zs", "nested"), lambda e: e.z2() + e.nested()),
    # ... first position (the reflected operators of unyt_array receive the list first: list + z -> z.__radd__ -> add(list, z))
    ("list+z", "ufunc-first", "first", ("add", "sz"), lambda e: e.seq() + e.z()),
    ("list-z", "ufunc-first", "first", ("subtract", "sz"), lambda e: e.seq() - e.z()),
    ("np.add(list,z)", "ufunc-first", "first", ("add", "sz"), lambda e: e.np.add(e.seq(), e.z())),
    ("np.subtract(tuple,z)", "ufunc-first", "first", ("subtract", "sz"), lambda e: e.np.subtract(e.tup(), e.z())),
    ("np.minimum(list,z)", "ufunc-first", "first", ("minimum", "sz"), lambda e: e.np.minimum(e.seq(), e.z())),
    ("np.fmax(list,z)", "ufunc-first", "first", ("fmax", "sz"), lambda e: e.np.fmax(e.seq(), e.z())),
    ("np.greater(list,z)", "ufunc-first", "bool", ("greater", "sz"), lambda e: e.np.greater(e.seq(), e.z())),
    ("np.add(nested,z2)", "ufunc-nested", "first", ("add", "sz", "nested"), lambda e: e.np.add(e.nested(), e.z2())),
    # item assignment
    ("t[:]=list", "setitem", "target", ("seq",), lambda e: _set(e.t(), slice(None), e.seq())),
    ("t[...]=tuple", "setitem", "target", ("seq",), lambda e: _set(e.t(), Ellipsis, e.tup())),
    ("t[0:n]=list", "setitem", "target", ("seq",), lambda e: _set(e.t(), slice(0, e.n), e.seq())),
    ("t[index-list]=list", "setitem", "target", ("seq",), lambda e: _set(e.t(), list(range(e.n)), e.seq())),
    ("t[::-1]=list", "setitem", "target", ("seq", "reversed"), lambda e: _set(e.t(), slice(None, None, -1), e.seq())),
    ("t2[:]=nested", "setitem-nested", "target", ("nested",), lambda e: _set(e.t2(), slice(None), e.nested())),
    # np.copyto: the destination takes over the unit of what was copied in
    ("np.copyto(t,list)", "copyto", "first", ("seq",), lambda e: _copyto(e.np, e.t(), e.seq())),
    ("np.copyto(t,tuple)", "copyto", "first", ("seq",), lambda e: _copyto(e.np, e.t(), e.tup())),
    ("np.copyto(t2,nested)", "copyto-nested", "first", ("nested",), lambda e: _copyto(e.np, e.t2(), e.nested())),
)
DOOR_FAMILIES = tuple(dict.fromkeys(d[1] for d in DOORS))
