"""npcatalog entries: numpy.linalg (square / stacked matrices) and numpy.fft."""
import numpy as np
from vf.gen.npcatalog import F, X, Multi, Skip, Q

SQ = ("sq", "stk")
PR = {"product"}
SD = {"same-dimension"}
M = lambda g: [g.square()]
SYM = lambda g: [g.square(kind="sym")]
SPD = lambda g: [g.square(kind="spd")]
NOU1 = ("f8", "i8", "c16", "f4", "i4")

F("numpy.linalg.det", M, shapes=SQ, tags=PR, dtypes=NOU1)
F("numpy.linalg.slogdet", M, shapes=SQ, dtypes=NOU1)
F("numpy.linalg.inv", M, shapes=SQ, tags=PR, dtypes=NOU1)
F("numpy.linalg.pinv", M, opt={"rcond": [1e-3], "hermitian": [False], "rtol": [1e-3]}, shapes=SQ, tags=PR, dtypes=NOU1,
  forms={"rect": (lambda g: [g.a(shape=(3, 4), lo=-3, hi=3)]), "hermitian": (lambda g: (SYM(g), {"hermitian": True})),
         "rank-deficient+rcond": (lambda g: ([g.q(np.outer([1, 2, 3], [1, 1, 2]).astype(g.dtype))], {"rcond": 0.1})), "pos-rcond": (lambda g: M(g) + [0.5])})
F("numpy.linalg.eig", M, shapes=SQ, dtypes=NOU1, tags={"mixed-result"})
F("numpy.linalg.eigvals", M, shapes=SQ, dtypes=NOU1, tags=SD)
F("numpy.linalg.eigh", SYM, opt={"UPLO": ["U"]}, shapes=SQ, dtypes=NOU1, tags={"mixed-result"},
  forms={"nonsymmetric": (lambda g: M(g)), "nonsymmetric-U": (lambda g: (M(g), {"UPLO": "U"})), "pos-UPLO": (lambda g: M(g) + ["U"])})
F("numpy.linalg.eigvalsh", SYM, opt={"UPLO": ["U"]}, shapes=SQ, dtypes=NOU1, tags=SD,
  forms={"nonsymmetric": (lambda g: M(g)), "nonsymmetric-U": (lambda g: (M(g), {"UPLO": "U"}))})
F("numpy.linalg.cholesky", SPD, opt={"upper": [True]}, shapes=SQ, dtypes=NOU1)
F("numpy.linalg.qr", M, opt={"mode": ["complete", "r", "raw"]}, shapes=SQ, dtypes=NOU1, forms={"rect": (lambda g: [g.a(shape=(4, 3), lo=-3, hi=3)]), "rect-complete": (lambda g: ([g.a(shape=(4, 3), lo=-3, hi=3)], {"mode": "complete"}))})
F("numpy.linalg.svd", M, opt={"full_matrices": [False], "compute_uv": [False], "hermitian": [False]}, shapes=SQ, dtypes=NOU1, tags={"mixed-result"},
  forms={"rect": (lambda g: [g.a(shape=(3, 5), lo=-3, hi=3)]), "rect-reduced": (lambda g: ([g.a(shape=(3, 5), lo=-3, hi=3)], {"full_matrices": False})),
         "hermitian": (lambda g: (SYM(g), {"hermitian": True})), "hermitian-novec": (lambda g: (SYM(g), {"hermitian": True, "compute_uv": False})),
         "pos-all": (lambda g: [g.a(shape=(4, 3), lo=-3, hi=3), False, True, False]), "pos-nouv": (lambda g: [g.a(shape=(4, 3), lo=-3, hi=3), True, False])})
F("numpy.linalg.svdvals", M, shapes=SQ, dtypes=NOU1, tags=SD, forms={"rect": (lambda g: [g.a(shape=(3, 5), lo=-3, hi=3)])})
F("numpy.linalg.cond", M, opt={"p": [1, "fro", np.inf, -2, 2]}, shapes=SQ, dtypes=NOU1)
F("numpy.linalg.matrix_rank", M, opt={"tol": [0.5], "hermitian": [False], "rtol": [0.2]}, shapes=SQ, dtypes=NOU1, tags={"index-like"},
  forms={"deficient": (lambda g: [g.q(np.outer([1, 2, 3], [1, 1, 2]).astype(g.dtype))]), "hermitian": (lambda g: (SYM(g), {"hermitian": True})),
         "deficient+tol-unit": (lambda g: ([g.q(np.diag([5.0, 1.0, 0.1]).astype(g.dtype))], {"tol": g.q(np.asarray(0.5))})), "vector": (lambda g: [g.a(shape=(4,))])})
F("numpy.linalg.matrix_power", lambda g: M(g) + [2], shapes=SQ, dtypes=NOU1, tags=PR, forms={"zero": (lambda g: M(g) + [0]), "neg": (lambda g: M(g) + [-1]), "three": (lambda g: M(g) + [3]),
                                                                                             "dimensionless": (lambda g: [g.square("1"), 3])})
F("numpy.linalg.matrix_transpose", M, shapes=SQ + ("2d",), tags=SD | {"view"})
F("numpy.linalg.diagonal", M, opt={"offset": [1, -1]}, shapes=SQ + ("2d",), tags=SD | {"view"})
F("numpy.linalg.trace", M, opt={"offset": [1], "dtype": ["f8"]}, shapes=SQ + ("2d",), tags=SD)
F("numpy.linalg.norm", lambda g: [g.a()], opt={"ord": [1, np.inf, -np.inf, 2, 0, 3], "axis": [0, -1], "keepdims": [True], "ord+axis": [Multi(ord=1, axis=0), Multi(ord="fro", axis=(0, 1)), Multi(ord="nuc", axis=(-2, -1)), Multi(ord=2, axis=(0, 1)), Multi(ord=-1, axis=(0, 1))]},
  shapes=("1d", "2d", "3d", "sq", "0d"), tags=SD, forms={"positional": (lambda g: [g.a(shape=(3, 4)), 1, 1, True]), "fro": (lambda g: [g.a(shape=(3, 4)), "fro"]), "nuc": (lambda g: [g.a(shape=(3, 4)), "nuc"]),
                                                         "mat-inf": (lambda g: [g.a(shape=(3, 4)), np.inf]), "mat-neg2": (lambda g: [g.a(shape=(3, 3)), -2])})
F("numpy.linalg.matrix_norm", lambda g: [g.a(lo=-3, hi=3)], opt={"keepdims": [True], "ord": [1, "nuc", np.inf, 2, -1]}, shapes=("2d", "3d", "sq", "stk"), tags=SD)
F("numpy.linalg.vector_norm", lambda g: [g.a()], opt={"axis": [0, (0, 1)], "keepdims": [True], "ord": [1, np.inf, 0, 3, -np.inf]}, shapes=("1d", "2d", "3d", "0d"), tags=SD)
F("numpy.linalg.solve", lambda g: [g.square(), g.a("B", shape=g.dims()[:-1] + (2,) if g.shape in SQ else (3, 2))], shapes=SQ, dtypes=NOU1, tags=PR,
  forms={"vector-b": (lambda g: [g.square(n=3), g.a("B", shape=(3,))] if g.shape == "sq" else [g.square(n=3), g.a("B", shape=(3, 1))])})
F("numpy.linalg.lstsq", lambda g: [g.a(shape=(5, 3), lo=-3, hi=3), g.a("B", shape=(5,))], opt={"rcond": [1e-3, -1]}, shapes=("2d",), dtypes=NOU1, tags={"mixed-result"},
  forms={"matrix-b": (lambda g: [g.a(shape=(5, 3), lo=-3, hi=3), g.a("B", shape=(5, 2))]), "underdetermined": (lambda g: [g.a(shape=(2, 4), lo=-3, hi=3), g.a("B", shape=(2,))]),
         "rank-deficient+rcond": (lambda g: ([g.q(np.outer([1, 2, 3, 4], [1, 1, 2]).astype(g.dtype)), g.a("B", shape=(4,))], {"rcond": 0.1})), "pos-rcond": (lambda g: [g.a(shape=(5, 3), lo=-3, hi=3), g.a("B", shape=(5,)), 0.5])})
_T6 = lambda g, shp: g.q((np.eye(6) * 5 + g.raw((6, 6), -1, 1).real).reshape(shp).astype(g.dtype))
F("numpy.linalg.tensorinv", lambda g: [_T6(g, (2, 3, 6))], shapes=("3d",), dtypes=NOU1, tags=PR,
  forms={"kw:ind": (lambda g: ([_T6(g, (6, 2, 3))], {"ind": 1})), "pos-ind": (lambda g: [_T6(g, (6, 3, 2)), 1]), "4d": (lambda g: [_T6(g, (2, 3, 2, 3)), 2])})
F("numpy.linalg.tensorsolve", lambda g: [_T6(g, (2, 3, 6)), g.a("B", shape=(2, 3))], shapes=("3d",), dtypes=NOU1, tags=PR,
  forms={"kw:axes": (lambda g: ([g.q(np.moveaxis(_T6(g, (2, 3, 6)).data, 2, 0).copy()), g.a("B", shape=(2, 3))], {"axes": (0,)}))})

# fft ---------------------------------------------------------------------------------------------------------------
FS = ("1d", "2d", "3d")
NORMS = ["ortho", "forward", "backward"]
for n in ("fft", "ifft", "rfft", "irfft", "hfft", "ihfft"):
    def fb(g, n=n):
        if n in ("rfft", "ihfft"):
            g.real_only()
        return [g.a()]
    F("numpy.fft." + n, fb, opt={"n": [4, 9, 3], "axis": [0], "norm": NORMS, "n+axis+norm": [Multi(n=5, axis=0, norm="ortho")]}, out=True, shapes=FS, tags=SD,
      forms={"positional": (lambda g, fb=fb: fb(g) + [6, 0, "forward"])})
for n in ("fft2", "ifft2", "rfft2", "irfft2", "fftn", "ifftn", "rfftn", "irfftn"):
    def fb2(g, n=n):
        if n.startswith("r"):
            g.real_only()
        if len(g.dims()) < 2:
            raise Skip("ndim<2")
        return [g.a()]
    F("numpy.fft." + n, fb2, opt={"s+axes": [Multi(s=(4, 3), axes=(0, 1)), Multi(s=(2, 6), axes=(-2, -1)), Multi(s=(3,), axes=(0,))], "axes": [(0, 1), (1, 0), (0,), (-1,)], "norm": NORMS},
      out=True, shapes=("2d", "3d", "sq"), tags=SD, forms={"positional": (lambda g, fb2=fb2: fb2(g) + [(4, 4), (0, 1), "ortho"])})
for n in ("fftshift", "ifftshift"):
    F("numpy.fft." + n, lambda g: [g.a()], opt={"axes": [0, (0,), -1, (0, 1)]}, shapes=("1d", "2d", "3d", "e1", "sq"), tags=SD, forms={"pos-axes": (lambda g: [g.a(shape=(3, 5)), 1])})
