"""C08 workload: data-dependent branches of temperature arithmetic.

The dimension is *what the operands hold and how they are spelled*, crossed with the operand position:

reading classes   exactly 0.0, -0.0, integer 0, float32 0, boolean False, the absolute zero of the operand's scale (for a difference
                  unit: minus 273.15 K written in that unit, so that `0 degC + d` lands on 0 K), NaN, +inf, -inf, the smallest subnormal
                  (not zero!), and an ordinary non-zero reading of the same dtype (the *control* of the spelling);
spellings         unyt_quantity, 0-d unyt_array, one-element array, 1x1 array, vector, 2-d array (all elements special), vector with
                  special and ordinary elements mixed; bare (unit-less) Python number, NumPy scalar, 0-d ndarray, list, ndarray;
positions         the special operand on the left, on the right, on both sides;
forms             operator (a bare left operand reaches the reflected method), ufunc, out= a fresh labelled buffer, out= a bare ndarray,
                  out= the left / the right operand, in-place operator; reductions (np.add/subtract.reduce, sum, nansum, cumsum,
                  accumulate, diff, ediff1d, ptp) over arrays with special content; conversions of special readings by every route.

Everything here only *builds operands and performs calls*; there is no expectation about the outcome in this module. The readings
the operands hold are handed back as float64 arrays so that the judge can do affine arithmetic on them independently.
"""
import numpy as np

CONTROL_VALUE = 12.5

# reading class -> (dtype group, group of the mechanism key)
READINGS = {
    "zero": ("f8", "zero"), "negzero": ("f8", "zero"), "abszero": ("f8", "abszero"), "nan": ("f8", "nonfinite"), "inf": ("f8", "nonfinite"),
    "ninf": ("f8", "nonfinite"), "tiny": ("f8", "tiny"),
    "izero": ("i8", "zero"), "f4zero": ("f4", "zero"), "false": ("b1", "zero"),
}
CONTROLS = {"f8": "control", "i8": "icontrol", "f4": "f4control", "b1": "true"}
ZERO_LIKE = ("zero", "negzero", "izero", "false")          # the only readings a bare operand is given (plus its control)

QSPELL = ("quantity", "0d", "1elem", "1x1", "vec", "2d", "mixed")
BSPELL = ("bare-py", "bare-np", "bare-0d", "bare-list", "bare-ndarray")
# the quick tier keeps every class of the dimension (0-d / one-element / n-d / mixed / bare scalar / bare sequence; zero, signed zero, integer zero,
# absolute zero, NaN, infinity, subnormal) and leaves second representatives of a class to the thorough tier
QUICK_DROPPED_READINGS = ("ninf", "f4zero", "false")
QUICK_DROPPED_SPELLINGS = ("1x1", "bare-np", "bare-list")


def readings(tier):
    return tuple(r for r in READINGS if tier != "quick" or r not in QUICK_DROPPED_READINGS)


def controls(tier):
    groups = {READINGS[r][0] for r in readings(tier)}
    return {g: c for g, c in CONTROLS.items() if g in groups}


def spellings(tier):
    return tuple(s for s in QSPELL + BSPELL if tier != "quick" or s not in QUICK_DROPPED_SPELLINGS)


def both_readings(tier):
    ok = set(readings(tier))
    rs = tuple(p for p in BOTH_READINGS if p[0] in ok and p[1] in ok)
    return rs if tier != "quick" else tuple(p for p in rs if p not in (("zero", "negzero"), ("abszero", "zero"), ("zero", "tiny")))


def both_spellings(tier):
    return BOTH_SPELLINGS if tier != "quick" else (("quantity", "quantity"), ("quantity", "vec"), ("vec", "quantity"), ("0d", "1elem"), ("2d", "mixed"))
SPELL_CLASS = {"quantity": "0d", "0d": "0d", "1elem": "1elem", "1x1": "1elem", "vec": "nd", "2d": "nd", "mixed": "mixed",
               "bare-py": "bare-scalar", "bare-np": "bare-scalar", "bare-0d": "bare-scalar", "bare-list": "bare-seq", "bare-ndarray": "bare-seq"}
PARTNERS = {"quick": ("quantity", "vec"), "thorough": ("quantity", "vec")}

FORMS = ("operator", "ufunc", "out=fresh", "out=bare", "out=left", "out=right", "iop")

# both operands special: (left reading, right reading) x (left spelling, right spelling)
BOTH_READINGS = (("zero", "zero"), ("negzero", "zero"), ("zero", "negzero"), ("izero", "izero"), ("zero", "abszero"), ("abszero", "zero"),
                 ("abszero", "abszero"), ("nan", "zero"), ("zero", "nan"), ("inf", "inf"), ("inf", "ninf"), ("zero", "tiny"), ("false", "zero"))
BOTH_SPELLINGS = (("quantity", "quantity"), ("quantity", "vec"), ("vec", "quantity"), ("vec", "vec"), ("0d", "1elem"), ("1elem", "0d"), ("2d", "mixed"))


def value(cls, a, b, partner_zero=273.15):
    """the NumPy scalar a reading class stands for in a unit with kelvin = a * reading + b"""
    if cls == "zero":
        return np.float64(0.0)
    if cls == "negzero":
        return np.float64(-0.0)
    if cls == "izero":
        return np.int64(0)
    if cls == "f4zero":
        return np.float32(0.0)
    if cls == "false":
        return np.False_
    if cls == "abszero":
        # a point: the reading of 0 K; a difference: the step that takes 0 degC down to 0 K
        return np.float64(-b / a) if b != 0.0 else np.float64(-partner_zero / a)
    if cls == "nan":
        return np.float64("nan")
    if cls == "inf":
        return np.float64("inf")
    if cls == "ninf":
        return np.float64("-inf")
    if cls == "tiny":
        return np.float64(5e-324)
    if cls == "control":
        return np.float64(CONTROL_VALUE)
    if cls == "control2":
        return np.float64(-7.25)
    if cls == "icontrol":
        return np.int64(7)
    if cls == "f4control":
        return np.float32(CONTROL_VALUE)
    if cls == "true":
        return np.True_
    raise KeyError(cls)


def dtype_of(cls):
    return np.asarray(value(cls, 1.0, 0.0)).dtype.str[1:]


def operand(unyt, spelling, v, u, c):
    """one operand: (object, float64 array of the readings it holds). v: NumPy scalar; c: an ordinary scalar of the same dtype
    (used by the mixed spelling); u: unit name (ignored by the bare spellings)"""
    UA, UQ = unyt.unyt_array, unyt.unyt_quantity
    dt = np.asarray(v).dtype
    if spelling == "quantity":
        o = UQ(v.item() if dt.kind == "b" else v, u); r = np.array(v, dtype="f8")      # np.bool_ is not a numbers.Number for unyt_quantity
    elif spelling == "0d":
        o = UA(np.array(v), u); r = np.array(v, dtype="f8")
    elif spelling == "1elem":
        o = UA(np.array([v]), u); r = np.array([v], dtype="f8")
    elif spelling == "1x1":
        o = UA(np.array([[v]]), u); r = np.array([[v]], dtype="f8")
    elif spelling == "vec":
        o = UA(np.array([v, v, v]), u); r = np.array([v, v, v], dtype="f8")
    elif spelling == "2d":
        o = UA(np.full((2, 3), v, dtype=dt), u); r = np.full((2, 3), v, dtype="f8")
    elif spelling == "mixed":
        o = UA(np.array([v, c, v]), u); r = np.array([v, c, v], dtype="f8")
    elif spelling == "bare-py":
        o = v.item(); r = np.array(v, dtype="f8")
    elif spelling == "bare-np":
        o = v; r = np.array(v, dtype="f8")
    elif spelling == "bare-0d":
        o = np.array(v); r = np.array(v, dtype="f8")
    elif spelling == "bare-list":
        o = [v.item()] * 3; r = np.array([v, v, v], dtype="f8")
    elif spelling == "bare-ndarray":
        o = np.array([v, v, v]); r = np.array([v, v, v], dtype="f8")
    else:
        raise KeyError(spelling)
    return o, r


def fl(dt):
    """float type unyt (and C17) give data of this dtype"""
    dt = np.dtype(dt)
    return dt.str[1:] if dt.kind == "f" else "f" + str(max(2, dt.itemsize))


def plans(unyt, op, mk_a, mk_b, label):
    """yield (form, builder); builder() -> (a, b, out, call, xe, ye) or None when the form does not apply.
    mk_a / mk_b build a fresh operand each time; label: unit name for a fresh labelled out= buffer."""
    uf = np.add if op == "+" else np.subtract
    UA = unyt.unyt_array

    def iop(a, b):
        if op == "+":
            a += b
        else:
            a -= b
        return a

    def mk(form):
        (a, xe), (b, ye) = mk_a(), mk_b()
        shape = np.broadcast_shapes(xe.shape, ye.shape)
        fa = fl(np.asarray(a).dtype); fb = fl(np.asarray(b).dtype)
        match = np.result_type(np.dtype(fa), np.dtype(fb))
        if form == "operator":
            return a, b, None, (lambda: (a + b) if op == "+" else (a - b)), xe, ye
        if form == "ufunc":
            return a, b, None, (lambda: uf(a, b)), xe, ye
        if form == "out=fresh":
            o = UA(np.full(shape, 7, dtype=match), label); return a, b, o, (lambda: uf(a, b, out=o)), xe, ye
        if form == "out=bare":
            o = np.full(shape, 7, dtype=match); return a, b, o, (lambda: uf(a, b, out=o)), xe, ye
        if form in ("out=left", "iop"):
            if not hasattr(a, "units") or a.shape != shape or a.dtype.kind != "f" or a.dtype != match:
                return None
            if form == "iop":
                return a, b, a, (lambda: iop(a, b)), xe, ye
            return a, b, a, (lambda: uf(a, b, out=a)), xe, ye
        if form == "out=right":
            if not hasattr(b, "units") or b.shape != shape or b.dtype.kind != "f" or b.dtype != match:
                return None
            return a, b, b, (lambda: uf(a, b, out=b)), xe, ye
        raise KeyError(form)

    for form in FORMS:
        yield form, (lambda form=form: mk(form))


# ---------------------------------------------------------------------------------------------------------------- reductions
# content name -> list of reading classes laid along the reduced axis ("c" / "c2": ordinary readings)
CONTENTS = {
    "all-zero": ["zero", "zero", "zero"], "all-negzero": ["negzero", "negzero", "negzero"], "all-izero": ["izero", "izero", "izero"],
    "zero-first": ["zero", "control", "control2"], "zero-last": ["control", "control2", "zero"], "zero-middle": ["control", "zero", "control2"],
    "zero-ends": ["zero", "control", "zero"], "all-abszero": ["abszero", "abszero", "abszero"], "abszero-zero": ["abszero", "zero", "abszero"],
    "nan-zero": ["nan", "zero", "control"], "zero-nan": ["zero", "control", "nan"], "inf-first": ["inf", "control", "zero"], "inf-ninf": ["inf", "ninf", "zero"],
    "tiny": ["tiny", "zero", "tiny"], "ordinary": ["control", "control2", "control"],
}
# op -> (callable name, linear-in-differences?)  ; every judged result is a difference (offsets cancel or never enter)
REDUCE_OPS = ("np.add.reduce", "np.sum", "method.sum", "np.nansum", "np.subtract.reduce", "np.cumsum", "np.add.accumulate", "np.subtract.accumulate",
              "np.diff", "np.ediff1d", "np.ptp", "np.add.reduce(initial=0.0)", "a[0]-a[1]", "builtin-sum")
REDUCE_LAYOUTS = (("1d", 0), ("1d", 1), ("1d", 2), ("1d", 3), ("2d-axis0", 2), ("2d-axis0", 3), ("2d-axis1", 2), ("2d-axis1", 3), ("2d-axis0-keepdims", 2))


def reduce_raw(content, layout, n, a, b):
    """float64 / int64 raw data: n readings of `content` along the reduced axis"""
    classes = CONTENTS[content][:n]
    vals = [value(c, a, b) for c in classes]
    dt = "i8" if classes and all(READINGS.get(c, ("f8",))[0] == "i8" for c in classes) else "f8"
    col = np.array(vals, dtype=dt)
    if layout == "1d":
        return col, {}
    if layout.startswith("2d-axis0"):
        X = np.stack([col, col[::-1]], axis=1)          # shape (n, 2)
        kw = {"axis": 0}
    else:
        X = np.stack([col, col[::-1]], axis=0)          # shape (2, n)
        kw = {"axis": 1}
    if layout.endswith("keepdims"):
        kw["keepdims"] = True
    return X, kw


def reduce_applies(op, layout):
    if op in ("np.ediff1d", "a[0]-a[1]", "builtin-sum"):
        return layout == "1d"
    if "keepdims" in layout:
        return op in ("np.add.reduce", "np.sum", "method.sum", "np.nansum", "np.subtract.reduce", "np.ptp", "np.add.reduce(initial=0.0)")
    return True


def reduce_run(op, x, kw):
    """perform the call on x (a unyt_array for the judged call, a bare ndarray for the reference numbers)"""
    if op == "np.add.reduce":
        return np.add.reduce(x, **kw)
    if op == "np.add.reduce(initial=0.0)":
        return np.add.reduce(x, initial=0.0, **kw)
    if op == "np.sum":
        return np.sum(x, **kw)
    if op == "method.sum":
        return x.sum(**kw)
    if op == "np.nansum":
        return np.nansum(x, **kw)
    if op == "np.subtract.reduce":
        return np.subtract.reduce(x, **kw)
    if op == "np.cumsum":
        return np.cumsum(x, **({"axis": kw["axis"]} if "axis" in kw else {}))
    if op == "np.add.accumulate":
        return np.add.accumulate(x, **({"axis": kw["axis"]} if "axis" in kw else {}))
    if op == "np.subtract.accumulate":
        return np.subtract.accumulate(x, **({"axis": kw["axis"]} if "axis" in kw else {}))
    if op == "np.diff":
        return np.diff(x, **({"axis": kw["axis"]} if "axis" in kw else {}))
    if op == "np.ediff1d":
        return np.ediff1d(x)
    if op == "np.ptp":
        return np.ptp(x, **kw)
    if op == "a[0]-a[1]":
        return x[0] - x[1]
    if op == "builtin-sum":
        return sum(list(x))
    raise KeyError(op)


def reduce_plans(tier):
    for content in CONTENTS:
        for layout, n in REDUCE_LAYOUTS:
            if tier == "quick" and layout.startswith("2d") and content in ("all-negzero", "all-izero", "zero-middle", "zero-ends", "abszero-zero", "zero-nan", "tiny"):
                continue
            for op in REDUCE_OPS:
                if reduce_applies(op, layout):
                    yield {"content": content, "layout": layout, "n": n, "op": op}


# --------------------------------------------------------------------------------------------------------------- conversions
CONVERT_ROUTES = ("to", "in_units", "to_value", "convert_to_units", "copy.convert_to_units")
CONVERT_SPELLINGS = ("quantity", "0d", "1elem", "vec", "2d", "mixed")
CONVERT_READINGS = ("zero", "negzero", "izero", "f4zero", "abszero", "nan", "inf", "ninf", "tiny", "control")


def convert_run(route, x, u2):
    """returns (numbers, unit or None)"""
    if route == "to":
        y = x.to(u2); return np.asarray(y.d), y.units
    if route == "in_units":
        y = x.in_units(u2); return np.asarray(y.d), y.units
    if route == "to_value":
        return np.asarray(x.to_value(u2)), None
    if route == "convert_to_units":
        x.convert_to_units(u2); return np.asarray(x.d), x.units
    if route == "copy.convert_to_units":
        y = x.copy(); y.convert_to_units(u2); return np.asarray(y.d), y.units
    raise KeyError(route)


# --------------------------------------------------------------------------------------------- how the operand's unit was obtained
# The same unit reached through different doors of the Unit constructor / copy protocol / unit systems must behave as the same scale.
UNIT_ROUTES = ("name", "Unit(name)", "Unit(u)", "Unit(u,registry=own)", "Unit(u.expr,registry=own)", "u.copy()", "u.copy(deep=True)", "copy.deepcopy(u)",
               "pickle", "quantity.units", "attribute")
SYSTEM_TEMPERATURE_UNITS = ("degC", "degF", "mdegC", "kdegC", "delta_degF", "mK")
BUILTIN_SYSTEMS = ("mks", "cgs", "imperial", "galactic", "solar")
SYSTEM_ENTRIES = ("in_base", "convert_to_base", "get_base_equivalent+to")


_ROUTE_CACHE = {}


def unit_by_route(unyt, route, name):
    """a unit object (or the name) for `name` obtained through one door (built once per process); None when the door does not exist"""
    if (route, name) not in _ROUTE_CACHE:
        _ROUTE_CACHE[(route, name)] = _unit_by_route(unyt, route, name)
    return _ROUTE_CACHE[(route, name)]


def _unit_by_route(unyt, route, name):
    import copy as _copy, pickle as _pickle
    if route == "name":
        return name
    U = unyt.Unit(name)
    if route == "Unit(name)":
        return U
    if route == "Unit(u)":
        return unyt.Unit(U)
    if route == "Unit(u,registry=own)":
        return unyt.Unit(U, registry=U.registry)
    if route == "Unit(u.expr,registry=own)":
        return unyt.Unit(U.expr, registry=U.registry)
    if route == "u.copy()":
        return U.copy()
    if route == "u.copy(deep=True)":
        return U.copy(deep=True)
    if route == "copy.deepcopy(u)":
        return _copy.deepcopy(U)
    if route == "pickle":
        return _pickle.loads(_pickle.dumps(U))
    if route == "quantity.units":
        return unyt.unyt_quantity(1.0, U).units
    if route == "attribute":
        a = getattr(unyt, name, None)
        return a if isinstance(a, unyt.Unit) else None
    raise KeyError(route)


_SYSTEMS = {}


def system_for(unyt, tname):
    """a unit system whose temperature unit is `tname` (created once per process under a name of its own)"""
    if tname not in _SYSTEMS:
        _SYSTEMS[tname] = unyt.UnitSystem("c08sys_" + tname, "m", "kg", "s", temperature_unit=tname)
    return _SYSTEMS[tname]


def system_run(unyt, entry, x, system):
    """returns (numbers, unit)"""
    if entry == "in_base":
        y = x.in_base(system); return np.asarray(y.d), y.units
    if entry == "convert_to_base":
        y = x.copy(); y.convert_to_base(system); return np.asarray(y.d), y.units
    if entry == "get_base_equivalent+to":
        U = x.units.get_base_equivalent(system); y = x.to(U); return np.asarray(y.d), y.units
    raise KeyError(entry)
