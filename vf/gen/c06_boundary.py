"""Two-operand decision-boundary family for C06 (needs only NumPy; never imports unyt).

The general catalogue (npcatalog) drives every function with random, far-apart data and passes one operand bare only in
the base call form.  This module adds the workload dimension *operand kind per position x operand order x parameters at
values where the answer is sensitive*: every entry is a call with two judged operands (x, y); a case fixes data for x and
y **near the decision boundary of the function** (distances inside the asymmetric band of isclose, ties for comparisons
and sort positions, values on bin edges, lower > upper bounds, exact multiples for floor/mod, half-way ranks for
quantile methods, unequal lengths for convolution modes, non-square shapes for products ...) together with one set of the
rarely passed optional parameters, and is then driven through

* both operand ORDERS  ("xy": f(x, y), "yx": f(y, x)), and
* every operand KIND pattern per position: (Q, Q), (Q, nd), (nd, Q), (Q, list), (list, Q), (Q, scalar), (scalar, Q)
  - Q = unit-carrying placeholder, nd = bare ndarray, list = bare nested Python list, scalar = bare Python number (0-d only).

The consumer compares each run with NumPy on the stripped data.  For every case the consumer also records whether NumPy's
own answer changes when the two operands are swapped (*order-sensitive*) and when the optional parameters are left out
(*parameter-sensitive*): these counters prove that the data really sit at the decision boundary; a decision class that was
never order-sensitive in a run makes the run INCONCLUSIVE (classes declared symmetric are exempt).

API: ``templates()`` -> list[BTemplate] (deterministic); ``by_tid()``; ``CLASSES`` (decision classes and whether swapping
must be able to change the answer); ``KINDS``; ``ORDERS``; ``BTemplate.build(g) -> BCase``;
``BCase.variant(order, kinds) -> Call`` (raises Skip where the pattern does not exist, e.g. scalar spelling of a 1-d operand).
"""
import operator
import numpy as np
from vf.gen.npcatalog import Q, Call, Skip, Gen, _resolve    # noqa: F401  (Gen re-exported for consumers)

ORDERS = ("xy", "yx")
KINDS = (("Q", "Q"), ("Q", "nd"), ("nd", "Q"), ("Q", "list"), ("list", "Q"), ("Q", "scalar"), ("scalar", "Q"))
SHAPES = ("1d", "2d", "0d", "s1", "e1")      # s1: x is 1-d, y is 0-d (so that the scalar spelling meets an array partner)

# decision class -> can swapping the operands change the answer? (False: the function is symmetric in its two operands)
CLASSES = {
    "closeness": True,       # isclose / allclose: |a-b| <= atol + rtol*|b|
    "ordering": True,        # < <= > >= with ties
    "equality": False,       # == != (symmetric; ties)
    "bin-edge": True,        # searchsorted side=, digitize right=, histogram last edge, interp knots
    "membership": True,      # isin / setdiff1d / intersect1d indices
    "membership-symmetric": False,   # union1d / setxor1d
    "selection": True,       # where / clip with crossing bounds / select / choose / lexsort key priority
    "arithmetic": True,      # - / // % divmod at exact multiples and zeros
    "product": True,         # non-commutative products, convolution modes with unequal lengths
    "join": True,            # concatenate / stack family / append / insert
    "range": True,           # linspace / geomspace end points
    "rank": True,            # percentile / quantile methods at half-way ranks
}


class BGen(Gen):
    """npcatalog.Gen that also knows the shape class "s1" (x 1-d, y 0-d)"""
    def __init__(self, rng, dtype="f8", shape="1d", flavor="int"):
        Gen.__init__(self, rng, dtype, "1d" if shape == "s1" else shape, flavor)
        self.shape = shape


class Dep:
    """keyword value computed from the two operands in call order: Dep(lambda a, b: value)"""
    def __init__(self, fn):
        self.fn = fn


class BCase:
    def __init__(self, t, x, y, kwargs):
        self.t = t
        self.x = np.asarray(x)
        self.y = np.asarray(y)
        self.kwargs = kwargs

    def _operand(self, kind, data, dim):
        if kind == "Q":
            return Q(data, dim)
        if kind == "nd":
            return Q(data, dim, bare=True)
        if kind == "list":
            if data.ndim == 0:
                raise Skip("list spelling needs >= 1-d")
            return data.tolist()
        if kind == "scalar":
            if data.ndim != 0:
                raise Skip("scalar spelling needs 0-d")
            return data.item()
        raise ValueError(kind)

    def variant(self, order, kinds, params=True):
        e = self.t.entry
        a, b = (self.x, self.y) if order == "xy" else (self.y, self.x)
        da, db = e.dims if order == "xy" else e.dims[::-1]
        if kinds not in e.kinds:
            raise Skip("operand pattern not generated for this entry")
        if e.kind in ("method",) and kinds[0] in ("list", "scalar"):
            raise Skip("a list has no ndarray methods")
        A = self._operand(kinds[0], a, da)
        B = self._operand(kinds[1], b, db)
        kw = {}
        if params:
            for k, v in self.kwargs.items():
                if not k.startswith("_"):          # names starting with "_" steer the data generator only
                    kw[k] = v.fn(a, b) if isinstance(v, Dep) else v
        args, kwargs = e.place(A, B, a, b, kw)
        return Call(args, kwargs)


class BEntry:
    def __init__(self, name, label, cls, data, params, place=None, kind=None, invoke=None, dims=("A", "A"), shapes=SHAPES,
                 dtypes=None, real=False, flavors=None, kinds=KINDS):
        self.name, self.label, self.cls, self.data, self.params = name, label, cls, data, params
        self.place = place or (lambda A, B, a, b, kw: ([A, B], kw))
        self.kind = kind or ("function" if name.startswith("numpy.") else "method")
        self.target = _resolve(name) if self.kind == "function" else None
        self.invoke = invoke
        self.dims = dims
        self.shapes = tuple(shapes)
        self.dtypes = dtypes
        self.real = real
        self.flavors = flavors
        self.kinds = tuple(kinds)          # operand kind patterns that are generated for this entry


class BTemplate:
    """duck-compatible with npcatalog.Template where C06 needs it (func_name, tid, kind, target, tags, invoke, observe)"""
    tags = frozenset({"boundary"})
    form = "boundary"

    def __init__(self, entry, plabel, pdict):
        self.entry = entry
        self.func_name = entry.name
        self.kind = entry.kind
        self.target = entry.target
        self.cls = entry.cls
        self.plabel = plabel
        self.pdict = pdict
        self.shapes = entry.shapes
        self.tid = f"{entry.name}/boundary:{entry.label}:{plabel}"

    def build(self, g):
        e = self.entry
        if g.shape not in e.shapes:
            raise Skip(g.shape)
        if e.real and g.dtype.kind == "c":
            raise Skip("complex")
        if e.dtypes and g.dtype.str.lstrip("<>|=") not in e.dtypes:
            raise Skip(g.dtype.name)
        if e.flavors and g.flavor not in e.flavors:
            raise Skip(g.flavor)
        p = self.pdict(g) if callable(self.pdict) else dict(self.pdict)
        x, y = e.data(g, p)
        return BCase(self, x, y, p)

    def invoke(self, args, kwargs):
        e = self.entry
        if e.invoke is not None:
            return e.invoke(*args, **kwargs)
        if e.kind == "function":
            return e.target(*args, **kwargs)
        return getattr(args[0], e.name.split(".", 1)[1])(*args[1:], **kwargs)

    def observe(self, args, kwargs, result):
        return result


_ENTRIES = []


def E(name, label, cls, data, params=(("default", {}),), **kw):
    _ENTRIES.append(BEntry(name, label, cls, data, list(params), **kw))


# ------------------------------------------------------------------------------------------------ data near the boundary
def _shapes(g):
    r = g.rng
    if g.shape == "1d":
        n = r.choice([5, 6, 7])
        return (n,), (n,)
    if g.shape == "2d":
        return r.choice([((3, 4), (3, 4)), ((3, 4), (4,)), ((2, 5), (2, 5))])
    if g.shape == "0d":
        return (), ()
    if g.shape == "s1":
        return (r.choice([5, 6]),), ()
    if g.shape == "e1":
        return (0,), (0,)
    raise Skip(g.shape)


def _partner(x, sy):
    """part of x with shape sy (so that y can be put at a chosen distance from the x it will meet by broadcasting)"""
    if x.shape == sy:
        return x.copy()
    if sy == ():
        return x.reshape(-1)[0].copy() if x.size else np.zeros((), x.dtype)
    return x[0].copy()


def _cast(v, g):
    v = np.asarray(v)
    if g.dtype.kind in "iu":
        v = np.rint(v.real)
        if g.dtype.kind == "u":
            v = np.abs(v)
    elif g.dtype.kind == "f":
        v = v.real
    return v.astype(g.dtype)


_BELOW, _INSIDE, _ABOVE = (0.0, 0.5, 0.9), (0.25, 0.5, 0.75), (1.25, 2.0, 4.0)


def close_pair(g, p, one_band=False):
    """y at a chosen distance d from x, relative to the two thresholds NumPy could use: T(x) = atol + rtol*|x| and T(y).
    With y farther from zero than x the pair is close when judged against |y| but not against |x| for T(x) < d <= T(x)/(1-rtol);
    with y nearer to zero it is the other way round for T(x)/(1+rtol) < d <= T(x).  Elements are placed below, inside (at
    25/50/75 % of the band, whatever its width) and above that band, so for every rtol > 0 the answer depends on which operand
    supplies the reference magnitude."""
    rtol = float(np.asarray(getattr(p.get("rtol", 1e-5), "data", p.get("rtol", 1e-5))))
    atol = float(np.asarray(getattr(p.get("atol", 1e-8), "data", p.get("atol", 1e-8))))
    sx, sy = _shapes(g)
    x = g.raw(sx, 2, 40)
    if g.dtype.kind != "u":
        x = x * _cast(np.array([g.rng.choice([-1, 1]) for _ in range(x.size)]).reshape(x.shape), g)
    xs = _partner(x, sy).astype("c16" if g.dtype.kind == "c" else "f8")
    n = xs.size
    where = [g.rng.choice("bbia") if one_band else g.rng.choice("biia") for _ in range(n)]
    if one_band and n:       # all elements clearly close except one inside the band: the verdict of all() hangs on that element
        where = ["b"] * n
        where[g.rng.randrange(n)] = "i"
    away = np.array([g.rng.choice([-1.0, 1.0]) for _ in range(n)]).reshape(xs.shape)
    mag = np.abs(xs)
    T = atol + rtol * mag
    lo = np.where(away > 0, T, T / (1.0 + rtol))            # band = (lo, hi]
    hi = np.where(away > 0, T / (1.0 - rtol) if rtol < 1 else 4 * T, T)
    d = np.zeros(xs.shape, "f8")
    df, lf, hf = d.reshape(-1), lo.reshape(-1), hi.reshape(-1)
    for i, w in enumerate(where):
        if w == "b":
            df[i] = g.rng.choice(_BELOW) * lf[i]
        elif w == "i":
            df[i] = lf[i] + g.rng.choice(_INSIDE) * (hf[i] - lf[i])
        else:
            df[i] = g.rng.choice(_ABOVE) * hf[i]
    d = df.reshape(xs.shape) * away
    with np.errstate(all="ignore"):
        y = xs * (1.0 + d / np.where(mag == 0, 1.0, mag))
    y = _cast(y, g)
    if g.dtype.kind in "fc" and g.flavor == "gen" and n >= 4 and x.shape == y.shape and not one_band:
        i, j, k = g.rng.sample(range(n), 3)
        xf, yf = x.reshape(-1), y.reshape(-1)
        xf[i] = yf[i] = np.nan
        xf[j] = yf[j] = np.inf
        yf[k] = np.nan
    return x, y


def ties_pair(g, p=None, lo=-4, hi=4):
    """about half of the elements of y equal their partner in x, the others differ by one step"""
    sx, sy = _shapes(g)
    x = g.raw(sx, lo, hi)
    y = _partner(x, sy)
    wide = y.astype("c16" if g.dtype.kind == "c" else "f8")          # steps are taken in a wide type (an unsigned 0 cannot take -1)
    wf = wide.reshape(-1)
    unit = 1 if g.dtype.kind in "iu" or g.flavor == "int" else 0.25
    for i in range(wf.size):
        if g.rng.random() < 0.5:
            continue
        step = g.rng.choice([-1, 1]) * unit
        if g.dtype.kind == "u" and wf[i].real + step < 0:
            step = unit
        wf[i] = wf[i] + step
    return x, wf.reshape(y.shape).astype(g.dtype)


def sorted_ties(g, p=None, decreasing=False):
    """two sorted sequences that share values (ties), have duplicates, and stick out below/above each other"""
    if g.shape == "0d":
        v = g.raw((), 0, 3).real.astype(g.dtype)
        return v, v.copy()
    if g.shape == "e1":
        return np.zeros((0,), g.dtype), np.zeros((0,), g.dtype)
    na = g.rng.choice([5, 6, 7])
    nv = g.rng.choice([4, 6])
    step = 1 if (g.dtype.kind in "iu" or g.flavor == "int") else 0.5
    lo = 0 if g.dtype.kind == "u" else -3
    pool = [lo + step * k for k in range(int(8 / step))]
    a = sorted(g.rng.choice(pool[2:-2]) for _ in range(na))
    v = sorted(g.rng.choice(pool) if g.rng.random() < 0.4 else g.rng.choice(a) for _ in range(nv))
    a, v = np.array(a, "f8").astype(g.dtype), np.array(v, "f8").astype(g.dtype)
    if decreasing:
        a = a[::-1].copy()
    if g.shape == "s1":
        v = v[g.rng.randrange(v.size)].copy()
    elif g.shape == "2d":
        v = np.stack([v, v[::-1]])
    return a, v


def unsorted_ties(g, p=None):
    a, v = sorted_ties(g, p)
    if a.ndim == 1 and a.size:
        perm = list(range(a.size))
        g.rng.shuffle(perm)
        a = a[perm]
    if v.ndim == 1 and v.size:
        perm = list(range(v.size))
        g.rng.shuffle(perm)
        v = v[perm]
    return a, v


def edges_pair(g, p=None):
    """x holds values on, between and outside the strictly increasing (or decreasing) edges y"""
    a, v = sorted_ties(g, p)
    if a.ndim != 1:
        return v, a
    edges = np.unique(a)
    if p and p.get("_decreasing"):
        edges = edges[::-1].copy()
    x = v
    if x.ndim == 1 and x.size and (p or {}).get("_shuffle", True) and g.rng.random() < 0.5:
        perm = list(range(x.size))
        g.rng.shuffle(perm)
        x = x[perm]
    return x, edges


def overlap_sets(g, p=None):
    """two collections drawn from overlapping small pools, with duplicates unless assume_unique is requested"""
    sx, sy = _shapes(g)
    if g.shape in ("1d", "2d"):
        sy = (g.rng.choice([3, 4]),)
    uniq = bool(p and p.get("assume_unique"))

    def draw(shape, lo, hi):
        n = int(np.prod(shape)) if len(shape) else 1
        pool = list(range(lo, hi + 1))
        if uniq:
            if n > len(pool):
                raise Skip("pool")
            vals = g.rng.sample(pool, n)
        else:
            vals = [g.rng.choice(pool) for _ in range(n)]
        v = np.array(vals, "f8")
        if g.dtype.kind in "fc" and g.flavor != "int":
            v = v / 4.0
        return v.astype(g.dtype).reshape(shape)
    if uniq and g.shape == "2d":
        sx = (2, 3)
    return draw(sx, 0, 7), draw(sy, 3, 10)


def bounds_pair(g, p=None):
    """lower/upper bounds that cross for some elements (lower > upper) and coincide for others"""
    sx, sy = _shapes(g)
    lo = g.raw(sx, -4 if g.dtype.kind != "u" else 0, 2)
    hi = _partner(lo, sy).astype("f8")
    hf = hi.reshape(-1)
    for i in range(hf.size):
        steps = [0, 1, 3] if (g.dtype.kind == "u" and hf[i] < 2) else [-2, 0, 0, 1, 3, 4]
        hf[i] = hf[i] + g.rng.choice(steps)
    return lo, hf.reshape(hi.shape).astype(g.dtype)


def multiples_pair(g, p=None):
    """x is an exact multiple of y for about half of the elements (floor/remainder sit on their discontinuity), y != 0"""
    sx, sy = _shapes(g)
    y0 = g.raw(sx, 1, 4)
    if g.dtype.kind != "u":
        y0 = y0 * _cast(np.array([g.rng.choice([-1, 1]) for _ in range(y0.size)]).reshape(y0.shape), g)
    y = _partner(y0, sy)
    n = int(np.prod(sx)) if sx else 1
    ks = [1, 2, 3] if g.dtype.kind == "u" else [-3, -1, 1, 2, 3]
    k = np.array([g.rng.choice(ks) for _ in range(n)], "f8").reshape(sx)
    step = 1 if g.dtype.kind in "iu" or g.flavor == "int" else 0.25
    off = np.array([g.rng.choice([0, 0, 1]) for _ in range(n)], "f8").reshape(sx) * step
    yb = np.broadcast_to(y, sx).astype("c16" if g.dtype.kind == "c" else "f8")
    return _cast(k * yb + off, g), y


def plain_pair(shx=None, shy=None, lo=-5, hi=5, nonzero=False):
    def data(g, p=None):
        if shx is None:
            sx, sy = _shapes(g)
        else:
            if g.shape not in shx:
                raise Skip(g.shape)
            sx, sy = shx[g.shape], shy[g.shape]
            if callable(sx):
                sx, sy = sx(g), sy(g)
        l = max(lo, 0) if g.dtype.kind == "u" else lo
        x, y = g.raw(sx, l, hi), g.raw(sy, l, hi)
        if nonzero:
            x = np.where(x == 0, np.asarray(1, g.dtype), x)
            y = np.where(y == 0, np.asarray(2, g.dtype), y)
        return x, y
    return data


def rank_pair(g, p=None):
    """a: distinct values; q: ranks that fall exactly half-way between, and exactly on, order statistics"""
    n = g.rng.choice([5, 6, 9])
    vals = list(range(1, 4 * n, 4))
    g.rng.shuffle(vals)
    a = np.array(vals[:n], "f8")
    if g.dtype.kind in "f" and g.flavor != "int":
        a = a / 4.0
    a = a.astype(g.dtype)
    scale = 100.0 if p.get("_percent") else 1.0
    pos = [g.rng.randrange(0, n - 1) + g.rng.choice([0.0, 0.5, 0.5, 0.25]) for _ in range(4)]
    q = np.array([scale * v / (n - 1) for v in pos], "f8")
    if g.shape == "s1":
        q = q[0].copy()
    return a, q


# ------------------------------------------------------------------------------------------------ entries
def _args_then(extra):
    return lambda A, B, a, b, kw: ([A, B] + list(extra), kw)


# closeness ---------------------------------------------------------------------------------------------------------------
_TOL = [
    ("default", {}),
    ("rtol", {"rtol": 1e-3}),
    ("rtol#1", {"rtol": 0.125}),
    ("rtol+atol", {"rtol": 0.5, "atol": 0.0}),
    ("rtol+atol#1", {"rtol": 0.25, "atol": 0.25}),
    ("atol", {"atol": 1.0, "rtol": 0.0}),
    ("rtol+equal_nan", {"rtol": 0.25, "equal_nan": True}),
    ("rtol-quantity", lambda g: {"rtol": Q(np.asarray(0.5), "1"), "atol": 0.0}),
    ("atol-quantity", lambda g: {"rtol": 0.25, "atol": Q(np.asarray(0.5), "A")}),
]


def _pos_tol(A, B, a, b, kw):
    kw = dict(kw)
    return [A, B, kw.pop("rtol"), kw.pop("atol")], kw


E("numpy.isclose", "band", "closeness", close_pair, _TOL)
E("numpy.isclose", "band-positional", "closeness", close_pair, [("rtol+atol", {"rtol": 0.5, "atol": 0.125})], place=_pos_tol)
E("numpy.allclose", "one-in-band", "closeness", lambda g, p: close_pair(g, p, one_band=True), _TOL)
E("numpy.allclose", "one-in-band-positional", "closeness", lambda g, p: close_pair(g, p, one_band=True), [("rtol+atol", {"rtol": 0.5, "atol": 0.125})], place=_pos_tol)

# ordering / equality operators (ndarray methods reached through the operator protocol, reflected when the bare operand leads)
for _n, _fn in (("__lt__", operator.lt), ("__le__", operator.le), ("__gt__", operator.gt), ("__ge__", operator.ge)):
    E("ndarray." + _n, "ties", "ordering", ties_pair, kind="op", invoke=_fn, real=True)
for _n, _fn in (("__eq__", operator.eq), ("__ne__", operator.ne)):
    E("ndarray." + _n, "ties", "equality", ties_pair, kind="op", invoke=_fn)
for _n in ("array_equal", "array_equiv"):
    # a bare operand is dimensionless, not "in the other operand's unit": unyt answers False by design, so only (Q, Q) is generated
    E("numpy." + _n, "ties", "equality", ties_pair, kinds=(("Q", "Q"),))

# bin edges ---------------------------------------------------------------------------------------------------------------
_SIDES = [("default", {}), ("side", {"side": "right"}), ("side#1", {"side": "left"})]
_SORTER = [("sorter", {"sorter": Dep(lambda a, b: np.argsort(a, kind="stable"))}),
           ("side+sorter", {"side": "right", "sorter": Dep(lambda a, b: np.argsort(a, kind="stable"))})]
E("numpy.searchsorted", "ties", "bin-edge", sorted_ties, _SIDES, real=True, shapes=("1d", "2d", "s1", "e1"))
E("numpy.searchsorted", "ties-unsorted", "bin-edge", unsorted_ties, _SORTER, real=True, shapes=("1d", "s1"))
E("numpy.searchsorted", "ties-positional", "bin-edge", sorted_ties, [("side", {})], real=True, shapes=("1d", "s1"), place=_args_then(["right"]))
E("ndarray.searchsorted", "ties", "bin-edge", sorted_ties, _SIDES, real=True, shapes=("1d", "2d", "s1", "e1"))
E("ndarray.searchsorted", "ties-unsorted", "bin-edge", unsorted_ties, _SORTER, real=True, shapes=("1d", "s1"))
E("numpy.digitize", "on-edges", "bin-edge", edges_pair, [("default", {}), ("right", {"right": True}), ("right#1", {"right": False})], real=True, shapes=("1d", "s1"))
E("numpy.digitize", "on-edges-decreasing", "bin-edge", edges_pair, [("default", {"_decreasing": True}), ("right", {"right": True, "_decreasing": True})], real=True, shapes=("1d",))
E("numpy.histogram", "on-edges", "bin-edge", edges_pair, [("bins", {}), ("bins+density", {"density": True})], real=True, shapes=("1d",),
  place=lambda A, B, a, b, kw: ([A], dict(kw, bins=B)))
E("numpy.histogram_bin_edges", "on-edges", "bin-edge", edges_pair, [("bins", {})], real=True, shapes=("1d",), place=lambda A, B, a, b, kw: ([A], dict(kw, bins=B)))
E("numpy.interp", "on-knots", "bin-edge", lambda g, p: edges_pair(g, dict(p, _shuffle=False)), [("default", {}), ("left+right", {"left": -99.0, "right": 99.0}), ("period", {"period": 5})],
  real=True, shapes=("1d", "s1"), dtypes=("f8", "i8", "f4", "i4"),
  place=lambda A, B, a, b, kw: ([A, B, Q(np.arange(np.size(b), dtype="f8")[::-1] * 2.0 + 1.0, "B")], kw))

# membership --------------------------------------------------------------------------------------------------------------
E("numpy.isin", "overlap", "membership", overlap_sets, [("default", {}), ("invert", {"invert": True}), ("assume_unique", {"assume_unique": True}),
                                                        ("kind", {"kind": "sort"}), ("kind#1", {"kind": "table"}), ("invert+assume_unique", {"invert": True, "assume_unique": True})],
  shapes=("1d", "2d", "0d", "s1", "e1"))
E("numpy.setdiff1d", "overlap", "membership", overlap_sets, [("default", {}), ("assume_unique", {"assume_unique": True})], shapes=("1d", "2d", "s1", "e1"))
E("numpy.intersect1d", "overlap", "membership", overlap_sets, [("default", {}), ("return_indices", {"return_indices": True}),
                                                               ("assume_unique+return_indices", {"assume_unique": True, "return_indices": True})], shapes=("1d", "2d", "e1"))
E("numpy.union1d", "overlap", "membership-symmetric", overlap_sets, shapes=("1d", "2d", "s1", "e1"))
E("numpy.setxor1d", "overlap", "membership-symmetric", overlap_sets, [("default", {}), ("assume_unique", {"assume_unique": True})], shapes=("1d", "2d", "e1"))

# selection ---------------------------------------------------------------------------------------------------------------
def _mask_like(a, b):
    shp = np.broadcast_shapes(np.shape(a), np.shape(b))
    n = int(np.prod(shp)) if len(shp) else 1
    return (np.arange(n) % 3 != 1).reshape(shp)


def _clip_target(a, b):
    """values on, between and outside the two bounds (deterministic function of the bounds)"""
    shp = np.broadcast_shapes(np.shape(a), np.shape(b))
    lo, hi = np.broadcast_to(a, shp), np.broadcast_to(b, shp)
    n = int(np.prod(shp)) if len(shp) else 1
    pick = (np.arange(n) % 5).reshape(shp)
    one = np.asarray(1, np.asarray(a).dtype)
    return np.choose(pick, [lo, hi, lo + one, hi + one, np.minimum(lo, hi) - (one if np.asarray(a).dtype.kind != "u" else 0 * one)]).astype(np.asarray(a).dtype)


E("numpy.where", "xy", "selection", ties_pair, place=lambda A, B, a, b, kw: ([_mask_like(a, b), A, B], kw))
E("numpy.clip", "crossing-bounds", "selection", bounds_pair, real=True, place=lambda A, B, a, b, kw: ([Q(_clip_target(a, b), "A"), A, B], kw))
E("numpy.clip", "crossing-bounds-kw", "selection", bounds_pair, [("min+max", {})], real=True, place=lambda A, B, a, b, kw: ([Q(_clip_target(a, b), "A")], dict(kw, min=A, max=B)))
E("numpy.clip", "crossing-bounds-kw-old", "selection", bounds_pair, [("a_min+a_max", {})], real=True,
  place=lambda A, B, a, b, kw: ([Q(_clip_target(a, b), "A")], dict(kw, a_min=A, a_max=B)))
E("ndarray.clip", "crossing-bounds", "selection", bounds_pair, real=True, kind="op", invoke=lambda t, lo, hi: t.clip(lo, hi),
  place=lambda A, B, a, b, kw: ([Q(_clip_target(a, b), "A"), A, B], kw))
def _select_place(A, B, a, b, kw):
    m = _mask_like(a, b)
    return [[m, np.roll(m.reshape(-1), 1).reshape(m.shape)], [A, B]], kw


E("numpy.select", "xy", "selection", ties_pair, [("default", {}), ("default#1", {"default": 7})], shapes=("1d", "2d", "0d", "e1"), place=_select_place)
E("numpy.choose", "xy", "selection", ties_pair, [("default", {}), ("mode", {"mode": "wrap"})],
  place=lambda A, B, a, b, kw: ([_mask_like(a, b).astype("i8"), [A, B]], kw))
E("numpy.lexsort", "tied-keys", "selection", lambda g, p: ties_pair(g, p, 0, 2), real=True, shapes=("1d",), dims=("A", "B"), place=lambda A, B, a, b, kw: ([(A, B)], kw))
E("numpy.copyto", "where", "selection", ties_pair, [("default", {}), ("where", {"where": Dep(lambda a, b: _mask_like(a, a))})], shapes=("1d", "2d", "0d", "s1"),
  kind="function", invoke=lambda dst, src, **kw: (np.copyto(dst, src, **kw), np.asarray(dst).copy())[1])

# arithmetic operators at their singular points ---------------------------------------------------------------------------
E("ndarray.__sub__", "ties", "arithmetic", ties_pair, kind="op", invoke=operator.sub)
E("ndarray.__truediv__", "multiples", "arithmetic", multiples_pair, kind="op", invoke=operator.truediv)
E("ndarray.__floordiv__", "multiples", "arithmetic", multiples_pair, kind="op", invoke=operator.floordiv, real=True)
E("ndarray.__mod__", "multiples", "arithmetic", multiples_pair, kind="op", invoke=operator.mod, real=True)
E("ndarray.__divmod__", "multiples", "arithmetic", multiples_pair, kind="op", invoke=divmod, real=True)

# products ----------------------------------------------------------------------------------------------------------------
_V = {"1d": (4,), "2d": (3, 4), "0d": (), "s1": (4,)}
_VT = {"1d": (4,), "2d": (4, 3), "0d": (), "s1": ()}
_mat = plain_pair(_V, _VT)
_AB = dict(dims=("A", "B"))
E("numpy.dot", "non-square", "product", _mat, shapes=("1d", "2d", "0d", "s1"), **_AB)
E("ndarray.dot", "non-square", "product", _mat, shapes=("1d", "2d", "s1"), **_AB)
E("ndarray.__matmul__", "non-square", "product", _mat, shapes=("1d", "2d"), kind="op", invoke=operator.matmul, **_AB)
E("numpy.linalg.matmul", "non-square", "product", _mat, shapes=("1d", "2d"), **_AB)
E("numpy.inner", "rows", "product", plain_pair({"1d": (4,), "2d": (3, 4), "s1": (4,)}, {"1d": (4,), "2d": (2, 4), "s1": ()}), shapes=("1d", "2d", "s1"), **_AB)
E("numpy.outer", "lengths-differ", "product", plain_pair({"1d": (3,), "2d": (2, 2), "s1": (3,)}, {"1d": (4,), "2d": (3,), "s1": ()}), shapes=("1d", "2d", "s1"), **_AB)
E("numpy.linalg.outer", "lengths-differ", "product", plain_pair({"1d": (3,)}, {"1d": (4,)}), shapes=("1d",), **_AB)
E("numpy.kron", "shapes-differ", "product", plain_pair({"1d": (3,), "2d": (2, 2), "s1": (3,)}, {"1d": (2,), "2d": (2, 3), "s1": ()}), shapes=("1d", "2d", "s1"), **_AB)
E("numpy.vdot", "conjugates-first", "product", plain_pair({"1d": (4,), "2d": (2, 3), "0d": ()}, {"1d": (4,), "2d": (2, 3), "0d": ()}), shapes=("1d", "2d", "0d"), **_AB)
E("numpy.cross", "anti-commutes", "product", plain_pair({"1d": (3,), "2d": (4, 3)}, {"1d": (3,), "2d": (3,)}), [("default", {}), ("axisa+axisb", {"axisa": -1, "axisb": -1})], shapes=("1d", "2d"), **_AB)
E("numpy.linalg.cross", "anti-commutes", "product", plain_pair({"1d": (3,), "2d": (4, 3)}, {"1d": (3,), "2d": (4, 3)}), [("default", {}), ("axis", {"axis": -1})], shapes=("1d", "2d"), **_AB)
E("numpy.tensordot", "axes", "product", plain_pair({"2d": (3, 4)}, {"2d": (4, 3)}), [("axes", {"axes": 1}), ("axes#1", {"axes": ([0], [1])}), ("axes#2", {"axes": 0})], shapes=("2d",), **_AB)
E("numpy.linalg.tensordot", "axes", "product", plain_pair({"2d": (3, 4)}, {"2d": (4, 3)}), [("axes", {"axes": 1})], shapes=("2d",), **_AB)
E("numpy.linalg.vecdot", "conjugates-first", "product", plain_pair({"1d": (4,), "2d": (3, 4)}, {"1d": (4,), "2d": (3, 4)}), [("default", {}), ("axis", {"axis": 0})], shapes=("1d", "2d"), **_AB)
E("numpy.linalg.multi_dot", "non-square", "product", plain_pair({"2d": (3, 4)}, {"2d": (4, 3)}), shapes=("2d",), place=lambda A, B, a, b, kw: ([[A, B]], kw), **_AB)
E("numpy.einsum", "ij,jk", "product", plain_pair({"2d": (3, 4)}, {"2d": (4, 3)}), [("default", {}), ("optimize", {"optimize": True})], shapes=("2d",),
  place=lambda A, B, a, b, kw: (["ij,jk->ik", A, B], kw), **_AB)
for _n in ("convolve", "correlate"):
    E("numpy." + _n, "lengths-differ", "product", plain_pair({"1d": (6,), "s1": (4,)}, {"1d": (3,), "s1": ()}),
      [("default", {}), ("mode", {"mode": "same"}), ("mode#1", {"mode": "full"}), ("mode#2", {"mode": "valid"})], shapes=("1d",), **_AB)
E("numpy.linalg.solve", "square", "product", lambda g, p: (g.square().data, g.square().data), shapes=("2d",), dtypes=("f8", "c16"), **_AB)
E("numpy.trapezoid", "x", "product", plain_pair({"1d": (5,), "2d": (3, 4)}, {"1d": (5,), "2d": (3, 4)}), [("x", {}), ("x+axis", {"axis": 0})], shapes=("1d", "2d"),
  place=lambda A, B, a, b, kw: ([A], dict(kw, x=B)), **_AB)
E("numpy.cov", "y", "product", plain_pair({"1d": (6,), "2d": (2, 6)}, {"1d": (6,), "2d": (3, 6)}), [("default", {}), ("rowvar", {"rowvar": True}), ("bias", {"bias": True})],
  shapes=("1d", "2d"))
E("numpy.histogram2d", "xy", "product", lambda g, p: (g.raw((12,), 0, 9), g.raw((12,), 0, 5)), [("bins", {"bins": 3}), ("bins#1", {"bins": (2, 4)})], real=True, shapes=("1d",), **_AB)

# joins -------------------------------------------------------------------------------------------------------------------
_same = plain_pair()
_J2 = plain_pair({"1d": (3,), "2d": (2, 3), "0d": (), "e1": (0,)}, {"1d": (4,), "2d": (1, 3), "0d": (), "e1": (0,)})
for _n in ("concatenate", "concat"):
    E("numpy." + _n, "lengths-differ", "join", _J2, [("default", {}), ("axis", {"axis": None}), ("axis#1", {"axis": 0})], shapes=("1d", "2d", "e1"),
      place=lambda A, B, a, b, kw: ([[A, B]], kw))
    E("numpy." + _n, "tuple", "join", _J2, [("default", {})], shapes=("1d", "2d"), place=lambda A, B, a, b, kw: ([(A, B)], kw))
for _n in ("stack", "dstack", "column_stack"):
    E("numpy." + _n, "pair", "join", plain_pair({"1d": (4,), "2d": (2, 3), "0d": ()}, {"1d": (4,), "2d": (2, 3), "0d": ()}),
      [("default", {})] + ([("axis", {"axis": -1})] if _n == "stack" else []), shapes=("1d", "2d", "0d"), place=lambda A, B, a, b, kw: ([[A, B]], kw))
E("numpy.vstack", "rows-differ", "join", plain_pair({"1d": (3,), "2d": (2, 3), "0d": ()}, {"1d": (3,), "2d": (1, 3), "0d": ()}), shapes=("1d", "2d", "0d"),
  place=lambda A, B, a, b, kw: ([[A, B]], kw))
E("numpy.hstack", "lengths-differ", "join", plain_pair({"1d": (3,), "2d": (2, 3), "0d": ()}, {"1d": (4,), "2d": (2, 1), "0d": ()}), shapes=("1d", "2d", "0d"),
  place=lambda A, B, a, b, kw: ([[A, B]], kw))
E("numpy.block", "row", "join", plain_pair({"1d": (3,), "2d": (2, 3), "s1": (3,)}, {"1d": (4,), "2d": (2, 1), "s1": ()}), shapes=("1d", "2d", "s1"),
  place=lambda A, B, a, b, kw: ([[A, B]], kw))
E("numpy.append", "values", "join", _J2, [("default", {}), ("axis", {"axis": 0})], shapes=("1d", "2d", "0d", "e1"))
E("numpy.insert", "values", "join", plain_pair({"1d": (5,), "2d": (3, 3), "s1": (5,)}, {"1d": (2,), "2d": (3,), "s1": ()}), [("default", {}), ("axis", {"axis": 0})],
  shapes=("1d", "2d", "s1"), place=lambda A, B, a, b, kw: ([A, 1, B], kw))

# ranges ------------------------------------------------------------------------------------------------------------------
_R = plain_pair({"0d": (), "1d": (3,), "s1": (3,)}, {"0d": (), "1d": (3,), "s1": ()}, lo=1, hi=9)
E("numpy.linspace", "ends", "range", _R, [("num", {"num": 5}), ("num+endpoint", {"num": 4, "endpoint": False}), ("num+retstep", {"num": 5, "retstep": True}),
                                          ("num+axis", {"num": 4, "axis": -1})], shapes=("0d", "1d", "s1"))
E("numpy.geomspace", "ends", "range", _R, [("num", {"num": 4}), ("num+endpoint", {"num": 3, "endpoint": False})], shapes=("0d", "1d", "s1"), dtypes=("f8", "i8", "f4", "i4", "u1"),
  flavors=("int",))

# ranks -------------------------------------------------------------------------------------------------------------------
_METHODS = ("linear", "lower", "higher", "nearest", "midpoint", "inverted_cdf", "averaged_inverted_cdf", "closest_observation", "interpolated_inverted_cdf", "hazen",
            "weibull", "median_unbiased", "normal_unbiased")
for _n, _pc in (("percentile", True), ("nanpercentile", True), ("quantile", False), ("nanquantile", False)):
    E("numpy." + _n, "half-way-ranks", "rank", rank_pair, [("default", {"_percent": _pc})] + [("method" + ("#%d" % i if i else ""), {"method": m, "_percent": _pc}) for i, m in enumerate(_METHODS)],
      real=True, shapes=("1d", "s1"), dims=("A", "1"))


# ------------------------------------------------------------------------------------------------ accessors
_TEMPLATES = []
_BY = {}


def _expand():
    if _TEMPLATES:
        return
    for e in _ENTRIES:
        for plabel, pd in e.params:
            t = BTemplate(e, plabel, pd)
            if t.tid in _BY:
                raise ValueError("duplicate boundary template " + t.tid)
            _BY[t.tid] = t
            _TEMPLATES.append(t)


def templates():
    _expand()
    return list(_TEMPLATES)


def by_tid():
    _expand()
    return dict(_BY)


def public_kwargs(kw):
    """kwargs actually passed to the call (names starting with '_' steer the data generator only)"""
    return {k: v for k, v in kw.items() if not k.startswith("_")}
