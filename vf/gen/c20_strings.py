"""String generators for C20: grammar-based valid unit expressions (as trees, rendered in several equivalent spellings),
a dictionary of hostile templates grouped in structural families, and token-/byte-level mutators.

Trees:  ("n", name) | ("c", numtext) | ("*", a, b) | ("/", a, b) | ("^", a, Fraction) | ("q", a)   (q = sqrt)
Nothing here imports unyt.
"""
import re
from fractions import Fraction as Fr

EXPO_INT = [2, 3, -1, -2, -3, 4, 5, -4, 6, 1, 0]
EXPO_RAT = [Fr(1, 2), Fr(3, 2), Fr(-1, 2), Fr(1, 3), Fr(2, 3), Fr(-3, 2), Fr(1, 4), Fr(5, 2), Fr(-1, 3), Fr(3, 4), Fr(7, 2), Fr(1, 5),
            Fr(-2, 3), Fr(1, 8), Fr(3, 10), Fr(-5, 4), Fr(4, 3), Fr(1, 6), Fr(1, 7), Fr(-7, 3)]
COEFF = ["2", "3", "10", "1000", "0.5", "2.5", "1.25", "0.001", "1e3", "1e-3", "6.02e23", "1.38e-23", "0.1", "7", "12", "100",
         "3.0", "1e6", "4.184", "0.3048", "1.5e-5", "299792458", "9.81", "0.25", "1e10", "1e-10", "5", "60", "3600", "1e21", "3.7e-7"]


def gen_tree(r, names, depth, coeff_p=0.15, root=True):
    """random expression tree over the given atom names"""
    if depth <= 0 or r.random() < 0.25:
        if r.random() < coeff_p and not root:
            return ("c", r.choice(COEFF))
        return ("n", r.choice(names))
    k = r.random()
    if k < 0.34:
        return ("*", gen_tree(r, names, depth - 1, coeff_p, False), gen_tree(r, names, depth - 1, coeff_p, False))
    if k < 0.62:
        return ("/", gen_tree(r, names, depth - 1, coeff_p, False), gen_tree(r, names, depth - 1, 0.05, False))
    if k < 0.90:
        e = Fr(r.choice(EXPO_INT)) if r.random() < 0.55 else r.choice(EXPO_RAT)
        return ("^", gen_tree(r, names, depth - 1, 0.03, False), e)
    return ("q", gen_tree(r, names, depth - 1, 0.03, False))


def leaves(t):
    if t[0] in ("n", "c"):
        return [t]
    if t[0] in ("*", "/"):
        return leaves(t[1]) + leaves(t[2])
    return leaves(t[1])


def has_coeff(t):
    return any(l[0] == "c" for l in leaves(t))


def shape(t):
    """structural class of a tree for coverage cells"""
    if t[0] in ("n", "c"):
        return t[0]
    if t[0] in ("*", "/"):
        return t[0] + "(" + shape(t[1])[:1] + shape(t[2])[:1] + ")"
    if t[0] == "^":
        e = t[2]
        return "^" + ("i" if e.denominator == 1 else "r") + ("-" if e < 0 else "") + "(" + shape(t[1])[:1] + ")"
    return "q(" + shape(t[1])[:1] + ")"


# ---------------------------------------------------------------- rendering
def _is_atomic(t):
    return t[0] in ("n", "q") or (t[0] == "c" and re.fullmatch(r"\d+(\.\d*)?", t[1]) is not None)


FLOATABLE_DEN = (1, 2, 4, 5, 8, 10, 20)


def fmt_expo(e, style, r=None):
    """style: 'rat' -> 2 / -2 / (3/2) / (-3/2) ; 'float' -> 2.0 / -1.5 when exactly decimal ; 'paren' -> always parenthesised"""
    e = Fr(e)
    if style == "float" and e.denominator in FLOATABLE_DEN:
        s = repr(float(e))
        return s
    if e.denominator == 1:
        if style == "paren":
            return "(%d)" % e.numerator
        return "%d" % e.numerator
    return "(%d/%d)" % (e.numerator, e.denominator)


class Style:
    """one spelling of an expression"""
    __slots__ = ("div", "expo", "sqrt", "space", "name", "r")

    def __init__(self, div="slash", expo="rat", sqrt="sqrt", space=0, name=None, r=None):
        self.div, self.expo, self.sqrt, self.space, self.name, self.r = div, expo, sqrt, space, name, r

    def label(self):
        return "%s/%s/%s/sp%d/%s" % (self.div, self.expo, self.sqrt, self.space, "uni" if self.name else "ascii")


CANON = Style()


def _sp(st):
    if not st.space or st.r is None:
        return ""
    return st.r.choice(["", " ", " ", "  "]) if st.space == 1 else st.r.choice([" ", "  ", " \t"])


def render(t, st=CANON):
    s = _render(t, st)
    if st.space and st.r is not None and st.r.random() < 0.3:
        s = _sp(st) + s + _sp(st)
    return s


def _atom(t, st):
    """render t so that it can be the base of ** or the right operand of /"""
    s = _render(t, st)
    if _is_atomic(t) and not (t[0] == "q" and st.sqrt != "sqrt"):      # sqrt spelled x**(1/2) is a power, not an atom
        return s
    return "(" + _sp(st) + s + _sp(st) + ")"


def _render(t, st):
    k = t[0]
    if k == "n":
        return st.name(t[1]) if st.name else t[1]
    if k == "c":
        return t[1]
    if k == "*":
        a = _render(t[1], st)
        b = _render(t[2], st) if t[2][0] not in ("*", "/") else "(" + _render(t[2], st) + ")"
        return a + _sp(st) + "*" + _sp(st) + b
    if k == "/":
        a = _render(t[1], st)
        if st.div == "slash":
            b = _render(t[2], st) if t[2][0] not in ("*", "/") else "(" + _render(t[2], st) + ")"
            return a + _sp(st) + "/" + _sp(st) + b
        if st.div == "neg":
            b = _atom(t[2], st) if t[2][0] != "^" else "(" + _render(t[2], st) + ")"
            return a + _sp(st) + "*" + _sp(st) + b + _sp(st) + "**" + _sp(st) + ("-1" if st.expo != "float" else "-1.0")
        # 'recip'
        b = _render(t[2], st) if t[2][0] not in ("*", "/") else "(" + _render(t[2], st) + ")"
        return a + _sp(st) + "*" + _sp(st) + "(1" + _sp(st) + "/" + _sp(st) + b + ")"
    if k == "^":
        base = _atom(t[1], st) if t[1][0] != "^" else "(" + _render(t[1], st) + ")"
        if t[1][0] == "c" and not _is_atomic(t[1]):
            base = "(" + t[1][1] + ")"
        return base + _sp(st) + "**" + _sp(st) + fmt_expo(t[2], st.expo)
    if k == "q":
        inner = _render(t[1], st)
        if st.sqrt == "sqrt":
            return "sqrt(" + _sp(st) + inner + _sp(st) + ")"
        base = _atom(t[1], st) if t[1][0] != "^" else "(" + inner + ")"
        return base + "**" + ("(1/2)" if st.sqrt == "half" else "0.5")
    raise ValueError(k)


def styles(r, n, namefn=None):
    """n random spellings (the canonical one first)"""
    out = [CANON]
    for _ in range(n):
        out.append(Style(div=r.choice(["slash", "neg", "recip"]), expo=r.choice(["rat", "float", "paren"]),
                         sqrt=r.choice(["sqrt", "half", "float"]), space=r.choice([0, 1, 2]),
                         name=namefn if (namefn and r.random() < 0.7) else None, r=r))
    return out


# ---------------------------------------------------------------- unicode / ASCII spellings of one name
SIGNS = {"angstrom": ["Å"], "degree": ["°", "deg"], "deg": ["°", "degree"], "degC": ["°C"], "degF": ["°F"],
         "delta_degC": ["Δ°C"], "delta_degF": ["Δ°F"], "percent": ["%"], "ohm": ["Ω"]}


def sign_spellings(name, is_micro):
    """the spellings the statement calls equivalent: micro sign/greek mu/u prefix, ohm sign, angstrom sign, degree sign"""
    out = []
    if name in SIGNS:
        out += SIGNS[name]
    if name.endswith("ohm") and not name.endswith("statohm") and name != "ohm" and len(name) <= 5:
        out.append(name[:-3] + "Ω")
    if is_micro:
        rest = name[1:]
        alts = [rest]
        if rest == "ohm":
            alts.append("Ω")
        for p in ("µ", "μ", "u"):
            for a in alts:
                if p + a != name:
                    out.append(p + a)
    return out


# ---------------------------------------------------------------- hostile dictionary (family, text)
def hostile_templates():
    H = []

    def a(fam, *texts):
        for t in texts:
            H.append((fam, t))
    a("floordiv", "m//s", "7//2*m", "m//2")
    a("floordiv-zero", "1//0", "m//0", "(1//0)*m")
    a("mod-zero", "divmod(1,0)", "1 .__mod__(0)")
    a("zero-division", "m/0", "1/0", "m**(1/0)", "0**-1*m", "m/(2-2)", "1/(m-m)")
    a("zero-power", "0**0*m", "0*m", "m**0", "0")
    a("imag-literal", "2j*m", "1j", "m**1j", "3.5J*kg")
    a("subscript", "(m,s)[2]", "(m,s)[0]", "{}[m]", "{1:m}[2]", "m[0]", "[m][0]", "[m][5]", "'abc'[10]", "(m,)[m]")
    a("attribute", "m.real", "m.is_positive", "Symbol.__subclasses__()", "Float.__mro__", "sqrt.__globals__", "().__class__",
      "1 .real", "m.__class__.__base__", "().__class__.__bases__[0].__subclasses__()", "sqrt.__globals__['__builtins__']['eval']('1')",
      "Integer.mro()", "m.subs(m,s)", "m.name", "(m*s).args", "Symbol('x').is_Symbol")
    a("call-builtin", "eval('1')", "exec('1')", "compile('1','','eval')", "open('/dev/null')", "print('x')", "input()", "breakpoint()",
      "getattr(m,'name')", "globals()", "locals()", "vars()", "dir()", "type(m)", "exit()", "quit()", "__import__('os')",
      "__import__('os').system('true')", "__import__('subprocess').run(['true'])", "eval('m')*s", "eval(\"__import__('os')\")",
      "len('ab')*m", "abs(-1)*m", "int('3')*m", "float('nan')*m", "str(m)", "repr(m)", "hash(m)*m", "id(m)", "pow(2,3)*m",
      "max(1,2)*m", "sum([1,2])*m", "chr(109)", "list((m,))", "iter(())", "next(iter(()))", "help()", "memoryview(b'x')",
      "__builtins__", "__builtins__['eval']('1')", "__builtins__.eval('1')", "__name__", "__doc__", "__loader__", "__spec__")
    a("call-symbol", "m(s)", "m()", "2(m)", "hello(37)", "hello(foo=37)", "factorial(3)*m", "log(m)", "exp(2)*m", "sin(m)", "Abs(m)",
      "Mul(m,s)", "Pow(m,2)", "sympify('m')", "S(1)*m", "N(2)*m", "cos(0)*m")
    a("parser-vocab", "Symbol('m')", "Symbol('x')", "Symbol()", "Symbol('m', positive=True)", "Symbol('a b')", "Symbol('')", "Symbol(' ')", "Symbol('1')", "Symbol('%')", "Symbol('m/s')", "Symbol('')*m", "Integer(3)*m", "Integer('x')",
      "Integer()", "Float('1')", "Float('nan')*m", "Float('inf')*m", "Float('-inf')*m", "Float('1e400')*m", "Rational(1,2)*m",
      "Rational(1,0)*m", "Rational('1/3')*m", "Rational('x')", "Float(m)", "Integer(m)", "Symbol(m)", "Symbol(1)", "sqrt", "Symbol",
      "Integer", "Float*m", "Rational**2", "sqrt*m", "Symbol.Symbol", "Float.Integer(2)")
    a("sqrt-form", "sqrt()", "sqrt(m,s)", "sqrt(m, evaluate=False)", "sqrt(-1)*m", "sqrt(-m)", "sqrt(m)(s)", "sqrt(sqrt(m))", "sqrt(4)*m",
      "sqrt(2)*m", "sqrt(0)*m", "sqrt(*[m])", "sqrt(**{})", "sqrt(m for m in s)", "sqrt('m')", "sqrt(None)", "sqrt(1/0)")
    a("complex-power", "(-8)**(1/3)*m", "(-1)**0.5", "(-1)**0.5*m", "(-m)**0.5", "(-2.5)**1.5*kg", "(-1)**(1/3)")
    a("symbolic-exponent", "m**s", "2**m", "m**(2*s)", "m**(s/s)", "m**m**m", "kg**sqrt(m)", "m**(-s)", "2.5**kg*m")
    a("additive", "m+s", "m-s", "m+m", "m-m", "-m", "+m", "m+1", "1+1", "(1+1)*m", "m**(1+1)", "m**(3-1)", "--m", "m*-1", "-(-m)", "2-3", "(2-3)*m")
    a("nonfinite", "1e400*m", "1e-400*m", "m**1e400", "1e308*km", "1e309*m", "inf*m", "nan*m", "oo*m", "zoo*m", "-1e400*m", "1e400/1e400*m",
      "1e400", "m/1e400", "1e-400")
    a("sympy-name", "pi*m", "E*m", "I*m", "S", "N", "O", "Q", "oo", "zoo", "nan", "pi", "E", "I", "true", "false", "C", "symbols", "var")
    a("python-constant", "None", "True", "False", "True*m", "None*m", "...", "...*m", "NotImplemented", "Ellipsis", "__debug__")
    a("keyword", "else", "lambda", "lambda: 1", "lambda: m", "(lambda: m)()", "(lambda x: x)(m)", "m if s else g", "not m", "m and s", "m or s",
      "m is s", "m in s", "await m", "yield m", "assert m", "del m", "import os", "from os import path", "class A: pass", "def f(): pass",
      "with m: pass", "try: m", "raise m", "return m", "pass", "global m", "while m: pass", "for m in s: pass", "print m", "exec 'm'",
      "match m", "async", "[m for m in (s,)]", "[Symbol('m') for Symbol in (Integer,)]", "{m for m in (s,)}", "(m for m in (s,))", "(x:=m)")
    a("comparison", "m<s", "m>s", "m<=s", "m>=s", "m==s", "m!=s", "m<s<g", "m==m", "1<2", "(m<s)*g", "m<>s")
    a("bit-operator", "m@s", "m^2", "m^s", "m|s", "m&s", "~m", "m<<2", "m>>2", "1<<2", "1<<-1", "1<<m", "2^3", "~1", "1|2", "(1|2)*m", "m@2", "1@2")
    a("modulo", "5%2", "m%s", "%", "%%", "m%", "%m", "100*%", "%/s", "1%0", "%**2", "% %")
    a("postfix", "m!", "3!", "m!!", "m?", "m'", "m\"", "m`", "m$", "$m", "m#s", "m#", "#m", "#")
    a("literal", "'m'", "\"m\"", "b'm'", "f'{m}'", "f'{m'", "'m", "\"\"\"m\"\"\"", "r'm'", "u'm'", "'m'*2", "'m'+'s'", "'a' 'b'", "'%s' % m", "'{}'.format(m)",
      "0x10*m", "0b11*m", "0o17*m", "1_000*m", "1__0*m", "0777*m", "00*m", "1.*m", ".5*m", "1.e3*m", "1e+3*m", "1E3*m", "1e*m", "0x*m", "1.2.3*m", "١٢٣*m",
      "２*m", "1L*m", "1l*m", "10**2*m", "1e3j")
    # a string literal that reaches sympy inside a container operand is sympified, i.e. parsed and evaluated once more with the
    # full sympy namespace (Symbol * tuple -> sympify(tuple) -> sympify(str)): the sandbox monitors must see nothing nested
    a("string-in-container", "m*('1+1',)", "m/('s',)", "m/['2']", "m*['kg', 's']", "('s',)*m", "m**('2',)", "m+('s',)", "m-['s']", "m*{'s'}", "m*{'a': 's'}",
      "m*(('1',),)", "sqrt(('m',))", "sqrt(['m'])", "m*(\"s\",)", "m*(b's',)", "m*(f'{2}',)", "m*('lambda: 1',)", "m*('Symbol(\"q\")',)", "m*('1/0',)",
      "m*('__name__',)", "m/('dir()',)", "m*('len(\"ab\")',)", "m*('m', 's', 'kg')", "Symbol('m')*('s',)", "Integer(2)*('m',)", "Float(2)*['m']", "Rational(1,2)*('m',)")
    a("container", "m,s", "(m,s)", "[m]", "{m}", "{m:s}", "()", "( )", "[]", "{}", "(m,)", "m,", ",m", "[m,s]*2", "(m)*(s)", "((m))", "(m)(s)")
    a("incomplete", "(m", "m)", "m**", "**m", "*", "/", "m*", "*m", "m/", "/m", "m**/s", "m*/s", "m//", "(", ")", "((m)", "m))", "m**(", "sqrt(", "sqrt(m",
      "m..s", "m.", ".m", "m s", "3 m", "m 3", "3m", "m3 s", "m**2s", "2**", "1/", "m**-", "m**+", "m***s", "m****2", "m//*s")
    a("whitespace", " m", "m ", "\tm", "m\n", "m\ns", "m\rs", "m\r\n", "\nm", "m\\s", "m\\\n*s", "m\\", "\\", " ", "\t", "\n", "m;s", "m;", ";", "m\fs", "m\vs",
      "m\x0c", "\x0bm", "m * \n s", "(m *\n s)", "m # comment\n", "m\x1f", "m\x7f", "m\x85s", "m s", "m ", " m", "N m", "m s", "m　")
    a("unicode-operator", "m**−1", "m−s", "m²", "m³", "m⁻¹", "N·m", "N×m", "N⋅m", "m∕s", "m÷s", "m⁄s", "½*m", "m**½", "√m", "m‐1", "m–s", "m—s", "m＊s", "m／s",
      "（m）", "m＾2", "m∗s", "π*m", "∞*m", "m′", "m″", "10⁻³*m")
    a("unicode-name", "𝓂", "😀", "m😀", "ｍ", "ｋｍ", "m​", "﻿m", "‮m", "ḿ", "é", "ñ*m", "Ångström", "Å", "Å", "Å*m", "AA", "µ", "μ", "Ω", "Ω",
      "℧", "°", "°°", "°C", "°c", "° C", "°F", "°K", "°R", "°X", "°N", "°E", "Δ", "Δ°", "Δ°C", "Δ°F", "Δ°K", "ΔC", "∆°C", "Δ °C", "°C**2", "m/°C", "°*m", "m**°",
      "℃", "℉", "K", "Ｋ", "ℓ", "ℏ", "㎏", "㎞", "㎧", "㏀", "µΩ", "uΩ", "μohm", "mΩ", "µ°C", "u°C", "µm", "μm", "um", "µµm", "ßm", "ǆ", "ᵐ", "m̃", "मी", "米", "м",
      "κm", "Μm", "Å", "Ω", "µs", "μs")
    a("control-char", "\x00", "m\x00", "\x00m", "m\x00s", "m\x01", "\x1bm", "m\x08", "\x7f", "m\x1a", "\x04")
    a("surrogate", "\ud800", "m\ud800", "\udc00m", "𐀀", "m*\udfff", "\udcff")
    a("dunder", "__class__", "__import__", "__builtins__", "__name__", "_", "__", "___", "_m", "m_", "__m__", "_1", "m__s")
    a("unknown-name", "x", "foo", "foo_bar", "kfoo", "nothing", "mM", "KM", "Km", "kM", "metre2", "m2", "sec", "secs", "kilo", "k", "M", "u", "da", "dam", "dadam",
      "mmm", "kkm", "microm", "Micrometer", "MICROMETER", "kilokilometer", "code_length", "unitary", "dimensionless", "Dimensionless", "1", "1.0", "one", "unity")
    a("long-input", "m*" * 400 + "m", "(" * 150 + "m" + ")" * 150, "(" * 400 + "m" + ")" * 400, "*".join(["m"] * 3000), "/".join(["kg", "m"] * 1500),
      "a" * 20000, "m**2" + "**2" * 3, "9" * 4000 + "*m", "9" * 5000 + "*m", "m**" + "9" * 5000, "0." + "3" * 5000 + "*m", "-" * 3000 + "m", "(" * 3000 + "m" + ")" * 3000,
      "sqrt(" * 60 + "m" + ")" * 60, "sqrt(" * 1200 + "m" + ")" * 1200, "m" + "**(1/2)" * 3, " " * 20000 + "m", "m" + " " * 20000, "*".join("u%d" % i for i in range(1500)),
      "m" * 300, "m" + "\n" * 5000, "m*(" * 500 + "s" + ")" * 500, "[" * 300 + "]" * 300, "~" * 2000 + "m", "not " * 500 + "m",
      "m**-" + "1" * 4400, "1/" + "7" * 4400 + "*m", "1e4400*m", "1e-4400*m", "m**1e4400", "m/1e5000", "m/1e5000,", "[1e5000]", "1e5000<m")
    return H


def bomb_templates():
    """strings whose evaluation may take unbounded time or memory: always run fork-isolated"""
    return [("bomb-tower", "9**9**9**9"), ("bomb-tower", "9**9**9"), ("bomb-tower", "m**9**9**9"), ("bomb-tower", "2**2**2**2**2**2*m"),
            ("bomb-int-power", "9**99999999"), ("bomb-int-power", "7**(10**8)*m"), ("bomb-int-power", "(10**7)**(10**7)"),
            ("bomb-float-power", "2.0**1e9*m"), ("bomb-float-power", "1.5**(10**10)"), ("bomb-float-power", "0.5**1e12*m"),
            ("bomb-unit-power", "km**99999999"), ("bomb-unit-power", "km**1e400"), ("bomb-unit-power", "km**(10**9)"), ("bomb-unit-power", "m**(9**9**9)"),
            ("bomb-unit-power", "pc**(10**6)"), ("bomb-unit-power", "mm**-1e300"),
            ("bomb-rational", "(1/3)**(10**7)*m"), ("bomb-rational", "(3/7)**(10**6)"), ("bomb-root", "sqrt(10**100000)*m"), ("bomb-root", "(10**100001)**(1/3)"),
            ("bomb-root", "sqrt(9**99999)"), ("bomb-string-repeat", "'a'*9**10"), ("bomb-string-repeat", "'a'*10**12"), ("bomb-string-repeat", "[m]*10**10"),
            ("bomb-string-repeat", "(m,)*10**9"), ("bomb-factor", "(2**4423-1)**(1/2)*m"), ("bomb-literal", "1e99999999*m"), ("bomb-literal", "1e-99999999*m"),
            ("bomb-literal", "m**1e9999999"), ("bomb-shift", "Integer(1).p<<10**10"), ("bomb-nested", "((9**9)**(9**9))**(9**9)"),
            ("bomb-tower", "m**2" + "**2" * 8), ("bomb-irrational-tower", "m" + "**(1/2)" * 40), ("bomb-literal", "1e" + "9" * 30 + "*m"),
            ("bomb-literal", "m**(1e" + "9" * 30 + "*m)")]


BOMB_RE = re.compile(r"\*\*[\s\d.()+\-eE_]*\*\*|\d{5,}|[eE][+-]?\d{2,}|\*\s*\d{3,}\s*(?:$|\))|<<")


def bomb_suspect(s):
    """cheap syntactic test used on mutated strings: exponent towers, long digit runs, large e-notation, sequence repetition"""
    if "**" in s and BOMB_RE.search(s) is not None:
        return True
    if re.search(r"['\"\[\],]", s) and "*" in s and re.search(r"\d{3,}|\*\*", s):
        return True          # sequence repetition: 'a'*10**9, [m]*999999
    return False


PYTOK = ["lambda", "lambda:", "if", "else", "for", "in", "not", "and", "or", "is", "None", "True", "False", "import", "__import__", "__class__",
         "__globals__", "__builtins__", "__subclasses__", "__mro__", "__dict__", ".", "..", "...", ",", ":", ";", "=", "==", "!=", "<", ">", "<=", ">=",
         "<<", ">>", "@", "%", "//", "^", "|", "&", "~", "!", "+", "-", "*", "/", "**", "(", ")", "[", "]", "{", "}", "'", '"', "'a'", '"b"', "b'x'", "f'{m}'",
         "0", "1", "2", "-1", "0.5", "1e3", "1e400", "1e-400", "1j", "2j", "0x1F", "0b101", "0o17", "1_000", "99", "inf", "nan", "oo", "zoo", "pi", "E", "I",
         "S", "N", "O", "Q", "sqrt", "Symbol", "Integer", "Float", "Rational", "eval", "exec", "compile", "open", "print", "input", "breakpoint", "getattr",
         "setattr", "globals", "locals", "vars", "dir", "type", "object", "exit", "help", "os", "sys", "\\", "\n", "\t", "\x00", "#", "$", "?", "`", "·", "×",
         "⋅", "−", "²", "³", "½", "µ", "μ", "Ω", "Å", "°", "Δ", "Δ°", "𝓂", "😀", "​", "﻿", "‮", "ｍ", "\ud800", "%s", "{}", "->", ":=", "await",
         "yield", "assert", "del", "class", "def", "with", "try", "raise", "return", "pass", "global", "while", "from", "as", "async", "match", "_", "__",
         "(1/0)", "(1//0)", "[0]", "[9]", "()", "(,)", ".real", ".args", "j", "e", "E5", "**-", "*-", "/-", "//0", "%0", "0**-1", "1/0", "(-1)", "**0.5", "**(1/2)",
         "**-1", "**2", "**(", "/(", "*(", "sqrt(", ")**", "1/", "m", "s", "kg", "K", "degC", "dB", "rad", "percent", "dimensionless", "Msun", "km"]

TOKEN_RE = re.compile(r"\*\*|//|[^\W\d][\w°]*|[°Δ%][\w°]*|\d+\.?\d*(?:[eE][+-]?\d+)?|\s+|.", re.UNICODE | re.DOTALL)


def tok_category(tok):
    if tok in ("lambda", "lambda:", "if", "else", "for", "in", "not", "and", "or", "is", "import", "await", "yield", "assert", "del", "class", "def", "with", "try", "raise",
               "return", "pass", "global", "while", "from", "as", "async", "match"):
        return "keyword"
    if tok.startswith("__") or tok in ("eval", "exec", "compile", "open", "print", "input", "breakpoint", "getattr", "setattr", "globals", "locals", "vars", "dir", "type",
                                        "object", "exit", "help", "os", "sys"):
        return "builtin-name"
    if tok in ("sqrt", "Symbol", "Integer", "Float", "Rational"):
        return "vocab-name"
    if tok and (tok[0].isdigit() or tok[0] == "-" and tok[1:2].isdigit()):
        return "number"
    if tok.isascii() and tok.isidentifier():
        return "name"
    if not tok.isascii():
        return "non-ascii"
    if any(c in tok for c in "\n\t\x00\\"):
        return "control"
    return "operator"


def mutate_tokens(r, s, k=None):
    """token-level mutation -> (text, category of the last inserted dictionary token or the operation)"""
    toks = [t for t in TOKEN_RE.findall(s)]
    if not toks:
        toks = ["m"]
    cat = "edit"
    for _ in range(k or r.choice([1, 1, 1, 2, 2, 3])):
        op = r.random()
        i = r.randrange(len(toks) + 1)
        if op < 0.40:
            t = r.choice(PYTOK)
            toks.insert(i, t)
            cat = tok_category(t)
        elif op < 0.65 and toks:
            t = r.choice(PYTOK)
            toks[min(i, len(toks) - 1)] = t
            cat = tok_category(t)
        elif op < 0.78 and len(toks) > 1:
            del toks[min(i, len(toks) - 1)]
            cat = "delete"
        elif op < 0.88 and toks:
            j = min(i, len(toks) - 1)
            toks.insert(j, toks[j])
            cat = "duplicate"
        elif len(toks) > 1:
            j = min(i, len(toks) - 2)
            toks[j], toks[j + 1] = toks[j + 1], toks[j]
            cat = "swap"
    sep = r.choice(["", "", " "])
    return sep.join(toks), cat


INTERESTING_BYTES = [0x00, 0xff, 0xfe, 0x80, 0xbf, 0xc0, 0xc2, 0xc3, 0xe2, 0xf0, 0xed, 0x28, 0x29, 0x2a, 0x2f, 0x5c, 0x27, 0x22, 0x0a, 0x0d, 0x09, 0x20, 0x25,
                     0x2e, 0x2c, 0x5b, 0x5d, 0x7b, 0x7d, 0x30, 0x39, 0x65, 0x6a, 0x5f, 0x2d, 0x2b, 0x3d, 0x3c, 0x7e, 0x21, 0x40, 0x23, 0x24, 0x5e, 0x7c, 0x26, 0x3b, 0x3a, 0x1b, 0x7f]


def mutate_bytes(r, s, other=None):
    """byte-level mutation of the UTF-8 encoding -> bytes (possibly not valid UTF-8)"""
    b = bytearray(s.encode("utf-8", "surrogatepass"))
    for _ in range(r.choice([1, 1, 2, 3])):
        op = r.random()
        i = r.randrange(len(b) + 1)
        if op < 0.35 and b:
            b[min(i, len(b) - 1)] = r.choice(INTERESTING_BYTES) if r.random() < 0.7 else r.randrange(256)
        elif op < 0.65:
            b.insert(i, r.choice(INTERESTING_BYTES) if r.random() < 0.7 else r.randrange(256))
        elif op < 0.80 and len(b) > 1:
            del b[min(i, len(b) - 1)]
        elif op < 0.88 and b:
            j = min(i, len(b) - 1)
            b[j] ^= 1 << r.randrange(8)
        elif op < 0.94:
            b = b[:i]
        elif other is not None:
            o = other.encode("utf-8", "surrogatepass")
            b = b[:i] + bytearray(o[r.randrange(len(o) + 1):])
    return bytes(b)
