"""C10 workload dimension: the AFTERMATH OF A REJECTED OPERATION.

A history is

    set-up      valid systems are defined (generated user systems on the default registry; optionally a system on the code units
                of a custom registry, named by the user or by the registry's id), some units are converted into some systems
    rejected    a few operations of ONE class that the library refuses (the caller catches the exception and goes on):
                  ctor        UnitSystem(...) with inconsistent base units - two slots swapped, one slot of the wrong dimension,
                              an unknown or unparsable unit - under a never-used name, under the name of a valid user system,
                              under the name of a built-in system, under a code registry's id / over a custom registry
                  setitem     S[dimension] = unit that raises (current dimension in a system without current, unknown dimension
                              name, unparsable unit expression) on a built-in / user / code system
                  conversion  in_base / convert_to_base / get_base_equivalent / S[...] calls that raise (unknown system name,
                              not reducible, read-only target of the in-place form, unit foreign to a code system's registry,
                              dimension the system cannot express)
    aftermath   every registered system name (7 built-ins + the set-up systems), through every handle (name, the object held
                from before, 'code', dataset-like, a registry whose default it is), first call rotated over the three forms,
                plus every name that only a rejected construction ever used

The same history with the rejected operations left out is the *twin* (run in a process of its own).  Everything is drawn here
as plain data; the runner draws nothing, so both processes execute the same calls.  The generator knows nothing of unyt; the
pools of the check (gen_system, WRONG, atom_list, gen_compound) are handed in."""
from vf.ref import c10_systems as SM

OPCLASSES = ("ctor", "ctor", "setitem", "conversion")
CTOR_NAMEKINDS = ("fresh", "existing-user", "builtin", "code")
DEFECTS = ("swap", "swap", "wrong", "wrong", "unknown-symbol", "unparsable")
SWAPPABLE = ("length", "mass", "time", "temperature", "angle")
ROUTES = ("in_base", "convert_to_base", "get_base_equivalent")
MECH = ["km", "g", "hr", "K", "degree", "km/s", "g/cm**3", "J", "erg/s", "N", "Pa", "Msun*kpc/Myr**2", "1/s", "m**2", "cd", "eV",
        "psi", "mile/hr", "lbf", "hp", "erg", "dyn/cm**2", "Msun/kpc**3", "ft*lbf", "keV", "W", "Hz", "J/K", "kg*m/s", "sr", "lm", "Np"]
EM = ["C", "T", "A", "V", "G", "statC", "uG", "mT", "A/cm", "C/m**3"]
CODE_UNITS = ["code_length", "code_mass", "code_time", "code_temperature", "code_velocity", "code_mass/code_length**3",
              "code_length**2*code_mass/code_time**2", "code_length/s", "code_pressure"]
BAD_UNITS = ("erg**", "2 +* m", "km/(s", "J*", "(kg")
NOT_REDUCIBLE = ("A/cm", "A*s/m**3", "C*m", "T/s", "A**2", "V/m", "F")
SETITEM_DIMS = ("energy", "pressure", "velocity", "force", "power", "density", "frequency", "area", "momentum")
DIM_PROBE = {"energy": ["erg", "J", "eV"], "pressure": ["Pa", "psi", "dyn/cm**2"], "velocity": ["km/s", "mile/hr"], "force": ["N", "lbf", "dyn"],
             "power": ["W", "hp", "erg/s"], "density": ["g/cm**3", "Msun/kpc**3"], "frequency": ["Hz", "1/s"], "area": ["m**2", "acre"],
             "momentum": ["kg*m/s", "g*cm/s"], "specific_energy": ["J/kg", "erg/g"], "volume": ["L", "m**3"], "acceleration": ["m/s**2", "ft/s**2"],
             "tension": ["N/m"], "specific_flux": ["Jy"], "solid_angle": ["sr"], "angular_frequency": ["rpm"], "luminance": ["nt"]}
EM_KEYS = ("charge_mks", "magnetic_field_mks", "current_mks", "electric_potential_mks", "resistance_mks", "charge", "magnetic_field")
GHOST_CONV_NAMES = ("vf_c10_nosuch", "CGS ", "Galactic", "mks_", "code?")


def _code_setup(r, tag, idx):
    named = r.choice(["id", "user", "id"])
    return {"L": 10 ** r.uniform(-3, 24), "M": 10 ** r.uniform(-6, 42), "T": 10 ** r.uniform(-6, 16), "K": r.choice([1.0, 2.5, 1e4]),
            "cur": bool(idx % 2), "named": named, "name": "@code-id" if named == "id" else f"vf_c10_rj_code_{tag}"}


def code_base(cur):
    return {"length": "code_length", "mass": "code_mass", "time": "code_time", "temperature": "code_temperature", "angle": "rad",
            "current_mks": "A" if cur else None, "luminous_intensity": "cd", "logarithmic": "Np"}


def _apply_defect(r, base, forms, defect, wrong, code):
    """-> (slot(s) label, defect) ; base/forms are edited in place"""
    present = [s for s in SWAPPABLE if base.get(s) is not None]
    if defect == "swap":
        a, b = r.sample(present[:3] if r.random() < 0.6 else present, 2)     # mostly among length / mass / time
        base[a], base[b] = base[b], base[a]
        forms[a], forms[b] = forms[b], forms[a]
        return "+".join(sorted((a, b)))
    slot = r.choice([s for s in SM.SLOTS if base.get(s) is not None] if r.random() < 0.5 else list(present[:3]))
    if defect == "wrong":
        pool = list(wrong[slot])
        if code:
            pool += {"length": ["code_mass", "code_velocity"], "mass": ["code_length", "code_time"], "time": ["code_velocity", "code_length"],
                     "temperature": ["code_time"]}.get(slot, [])
            if r.random() < 0.5 and slot in ("length", "mass", "time", "temperature"):
                pool = pool[len(wrong[slot]):]
        base[slot] = r.choice(pool)
        forms[slot] = r.choice(["str", "str", "unit", "quantity", "coeffstr"])
    elif defect == "unknown-symbol":
        base[slot] = r.choice(["vf_nosuch_unit", "code_nosuch", "kmm", "Msunn"])
        forms[slot] = "str"
    else:
        base[slot] = r.choice(BAD_UNITS)
        forms[slot] = "str"
    return slot


def _ctor_op(r, c10, hist, namekind, serial):
    tag = hist["tag"]
    code = hist["code"]
    fresh = c10.gen_system(r, f"rjx_{tag}_{serial}", allow_offset=False)
    registry = "default"
    target = None
    if namekind == "fresh":
        name = r.choice(["vf_c10_rj_bad", "atomic", "lab bad", "Vf_C10_Bad"]) + f"_{tag}_{serial}"
        base, forms = dict(fresh["base"]), dict(fresh["forms"])
        if code is not None and r.random() < 0.4:
            registry = "code"
            base, forms = code_base(code["cur"]), {s: "str" for s in SM.SLOTS}
    elif namekind == "existing-user":
        k = r.randrange(len(hist["user"]))
        u = hist["user"][k]
        name, target = u["name"], f"user:{k}"
        if r.random() < 0.7:
            base, forms = dict(u["base"]), dict(u["forms"])            # 'the same system, two units mixed up'
        else:
            base, forms = dict(fresh["base"]), dict(fresh["forms"])
    elif namekind == "builtin":
        name = r.choice(sorted(SM.BUILTIN))
        target = f"builtin:{name}"
        if r.random() < 0.7:
            base = dict(zip(SM.SLOTS, SM.BUILTIN[name][0]))
            forms = {s: ("none" if base[s] is None else r.choice(["str", "str", "unit"])) for s in SM.SLOTS}
        else:
            base, forms = dict(fresh["base"]), dict(fresh["forms"])
    else:   # the registered code system's name (the registry's id or the user's name for it), over its registry
        name, target, registry = code["name"], "code", "code"
        base, forms = code_base(code["cur"]), {s: "str" for s in SM.SLOTS}
    if base.get("current_mks") is None:
        forms["current_mks"] = "none"
    defect = r.choice(DEFECTS)
    slot = _apply_defect(r, base, forms, defect, c10.WRONG, registry == "code")
    for s in SM.SLOTS:
        if base.get(s) is None:
            forms[s] = "none"
    return {"op": "ctor", "namekind": namekind, "name": name, "target": target, "registry": registry, "defect": defect, "slot": slot,
            "desc": {"name": name, "base": base, "forms": forms, "coeff": dict(fresh["coeff"]), "over": [], "npos": r.choice([3, 3, 5, 0])}}


def _systems(hist):
    """references of all registered systems of a history: (ref, has a current unit)"""
    out = [(f"builtin:{s}", SM.BUILTIN[s][0][5] is not None) for s in sorted(SM.BUILTIN)]
    out += [(f"user:{k}", u["base"]["current_mks"] is not None) for k, u in enumerate(hist["user"])]
    if hist["code"] is not None:
        out.append(("code", hist["code"]["cur"]))
    return out


def _setitem_op(r, hist, ref, cur):
    kinds = ["unknown-dimension", "unparsable-unit", "unparsable-unit"] + ([] if cur else ["em-in-nocur", "em-in-nocur"])
    kind = r.choice(kinds)
    if kind == "em-in-nocur":
        key, val = r.choice(EM_KEYS), r.choice(["C", "T", "A", "V", "ohm", "mT"])
    elif kind == "unknown-dimension":
        key, val = r.choice(["nodim", "energy_density_xyz", "Length", "mass_"]), r.choice(["m", "erg", "kg"])
    else:
        key, val = r.choice(SETITEM_DIMS), r.choice(BAD_UNITS)
        # more often than not a dimension the system already DECLARES a unit for (the declaration must survive the rejected one)
        if ref.startswith("builtin:"):
            decl = [k for k in SM.BUILTIN[ref.split(":")[1]][1] if k in DIM_PROBE]
        elif ref.startswith("user:"):
            decl = [o[0] for o in hist["user"][int(ref.split(":")[1])]["over"] if o[0] in DIM_PROBE]
        else:
            decl = ["velocity", "pressure"]
        if decl and r.random() < 0.65:
            key = r.choice(sorted(decl))
    return {"op": "setitem", "sys": ref, "target": ref, "kind": kind, "key": key, "keyform": r.choice(["name", "name", "dimobj"]) if kind != "unknown-dimension" else "name",
            "value": val}


def _conv_op(r, hist, ref, cur):
    kinds = ["unknown-system", "readonly-inplace", "getitem-unknown", "wrong-type-system"] + ([] if cur else ["not-reducible", "not-reducible", "getitem-missing-current"])
    if ref == "code":
        kinds += ["foreign-code-unit", "foreign-code-unit"]
    kind = r.choice(kinds)
    op = {"op": "conv", "sys": ref, "target": ref, "kind": kind, "form": r.choice(ROUTES), "unit": r.choice(MECH[:20])}
    if kind == "unknown-system":
        op["ghost"] = r.choice(GHOST_CONV_NAMES)
        op["target"] = None
    elif kind == "wrong-type-system":
        op["target"] = None
    elif kind == "not-reducible":
        op["unit"] = r.choice(NOT_REDUCIBLE)
    elif kind == "readonly-inplace":
        op["form"] = "convert_to_base"
    elif kind == "getitem-missing-current":
        op["key"] = r.choice(EM_KEYS)
    elif kind == "getitem-unknown":
        op["key"] = r.choice(["nodim", "Energy", "length_"])
    return op


def gen_history(r, c10, tag, idx, tier, batch=None):
    # all histories of one batch (one process) are of one class, so that what a rejected operation of one class leaves behind in
    # the process is never met - and keyed - by a history of another class
    hist = {"tag": tag, "opclass": OPCLASSES[(idx if batch is None else batch) % len(OPCLASSES)]}
    nuser = 1 if (tier == "quick" or r.random() < 0.5) else 2
    hist["user"] = []
    for k in range(nuser):
        d = c10.gen_system(r, f"rj_{tag}_{k}", allow_offset=False)
        if k == 0 and idx % 3 == 0:       # a system without a current unit is always among them every third history
            d["base"]["current_mks"] = None; d["forms"]["current_mks"] = "none"
            d["over"] = [o for o in d["over"] if o[0] in c10.OVERRIDE_POOL]
        hist["user"].append(d)
    hist["code"] = _code_setup(r, tag, idx) if (idx % 2 == 0 or r.random() < 0.3) else None
    systems = _systems(hist)
    cur_of = dict(systems)
    refs = [s for s, _c in systems]
    # ---- the rejected operations
    ops = []
    nops = r.choice([3, 4]) if tier == "quick" else r.choice([3, 4, 5, 6])
    if hist["opclass"] == "ctor":
        kinds = ["fresh", "builtin", "existing-user"] + (["code"] if hist["code"] is not None else [])
        kinds += [r.choice(kinds) for _ in range(max(0, nops - len(kinds)))]
        r.shuffle(kinds)
        ops = [_ctor_op(r, c10, hist, nk, j) for j, nk in enumerate(kinds)]
    else:
        # targets: a built-in without current (cgs), one with, the user system(s), the code system
        tg = ["builtin:cgs", r.choice([s for s in refs if s.startswith("builtin:") and s != "builtin:cgs"])] + [s for s in refs if not s.startswith("builtin:")]
        tg += [r.choice(refs) for _ in range(max(0, nops - len(tg)))]
        r.shuffle(tg)
        for ref in tg:
            ops.append((_setitem_op if hist["opclass"] == "setitem" else _conv_op)(r, hist, ref, cur_of[ref]))
    hist["ops"] = ops
    targets = {op["target"] for op in ops if op.get("target")}
    # ---- what is converted before (memos that exist when the operation is rejected) and after
    atoms = c10.atom_list("quick")
    probes = {}
    for ref in refs:
        hot = ref in targets
        n = (5 if hot else 2) if tier == "quick" else (9 if hot else 3)
        us = r.sample(MECH, n)
        if hot:
            us += r.sample(EM, 1) + r.sample(atoms, 1 if tier == "quick" else 3) + [c10.gen_compound(r, 0.1)]
            for op in ops:      # the dimension a rejected override was aimed at
                if op["op"] == "setitem" and op["target"] == ref and op["kind"] == "unparsable-unit":
                    us.append(r.choice(DIM_PROBE[op["key"]]))
            for op in ops:      # the very unit / dimension a rejected conversion was asked for
                if op["op"] == "conv" and op["target"] == ref:
                    if "unit" in op and not op["kind"].startswith("getitem"):
                        us.append(op["unit"])
                    elif op["kind"] == "getitem-missing-current":
                        us.append({"charge_mks": "C", "magnetic_field_mks": "T", "current_mks": "A", "electric_potential_mks": "V", "resistance_mks": "ohm",
                                   "charge": "C", "magnetic_field": "T"}[op["key"]])
                        us.append(r.choice(NOT_REDUCIBLE))
        if ref == "code":
            us += r.sample(CODE_UNITS[:8], 3 if hot else 1)
        seen = []
        for u in us:
            if u not in seen:
                seen.append(u)
        probes[ref] = [(u, r.randrange(8), r.randrange(4)) for u in seen]        # (unit, handle draw, first-form draw)
    hist["probes"] = probes
    hist["warm"] = []
    if idx % 4 != 3:                      # one history in four meets the rejection with nothing memoised for the probes
        for ref in refs:
            for (u, _h, _f) in probes[ref]:
                if r.random() < 0.4:
                    hist["warm"].append((ref, u, r.choice(ROUTES)))
    ghosts = [op["name"] for op in ops if op["op"] == "ctor" and op["namekind"] == "fresh"]
    ghosts += [op["ghost"] for op in ops if op.get("ghost")]
    hist["ghosts"] = sorted(set(ghosts))
    hist["ghost_units"] = r.sample(MECH, 2)
    hist["default_of"] = r.sample(refs, 2) + sorted(targets)[:2]     # systems that are also reached as the default of a registry
    return hist
