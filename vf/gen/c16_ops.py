"""C16 workload catalogue: shapes, index expressions and a compact list of unit-returning operations.

Every op is (name, route, fn(env)) where env has
  x   primary unyt operand (any shape/kind)          y   same shape, commensurable other unit (x2: same unit)
  q   a quantity in x's unit family                   s   bare python float
  nd  bare ndarray of x's shape                       xd  dimensionless unyt operand of x's shape
  sh  x.shape    n  x.size    nd_  x.ndim             ua/uq  the classes, U  the Unit class, unyt the module
Ops that raise are recorded and not judged (the catalogue is deliberately applied to shapes it does not fit).
"""
import numpy as np

SHAPES_QUICK = [(), (1,), (3,), (1, 1), (2, 3), (0,), (0, 3), (2, 1, 3), (1, 1, 1)]
SHAPES_THOROUGH = SHAPES_QUICK + [(4,), (3, 1), (1, 3), (3, 0), (2, 2), (3, 3), (2, 3, 4), (1, 2, 1), (0, 0), (2, 0, 3), (1, 1, 3),
                                  (2,), (4, 1, 1), (0, 1), (1, 0)]


def shapes(tier):
    return SHAPES_QUICK if tier == "quick" else SHAPES_THOROUGH


def random_shape(r):
    nd = r.choice([0, 1, 1, 2, 2, 3, 3])
    return tuple(r.choice([0, 1, 1, 2, 3, 4]) for _ in range(nd))


def values(shape, dtype="f8", offset=1.0):
    """distinct, non-zero numbers; always a real ndarray (0-d included), never a NumPy scalar"""
    n = int(np.prod(shape)) if shape else 1
    base = np.arange(n, dtype="f8") * 1.5 + offset
    if np.dtype(dtype).kind == "c":
        flat = (base + 1j * (base + 0.25)).astype(dtype)
    elif np.dtype(dtype).kind in "iu":
        flat = (np.arange(n) * 2 + 1).astype(dtype)
    else:
        flat = base.astype(dtype)
    return flat.reshape(shape).copy()


def layouts(shape):
    """layout names applicable to a shape"""
    out = ["own", "slice"]
    if len(shape) >= 1:
        out += ["strided", "reversed"]
    if len(shape) >= 2:
        out += ["T", "F", "column"]
    return out


def ndarray_in_layout(shape, dtype, layout):
    """a NumPy array of the requested shape whose memory layout is `layout`; returns (array, owner)"""
    if layout == "own":
        a = values(shape, dtype)
        return a, a
    if layout == "slice":
        if len(shape) == 0:
            big = values((3,), dtype)
            return big[1:2].reshape(()), big      # a 0-d view into a larger buffer
        big = values((shape[0] + 2,) + tuple(shape[1:]), dtype)
        return big[1:-1], big
    if layout == "strided":
        big = values((shape[0] * 2,) + tuple(shape[1:]), dtype)
        return big[::2], big
    if layout == "reversed":
        big = values(shape, dtype)
        return big[::-1], big
    if layout == "T":
        big = values(tuple(shape[::-1]), dtype)
        return big.T, big
    if layout == "F":
        big = np.asfortranarray(values(shape, dtype))
        return big, big
    if layout == "column":
        big = values(tuple(shape[:-1]) + (shape[-1] + 2,), dtype)
        return big[..., 1:-1], big
    raise ValueError(layout)


# ------------------------------------------------------------------------------------------------ index expressions
def indices_for(shape):
    n = len(shape)
    out = [(), Ellipsis, None, (None, Ellipsis), (Ellipsis, None), (Ellipsis, None, None), slice(None), True, False, np.True_,
           np.array(True), np.array(False), (Ellipsis, Ellipsis)]
    if n == 0:
        return out + [0, [0], (0,), [], np.array([], dtype=int)]
    d0 = shape[0]
    z = (0,) * n
    m1 = (-1,) * n
    out += [0, -1, max(d0 - 1, 0), np.int64(0), np.array(0), d0, z, m1, tuple(np.int64(0) for _ in range(n))]
    out += [(0, Ellipsis), (Ellipsis, 0), z + (Ellipsis,), (Ellipsis,) + z, m1 + (Ellipsis,), (0, None), (None, 0), z + (None,),
            (None,) + z, (None, Ellipsis, 0), (Ellipsis, 0, None)]
    out += [slice(1, None), slice(None, None, 2), slice(None, None, -1), slice(0, 0), slice(0, 1), slice(-1, None), (slice(None),) * n,
            (Ellipsis, slice(None, None, -1)), (slice(None), None), (None, slice(None)), (slice(0, 1),) * n, slice(5, 9)]
    full = np.zeros(shape, dtype=bool)
    if full.size:
        full.reshape(-1)[::2] = True
    out += [full, np.zeros(shape, dtype=bool), np.ones(shape, dtype=bool), np.ones(d0, dtype=bool), np.zeros(d0, dtype=bool),
            [True] * d0 if d0 else np.zeros(0, dtype=bool), (Ellipsis, np.ones(shape[-1], dtype=bool))]
    out += [[0], [0, 0], np.array([0, -1]), [], np.array([], dtype=int), tuple(np.array([0]) for _ in range(n)),
            np.array([[0, 0], [0, 0]]), (Ellipsis, [0]), ([0], Ellipsis), np.array([0], dtype="u1"), ([0], None)]
    if n >= 2:
        out += [z[:-1], (0,) * (n - 1) + (Ellipsis,), (0, Ellipsis, 0), (slice(None), 0), (0, slice(None)), (Ellipsis, 0, slice(None)),
                ([0], slice(None)), (slice(None), [0]), (0, [0]), ([0], 0), (slice(None), np.ones(shape[1], dtype=bool)),
                (np.array([0]), np.array([0])), (0, None, slice(None)), (slice(None, None, 2), slice(None, None, -1))]
    if n >= 3:
        out += [(0, 0), (0, slice(None), 0), (Ellipsis, 0, 0), (0, Ellipsis, slice(None)), ([0], slice(None), [0]), (0, [0], slice(None)),
                (slice(None), 0, None)]
    return out


def random_index(r, shape):
    n = len(shape)
    k = r.randint(0, n + 1)
    parts = []
    used = 0
    ell = False
    for _ in range(k):
        c = r.choice(["int", "int", "slice", "slice", "none", "ell", "list", "mask", "npint"])
        ax = used if used < n else None
        dim = shape[ax] if ax is not None else 1
        if c == "none":
            parts.append(None)
        elif c == "ell":
            if not ell:
                parts.append(Ellipsis)
                ell = True
                used = n      # what follows indexes from the end; keep it simple: only newaxis/ints at -1 after an ellipsis
        elif ax is None:
            parts.append(None)
        elif c == "int":
            parts.append(r.randint(-dim, dim - 1) if dim else 0)
            used += 1
        elif c == "npint":
            parts.append(np.int64(r.randint(0, dim - 1) if dim else 0))
            used += 1
        elif c == "slice":
            parts.append(slice(r.choice([None, 0, 1, -1]), r.choice([None, 1, 2, -1]), r.choice([None, 1, 2, -1])))
            used += 1
        elif c == "list":
            parts.append([r.randint(0, dim - 1) for _ in range(r.randint(1, 3))] if dim else [])
            used += 1
        elif c == "mask":
            parts.append(np.array([r.random() < 0.5 for _ in range(dim)], dtype=bool))
            used += 1
    if len(parts) == 1 and r.random() < 0.5:
        return parts[0]
    return tuple(parts)


# ------------------------------------------------------------------------------------------------ operations
def _ufuncs():
    seen = {}
    for n in dir(np):
        f = getattr(np, n)
        if isinstance(f, np.ufunc) and f.__name__ not in seen:
            seen[f.__name__] = f
    return [seen[k] for k in sorted(seen)]


def ufunc_ops():
    ops = []
    for f in _ufuncs():
        nm = f.__name__
        if f.nin == 1:
            ops.append((f"ufunc/{nm}(x)", "ufunc", lambda e, f=f: f(e["x"])))
            ops.append((f"ufunc/{nm}(xd)", "ufunc", lambda e, f=f: f(e["xd"])))
            if f.nout == 1:
                ops.append((f"ufunc/{nm}(x,out=)", "ufunc", lambda e, f=f: f(e["x"], out=e["x"].copy())))
        elif f.nin == 2:
            for tag, a, b in (("x,y", "x", "y"), ("x,x", "x", "x"), ("x,q", "x", "q"), ("q,x", "q", "x"), ("x,s", "x", "s"), ("s,x", "s", "x"),
                              ("x,nd", "x", "nd"), ("nd,x", "nd", "x"), ("xd,xd", "xd", "xd"), ("x,xd", "x", "xd"), ("x,two", "x", "two")):
                ops.append((f"ufunc/{nm}({tag})", "ufunc", lambda e, f=f, a=a, b=b: f(e[a], e[b])))
            if f.nout == 1:
                ops.append((f"ufunc/{nm}(x,y,out=)", "ufunc", lambda e, f=f: f(e["x"], e["y"], out=e["x"].copy())))
                ops.append((f"ufunc/{nm}.reduce(x)", "ufunc", lambda e, f=f: f.reduce(e["x"])))
                ops.append((f"ufunc/{nm}.reduce(x,axis=None)", "ufunc", lambda e, f=f: f.reduce(e["x"], axis=None)))
                ops.append((f"ufunc/{nm}.reduce(x,axis=-1,keepdims)", "ufunc", lambda e, f=f: f.reduce(e["x"], axis=-1, keepdims=True)))
                ops.append((f"ufunc/{nm}.accumulate(x)", "ufunc", lambda e, f=f: f.accumulate(e["x"])))
                ops.append((f"ufunc/{nm}.outer(x,y)", "ufunc", lambda e, f=f: f.outer(e["x"], e["y"])))
                ops.append((f"ufunc/{nm}.outer(q,q)", "ufunc", lambda e, f=f: f.outer(e["q"], e["q"])))
                ops.append((f"ufunc/{nm}.reduceat(x)", "ufunc", lambda e, f=f: f.reduceat(e["x"], [0])))
        elif f.nin == 3:
            ops.append((f"ufunc/{nm}(x,q,q)", "ufunc", lambda e, f=f: f(e["x"], e["q"] * 0, e["q"] * 9)))
    return ops


def L(name, route, fn):
    return (name, route, fn)


def function_ops():
    F = "npfunc"
    o = []
    red = ["sum", "mean", "median", "std", "var", "min", "max", "amin", "amax", "ptp", "nansum", "nanmean", "nanmedian", "nanstd", "nanvar",
           "nanmin", "nanmax", "average", "cumsum", "nancumsum", "sort", "unique", "ravel", "squeeze", "transpose", "copy_subok", "flip",
           "atleast_1d", "atleast_2d", "atleast_3d", "around", "round", "fix", "real", "imag", "nan_to_num", "diff", "ediff1d", "gradient",
           "trace", "diagonal", "diag", "tril", "triu", "asanyarray", "ascontiguousarray_like", "ones_like", "zeros_like", "empty_like",
           "trim_zeros", "fliplr", "flipud", "rot90", "cumulative_sum", "trapezoid", "linalg.norm", "linalg.det", "linalg.inv", "linalg.pinv",
           "linalg.svd", "linalg.eigvals", "fft.fft", "fft.ifft", "msort_like", "array_subok", "positive_like"]
    simple = {"copy_subok": lambda x: np.copy(x, subok=True), "ascontiguousarray_like": lambda x: np.require(x, requirements="C"),
              "msort_like": lambda x: np.sort(x, axis=0), "array_subok": lambda x: np.array(x, subok=True),
              "positive_like": lambda x: np.abs(x)}
    for nm in red:
        if nm in simple:
            fn = simple[nm]
        else:
            obj = np
            for part in nm.split("."):
                obj = getattr(obj, part, None)
                if obj is None:
                    break
            if obj is None:
                continue
            fn = obj
        o.append(L(f"np.{nm}(x)", F, lambda e, fn=fn: fn(e["x"])))
    ax = [
        ("np.sum(x,axis=0)", lambda e: np.sum(e["x"], axis=0)), ("np.sum(x,axis=-1,keepdims)", lambda e: np.sum(e["x"], axis=-1, keepdims=True)),
        ("np.sum(x,axis=None,keepdims)", lambda e: np.sum(e["x"], keepdims=True)),
        ("np.mean(x,axis=0)", lambda e: np.mean(e["x"], axis=0)), ("np.std(x,axis=0)", lambda e: np.std(e["x"], axis=0)),
        ("np.max(x,axis=0)", lambda e: np.max(e["x"], axis=0)), ("np.min(x,axis=-1,keepdims)", lambda e: np.min(e["x"], axis=-1, keepdims=True)),
        ("np.median(x,axis=0)", lambda e: np.median(e["x"], axis=0)), ("np.ptp(x,axis=0)", lambda e: np.ptp(e["x"], axis=0)),
        ("np.median(x,keepdims)", lambda e: np.median(e["x"], keepdims=True)), ("np.median(x,axis=0,keepdims)", lambda e: np.median(e["x"], axis=0, keepdims=True)),
        ("np.nanmedian(x,keepdims)", lambda e: np.nanmedian(e["x"], keepdims=True)), ("np.percentile(x,50,keepdims)", lambda e: np.percentile(e["x"], 50, keepdims=True)),
        ("np.quantile(x,0.5,keepdims)", lambda e: np.quantile(e["x"], 0.5, keepdims=True)), ("np.nanpercentile(x,50,keepdims)", lambda e: np.nanpercentile(e["x"], 50, keepdims=True)),
        ("np.mean(x,keepdims)", lambda e: np.mean(e["x"], keepdims=True)), ("np.std(x,keepdims)", lambda e: np.std(e["x"], keepdims=True)), ("np.var(x,keepdims)", lambda e: np.var(e["x"], keepdims=True)),
        ("np.max(x,keepdims)", lambda e: np.max(e["x"], keepdims=True)), ("np.ptp(x,keepdims)", lambda e: np.ptp(e["x"], keepdims=True)), ("np.average(x,keepdims)", lambda e: np.average(e["x"], keepdims=True)),
        ("np.nansum(x,keepdims)", lambda e: np.nansum(e["x"], keepdims=True)), ("np.nanmax(x,keepdims)", lambda e: np.nanmax(e["x"], keepdims=True)), ("np.prod(xd,keepdims)", lambda e: np.prod(e["xd"], keepdims=True)),
        ("np.linalg.norm(x,keepdims)", lambda e: np.linalg.norm(e["x"].ravel(), keepdims=True)), ("np.trapezoid(x,axis=0)", lambda e: np.trapezoid(e["x"], axis=0)),
        ("np.prod(xd)", lambda e: np.prod(e["xd"])), ("np.prod(x)", lambda e: np.prod(e["x"])), ("np.prod(x,axis=0)", lambda e: np.prod(e["x"], axis=0)),
        ("np.cumprod(xd)", lambda e: np.cumprod(e["xd"])), ("np.cumsum(x,axis=0)", lambda e: np.cumsum(e["x"], axis=0)),
        ("np.percentile(x,50)", lambda e: np.percentile(e["x"], 50)), ("np.percentile(x,[25,75])", lambda e: np.percentile(e["x"], [25, 75])),
        ("np.quantile(x,0.5)", lambda e: np.quantile(e["x"], 0.5)), ("np.quantile(x,0.5,axis=0)", lambda e: np.quantile(e["x"], 0.5, axis=0)),
        ("np.nanpercentile(x,50)", lambda e: np.nanpercentile(e["x"], 50)), ("np.nanquantile(x,0.5)", lambda e: np.nanquantile(e["x"], 0.5)),
        ("np.linalg.norm(x,axis=0)", lambda e: np.linalg.norm(e["x"], axis=0)),
        ("np.squeeze(x,axis=0)", lambda e: np.squeeze(e["x"], axis=0)), ("np.expand_dims(x,0)", lambda e: np.expand_dims(e["x"], 0)),
        ("np.expand_dims(x,-1)", lambda e: np.expand_dims(e["x"], -1)),
        ("np.reshape(x,-1)", lambda e: np.reshape(e["x"], -1)), ("np.reshape(x,())", lambda e: np.reshape(e["x"], ())),
        ("np.reshape(x,(1,-1))", lambda e: np.reshape(e["x"], (1, -1))), ("np.reshape(x,rev)", lambda e: np.reshape(e["x"], e["sh"][::-1])),
        ("np.reshape(x,sh+(1,))", lambda e: np.reshape(e["x"], e["sh"] + (1,))),
        ("np.swapaxes(x,0,-1)", lambda e: np.swapaxes(e["x"], 0, -1)), ("np.moveaxis(x,0,-1)", lambda e: np.moveaxis(e["x"], 0, -1)),
        ("np.rollaxis(x,-1)", lambda e: np.rollaxis(e["x"], -1)), ("np.roll(x,1)", lambda e: np.roll(e["x"], 1)),
        ("np.broadcast_to(x,(2,)+sh,subok)", lambda e: np.broadcast_to(e["x"], (2,) + e["sh"], subok=True)),
        ("np.broadcast_to(x,sh,subok)", lambda e: np.broadcast_to(e["x"], e["sh"], subok=True)),
        ("np.broadcast_arrays(x,y,subok)", lambda e: np.broadcast_arrays(e["x"], e["y"], subok=True)),
        ("np.broadcast_arrays(x,q,subok)", lambda e: np.broadcast_arrays(e["x"], e["q"], subok=True)),
        ("np.broadcast_arrays(q,nd3,subok)", lambda e: np.broadcast_arrays(e["q"], np.ones(3), subok=True)),
        ("np.tile(x,2)", lambda e: np.tile(e["x"], 2)), ("np.tile(x,1)", lambda e: np.tile(e["x"], 1)), ("np.tile(x,(2,1))", lambda e: np.tile(e["x"], (2, 1))),
        ("np.repeat(x,2)", lambda e: np.repeat(e["x"], 2)), ("np.repeat(x,1)", lambda e: np.repeat(e["x"], 1)), ("np.repeat(x,2,axis=0)", lambda e: np.repeat(e["x"], 2, axis=0)),
        ("np.resize(x,(3,))", lambda e: np.resize(e["x"], (3,))), ("np.resize(x,(1,))", lambda e: np.resize(e["x"], (1,))), ("np.resize(x,())", lambda e: np.resize(e["x"], ())),
        ("np.concatenate([x,y])", lambda e: np.concatenate([e["x"], e["y"]])), ("np.concatenate([x,x],axis=-1)", lambda e: np.concatenate([e["x"], e["x"]], axis=-1)),
        ("np.concatenate([x,x],axis=None)", lambda e: np.concatenate([e["x"], e["x"]], axis=None)),
        ("np.stack([x,x])", lambda e: np.stack([e["x"], e["x"]])), ("np.stack([x])", lambda e: np.stack([e["x"]])), ("np.stack([x,x],axis=-1)", lambda e: np.stack([e["x"], e["x"]], axis=-1)),
        ("np.vstack([x,x])", lambda e: np.vstack([e["x"], e["x"]])), ("np.hstack([x,x])", lambda e: np.hstack([e["x"], e["x"]])), ("np.dstack([x,x])", lambda e: np.dstack([e["x"], e["x"]])),
        ("np.column_stack([x,x])", lambda e: np.column_stack([e["x"], e["x"]])), ("np.block([x,x])", lambda e: np.block([e["x"], e["x"]])),
        ("np.append(x,y)", lambda e: np.append(e["x"], e["y"])), ("np.append(x,q)", lambda e: np.append(e["x"], e["q"])),
        ("np.insert(x,0,q)", lambda e: np.insert(e["x"], 0, e["q"])), ("np.delete(x,0)", lambda e: np.delete(e["x"], 0)), ("np.delete(x,[])", lambda e: np.delete(e["x"], [])),
        ("np.pad(x,1)", lambda e: np.pad(e["x"], 1)), ("np.split(x,1)", lambda e: np.split(e["x"], 1)), ("np.array_split(x,2)", lambda e: np.array_split(e["x"], 2)),
        ("np.where(c,x,y)", lambda e: np.where(e["nd"] > 0, e["x"], e["y"])), ("np.where(True,x,q)", lambda e: np.where(True, e["x"], e["q"])),
        ("np.where(c,q,q)", lambda e: np.where(e["nd"] > 0, e["q"], e["q"])),
        ("np.clip(x,q0,q9)", lambda e: np.clip(e["x"], e["q"] * 0, e["q"] * 9)), ("np.clip(x,y,y)", lambda e: np.clip(e["x"], e["y"], e["y"])),
        ("np.take(x,0)", lambda e: np.take(e["x"], 0)), ("np.take(x,[0])", lambda e: np.take(e["x"], [0])), ("np.take(x,[0,0],axis=0)", lambda e: np.take(e["x"], [0, 0], axis=0)),
        ("np.take(x,[[0]])", lambda e: np.take(e["x"], [[0]])), ("np.take(x,[])", lambda e: np.take(e["x"], np.array([], dtype=int))),
        ("np.take_along_axis(x,idx,0)", lambda e: np.take_along_axis(e["x"], np.zeros(e["sh"], dtype=int), 0)),
        ("np.choose(0,[x,y])", lambda e: np.choose(0, [e["x"], e["y"]])), ("np.choose(idx,[x,x])", lambda e: np.choose(np.zeros(e["sh"], dtype=int), [e["x"], e["x"]])),
        ("np.select([c],[x],q)", lambda e: np.select([e["nd"] > 0], [e["x"]], e["q"])), ("np.select([c],[x])", lambda e: np.select([e["nd"] > 0], [e["x"]])),
        ("np.compress(c,x)", lambda e: np.compress(np.ones(e["n"], dtype=bool), e["x"])), ("np.compress([True],x)", lambda e: np.compress([True], e["x"])),
        ("np.extract(c,x)", lambda e: np.extract(e["nd"] > 0, e["x"])), ("np.extract(none,x)", lambda e: np.extract(e["nd"] < 0, e["x"])),
        ("np.dot(x,y)", lambda e: np.dot(e["x"], e["y"])), ("np.dot(x,q)", lambda e: np.dot(e["x"], e["q"])), ("np.dot(x,x.T)", lambda e: np.dot(e["x"], e["x"].T)),
        ("np.dot(x,nd.T)", lambda e: np.dot(e["x"], e["nd"].T)), ("np.vdot(x,y)", lambda e: np.vdot(e["x"], e["y"])), ("np.inner(x,y)", lambda e: np.inner(e["x"], e["y"])),
        ("np.outer(x,y)", lambda e: np.outer(e["x"], e["y"])), ("np.kron(x,y)", lambda e: np.kron(e["x"], e["y"])), ("np.cross(x3,x3)", lambda e: np.cross(e["x3"], e["x3"])),
        ("np.tensordot(x,y,0)", lambda e: np.tensordot(e["x"], e["y"], 0)), ("np.tensordot(x,x,nd)", lambda e: np.tensordot(e["x"], e["x"], e["nd_"])),
        ("np.einsum(...,x)", lambda e: np.einsum("...->...", e["x"])), ("np.einsum(...->,x)", lambda e: np.einsum("...->", e["x"])),
        ("np.einsum(i,i->,x,y)", lambda e: np.einsum("i,i->", e["x"], e["y"])), ("np.matmul(x,x.T)", lambda e: np.matmul(e["x"], np.swapaxes(e["x"], -1, -2))),
        ("np.matmul(x1,x1)", lambda e: np.matmul(e["x"].ravel(), e["x"].ravel())), ("np.linalg.solve(sq,x)", lambda e: np.linalg.solve(e["sq"], e["sq"][:, 0])),
        ("np.linalg.lstsq", lambda e: np.linalg.lstsq(e["sq"], e["sq"][:, 0], rcond=None)), ("np.linalg.det(sq)", lambda e: np.linalg.det(e["sq"])),
        ("np.linalg.det(sq1)", lambda e: np.linalg.det(e["x"].reshape(1, 1))), ("np.linalg.inv(sq)", lambda e: np.linalg.inv(e["sq"])), ("np.trace(sq)", lambda e: np.trace(e["sq"])),
        ("np.linalg.norm(sq,axis)", lambda e: np.linalg.norm(e["sq"], axis=1, keepdims=True)), ("np.linalg.matrix_power(sq,2)", lambda e: np.linalg.matrix_power(e["sq"], 2)),
        ("np.linalg.multi_dot", lambda e: np.linalg.multi_dot([e["sq"], e["sq"], e["sq"]])), ("np.linalg.eig(sq)", lambda e: np.linalg.eig(e["sq"])),
        ("np.linalg.eigvalsh(sq)", lambda e: np.linalg.eigvalsh(e["sq"])), ("np.linalg.outer", lambda e: np.linalg.outer(e["x"], e["y"])),
        ("np.interp(q,x1,y1)", lambda e: np.interp(e["q"], np.sort(e["x"].ravel()), e["y"].ravel())), ("np.interp(x,x1,y1)", lambda e: np.interp(e["x"], np.sort(e["x"].ravel()), e["y"].ravel())),
        ("np.convolve(x1,y1)", lambda e: np.convolve(e["x"].ravel(), e["y"].ravel())), ("np.correlate(x1,y1)", lambda e: np.correlate(e["x"].ravel(), e["y"].ravel())),
        ("np.histogram(x)", lambda e: np.histogram(e["x"], bins=3)), ("np.histogram_bin_edges(x)", lambda e: np.histogram_bin_edges(e["x"], bins=3)),
        ("np.histogram2d", lambda e: np.histogram2d(e["x"].ravel(), e["y"].ravel(), bins=2)), ("np.meshgrid(x1,y1)", lambda e: np.meshgrid(e["x"].ravel(), e["y"].ravel())),
        ("np.meshgrid(q,q)", lambda e: np.meshgrid(e["q"], e["q"])), ("np.meshgrid(x)", lambda e: np.meshgrid(e["x"])),
        ("np.linspace(q,q9,3)", lambda e: np.linspace(e["q"], e["q"] * 9, 3)), ("np.linspace(q,q9,1)", lambda e: np.linspace(e["q"], e["q"] * 9, 1)),
        ("np.linspace(x,y,2)", lambda e: np.linspace(e["x"], e["y"], 2)), ("np.linspace(q,q9,0)", lambda e: np.linspace(e["q"], e["q"] * 9, 0)),
        ("np.logspace(xd)", lambda e: np.logspace(e["xd"], e["xd"], 2)), ("np.geomspace(q,q9,3)", lambda e: np.geomspace(e["q"], e["q"] * 9, 3)),
        ("np.arange(q)", lambda e: np.arange(e["q"])), ("np.full(sh,q)", lambda e: np.full(e["sh"], e["q"])), ("np.full((2,),q)", lambda e: np.full((2,), e["q"])),
        ("np.full_like(x,q)", lambda e: np.full_like(e["x"], e["q"])), ("np.full_like(x,1,shape=(3,))", lambda e: np.full_like(e["x"], 1, shape=(3,))),
        ("np.ones_like(x,shape=(2,))", lambda e: np.ones_like(e["x"], shape=(2,))), ("np.zeros_like(x,shape=())", lambda e: np.zeros_like(e["x"], shape=())),
        ("np.empty_like(x,shape=(1,))", lambda e: np.empty_like(e["x"], shape=(1,))), ("np.ones_like(x,shape=(0,))", lambda e: np.ones_like(e["x"], shape=(0,))),
        ("np.array(x,subok,ndmin=1)", lambda e: np.array(e["x"], subok=True, ndmin=1)), ("np.array(x,subok,ndmin=2)", lambda e: np.array(e["x"], subok=True, ndmin=2)),
        ("np.array(x,subok,copy)", lambda e: np.array(e["x"], subok=True, copy=True)), ("np.asanyarray(x,dtype=f4)", lambda e: np.asanyarray(e["x"], dtype="f4")),
        ("np.require(x,F)", lambda e: np.require(e["x"], requirements="F")),
        ("np.around(x,1)", lambda e: np.around(e["x"], 1)), ("np.unique(x,return_counts)", lambda e: np.unique(e["x"], return_counts=True)),
        ("np.unique_values(x)", lambda e: np.unique_values(e["x"])), ("np.intersect1d(x,y)", lambda e: np.intersect1d(e["x"], e["y"])),
        ("np.union1d(x,y)", lambda e: np.union1d(e["x"], e["y"])), ("np.setdiff1d(x,y)", lambda e: np.setdiff1d(e["x"], e["y"])), ("np.setxor1d(x,y)", lambda e: np.setxor1d(e["x"], e["y"])),
        ("np.partition(x,0)", lambda e: np.partition(e["x"], 0)), ("np.sort_complex(x)", lambda e: np.sort_complex(e["x"])),
        ("np.apply_along_axis(sum,0,x)", lambda e: np.apply_along_axis(np.sum, 0, e["x"])), ("np.apply_over_axes(sum,x,0)", lambda e: np.apply_over_axes(np.sum, e["x"], 0)),
        ("np.vectorize(id)(x)", lambda e: np.vectorize(lambda t: t)(e["x"])), ("np.piecewise", lambda e: np.piecewise(e["x"], [e["nd"] > 0], [lambda t: t])),
        ("np.diag(x1)", lambda e: np.diag(e["x"].ravel())), ("np.diagflat(x)", lambda e: np.diagflat(e["x"])), ("np.diagonal(sq)", lambda e: np.diagonal(e["sq"])),
        ("np.vander_like", lambda e: np.atleast_1d(e["x"])[..., None]),         ("np.fft.fft(x1)", lambda e: np.fft.fft(e["x"].ravel())), ("np.fft.rfft(x1)", lambda e: np.fft.rfft(e["x"].ravel())), ("np.fft.fftshift(x)", lambda e: np.fft.fftshift(e["x"])),
        ("np.fft.fft2(sq)", lambda e: np.fft.fft2(e["sq"])), ("np.fft.fftn(x)", lambda e: np.fft.fftn(e["x"])),
        ("np.sum(x,where)", lambda e: np.sum(e["x"], where=e["nd"] > 0)),
        ("np.max(x,initial)", lambda e: np.max(e["x"], initial=e["q"])),         ("np.matrix_transpose(x)", lambda e: np.matrix_transpose(e["x"])), ("np.permute_dims(x)", lambda e: np.permute_dims(e["x"])),
        ("np.unstack(x)", lambda e: np.unstack(e["x"])), ("np.cumulative_sum(x,axis=0)", lambda e: np.cumulative_sum(e["x"], axis=0)),
        ("np.cumulative_prod(xd,axis=0)", lambda e: np.cumulative_prod(e["xd"], axis=0)), ("np.vecdot(x,y)", lambda e: np.vecdot(e["x"], e["y"])),
        ("np.linalg.vector_norm(x)", lambda e: np.linalg.vector_norm(e["x"])), ("np.linalg.matrix_norm(sq)", lambda e: np.linalg.matrix_norm(e["sq"])),
        ("np.linalg.cross(x3,x3)", lambda e: np.linalg.cross(e["x3"], e["x3"])), ("np.linalg.diagonal(sq)", lambda e: np.linalg.diagonal(e["sq"])),
        ("np.linalg.trace(sq)", lambda e: np.linalg.trace(e["sq"])), ("np.linalg.tensordot(x,y,0)", lambda e: np.linalg.tensordot(e["x"], e["y"], axes=0)),
    ]
    o += [L(n, F, f) for n, f in ax]
    return o


def method_ops():
    M = "method"
    m = [
        ("x.sum()", lambda e: e["x"].sum()), ("x.sum(0)", lambda e: e["x"].sum(0)), ("x.sum(-1,keepdims)", lambda e: e["x"].sum(-1, keepdims=True)),
        ("x.sum(keepdims)", lambda e: e["x"].sum(keepdims=True)), ("x.mean()", lambda e: e["x"].mean()), ("x.mean(0)", lambda e: e["x"].mean(0)),
        ("x.std()", lambda e: e["x"].std()), ("x.var()", lambda e: e["x"].var()), ("x.min()", lambda e: e["x"].min()), ("x.max()", lambda e: e["x"].max()),
        ("x.max(0)", lambda e: e["x"].max(0)), ("x.prod()", lambda e: e["x"].prod()), ("xd.prod()", lambda e: e["xd"].prod()), ("x.cumsum()", lambda e: e["x"].cumsum()),
        ("x.cumsum(0)", lambda e: e["x"].cumsum(0)), ("xd.cumprod()", lambda e: e["xd"].cumprod()), ("x.round()", lambda e: e["x"].round()), ("x.round(1)", lambda e: e["x"].round(1)),
        ("x.clip(q0,q9)", lambda e: e["x"].clip(e["q"] * 0, e["q"] * 9)), ("x.conj()", lambda e: e["x"].conj()), ("x.conjugate()", lambda e: e["x"].conjugate()),
        ("x.real", lambda e: e["x"].real), ("x.imag", lambda e: e["x"].imag), ("x.copy()", lambda e: e["x"].copy()), ("x.copy(order=F)", lambda e: e["x"].copy(order="F")),
        ("x.astype(f4)", lambda e: e["x"].astype("f4")), ("x.astype(f8,copy=False)", lambda e: e["x"].astype("f8", copy=False)), ("x.view()", lambda e: e["x"].view()),
        
        ("x.T", lambda e: e["x"].T), ("x.mT", lambda e: e["x"].mT), ("x.transpose()", lambda e: e["x"].transpose()), ("x.swapaxes(0,-1)", lambda e: e["x"].swapaxes(0, -1)),
        ("x.reshape(-1)", lambda e: e["x"].reshape(-1)), ("x.reshape(())", lambda e: e["x"].reshape(())), ("x.reshape(1)", lambda e: e["x"].reshape(1)),
        ("x.reshape(1,-1)", lambda e: e["x"].reshape(1, -1)), ("x.reshape((1,1))", lambda e: e["x"].reshape((1, 1))), ("x.reshape(rev)", lambda e: e["x"].reshape(e["sh"][::-1])),
        ("x.reshape(sh)", lambda e: e["x"].reshape(e["sh"])), ("x.reshape(sh+(1,))", lambda e: e["x"].reshape(e["sh"] + (1,))), ("x.reshape(-1,order=F)", lambda e: e["x"].reshape(-1, order="F")),
        ("x.ravel()", lambda e: e["x"].ravel()), ("x.flatten()", lambda e: e["x"].flatten()), ("x.squeeze()", lambda e: e["x"].squeeze()), ("x.squeeze(0)", lambda e: e["x"].squeeze(0)),
        ("x.repeat(2)", lambda e: e["x"].repeat(2)), ("x.repeat(1)", lambda e: e["x"].repeat(1)), ("x.repeat(0)", lambda e: e["x"].repeat(0)), ("x.take(0)", lambda e: e["x"].take(0)), ("x.take([0])", lambda e: e["x"].take([0])),
        ("x.take([0,0],axis=0)", lambda e: e["x"].take([0, 0], axis=0)), ("x.compress([True])", lambda e: e["x"].compress([True])), ("x.diagonal()", lambda e: e["x"].diagonal()),
        ("x.trace()", lambda e: e["x"].trace()), ("x.dot(y)", lambda e: e["x"].dot(e["y"])), ("x.dot(x.T)", lambda e: e["x"].dot(e["x"].T)), ("x.dot(q)", lambda e: e["x"].dot(e["q"])),
        ("x.dot(nd.T)", lambda e: e["x"].dot(e["nd"].T)), ("x.choose", lambda e: np.zeros(e["sh"], dtype=int).choose([e["x"], e["x"]])), ("x.byteswap()", lambda e: e["x"].byteswap()),
        ("x.flat[0:1]", lambda e: e["x"].flat[0:1]),
        ("x.__copy__()", lambda e: e["x"].__copy__()), ("x.__array_wrap__(nd)", lambda e: e["x"].__array_wrap__(e["nd"])),
        ("x.uq", lambda e: e["x"].uq), ("x.unit_quantity", lambda e: e["x"].unit_quantity), ("x.ua", lambda e: e["x"].ua), ("x.unit_array", lambda e: e["x"].unit_array),
    ]
    return [L(n, M, f) for n, f in m]


def operator_ops():
    O = "operator"
    import operator as op_
    import copy, pickle
    m = [
        ("+x", lambda e: +e["x"]), ("-x", lambda e: -e["x"]), ("abs(x)", lambda e: abs(e["x"])), ("x+y", lambda e: e["x"] + e["y"]), ("x-y", lambda e: e["x"] - e["y"]),
        ("x+q", lambda e: e["x"] + e["q"]), ("q+x", lambda e: e["q"] + e["x"]), ("x*y", lambda e: e["x"] * e["y"]), ("x*q", lambda e: e["x"] * e["q"]), ("q*x", lambda e: e["q"] * e["x"]),
        ("x*s", lambda e: e["x"] * e["s"]), ("s*x", lambda e: e["s"] * e["x"]), ("x*nd", lambda e: e["x"] * e["nd"]), ("nd*x", lambda e: e["nd"] * e["x"]),
        ("q*nd", lambda e: e["q"] * e["nd"]), ("nd*q", lambda e: e["nd"] * e["q"]), ("q*nd1", lambda e: e["q"] * np.ones(1)), ("nd1*q", lambda e: np.ones(1) * e["q"]),
        ("q*nd11", lambda e: e["q"] * np.ones((1, 1))), ("q*nd0", lambda e: e["q"] * np.ones(())), ("nd0*q", lambda e: np.ones(()) * e["q"]), ("q*ndempty", lambda e: e["q"] * np.ones((0,))),
        ("q*list", lambda e: e["q"] * [1.0, 2.0]), ("list*q", lambda e: [1.0, 2.0] * e["q"]), ("q*[1]", lambda e: e["q"] * [1.0]), ("q*npfloat", lambda e: e["q"] * np.float64(2)), ("npfloat*q", lambda e: np.float64(2) * e["q"]),
        ("q/nd", lambda e: e["q"] / e["nd"]), ("nd/q", lambda e: e["nd"] / e["q"]), ("q+nd0s", lambda e: e["q"] + np.zeros(e["sh"])), ("nd0s+q", lambda e: np.zeros(e["sh"]) + e["q"]),
        ("x/y", lambda e: e["x"] / e["y"]), ("x/q", lambda e: e["x"] / e["q"]), ("q/x", lambda e: e["q"] / e["x"]), ("x/s", lambda e: e["x"] / e["s"]), ("s/x", lambda e: e["s"] / e["x"]),
        ("x//y", lambda e: e["x"] // e["y"]), ("x%y", lambda e: e["x"] % e["y"]), ("divmod(x,y)", lambda e: divmod(e["x"], e["y"])), ("divmod(x,q)", lambda e: divmod(e["x"], e["q"])),
        ("x**2", lambda e: e["x"] ** 2), ("x**0", lambda e: e["x"] ** 0), ("x**0.5", lambda e: e["x"] ** 0.5), ("x**-1", lambda e: e["x"] ** -1), ("x**two", lambda e: e["x"] ** e["two"]),
        ("xd**xd", lambda e: e["xd"] ** e["xd"]), ("s**xd", lambda e: e["s"] ** e["xd"]), ("x@x.T", lambda e: e["x"] @ e["x"].T), ("x1@y1", lambda e: e["x"].ravel() @ e["y"].ravel()),
        ("sq@sq", lambda e: e["sq"] @ e["sq"]), ("x*U", lambda e: e["x"] * e["U"]("s")), ("U*x", lambda e: e["U"]("s") * e["x"]), ("x/U", lambda e: e["x"] / e["U"]("s")), ("U/x", lambda e: e["U"]("s") / e["x"]),
        ("nd*U", lambda e: e["nd"] * e["U"]("s")), ("U*nd", lambda e: e["U"]("s") * e["nd"]), ("nd/U", lambda e: e["nd"] / e["U"]("s")), ("U/nd", lambda e: e["U"]("s") / e["nd"]),
        ("s*U", lambda e: e["s"] * e["U"]("s")), ("U*s", lambda e: e["U"]("s") * e["s"]), ("npfloat*U", lambda e: np.float64(3) * e["U"]("s")), ("list*U", lambda e: [1.0, 2.0] * e["U"]("s")),
        ("[1]*U", lambda e: [1.0] * e["U"]("s")), ("[]*U", lambda e: np.array([]) * e["U"]("s")), ("tuple*U", lambda e: (1.0, 2.0) * e["U"]("s")), ("int*U", lambda e: 3 * e["U"]("s")),
        ("x+=y", lambda e: op_.iadd(e["x"].copy(), e["y"])), ("x*=s", lambda e: op_.imul(e["x"].copy(), e["s"])), ("x*=q", lambda e: op_.imul(e["x"].copy(), e["q"])),
        ("x/=q", lambda e: op_.itruediv(e["x"].copy(), e["q"])), ("x**=2", lambda e: op_.ipow(e["x"].copy(), 2)),
        ("round(x)", lambda e: round(e["x"])), ("copy.copy(x)", lambda e: copy.copy(e["x"])), ("copy.deepcopy(x)", lambda e: copy.deepcopy(e["x"])),
        ("pickle(x)", lambda e: pickle.loads(pickle.dumps(e["x"]))), ("sum(builtin)", lambda e: sum(e["x"])), ("max(builtin)", lambda e: max(e["x"].ravel())),
        ("sorted(builtin)", lambda e: sorted(e["x"].ravel())), ("list(x)", lambda e: list(e["x"])),
    ]
    return [L(n, O, f) for n, f in m]


def conv_ops():
    C = "conv"
    m = [
        ("x.to(cm)", lambda e: e["x"].to(e["u2"])), ("x.to(same)", lambda e: e["x"].to(e["x"].units)), ("x.in_units(cm)", lambda e: e["x"].in_units(e["u2"])),
        ("x.in_base()", lambda e: e["x"].in_base()), ("x.in_base(cgs)", lambda e: e["x"].in_base("cgs")), ("x.in_cgs()", lambda e: e["x"].in_cgs()), ("x.in_mks()", lambda e: e["x"].in_mks()),
        ("x.in_base(imperial)", lambda e: e["x"].in_base("imperial")), ("x.to_equivalent(same-dim)", lambda e: e["x"].to_equivalent(e["u2"], "spectral")),
        ("xE.to_equivalent(K,thermal)", lambda e: e["xE"].to_equivalent("K", "thermal")), ("xE.to(K,thermal)", lambda e: e["xE"].to("K", "thermal")),
        ("xE.to_equivalent(Hz,spectral)", lambda e: e["xE"].to_equivalent("Hz", "spectral")), ("xE.in_units(g,mass_energy)", lambda e: e["xE"].in_units("g", "mass_energy")),
        ("x.convert_to_units(cm);x", lambda e: _inplace(e["x"].copy(), "convert_to_units", e["u2"])), ("x.convert_to_base();x", lambda e: _inplace(e["x"].copy(), "convert_to_base")),
        ("x.convert_to_cgs();x", lambda e: _inplace(e["x"].copy(), "convert_to_cgs")), ("x.convert_to_mks();x", lambda e: _inplace(e["x"].copy(), "convert_to_mks")),
        ("xE.convert_to_equivalent;x", lambda e: _inplace(e["xE"].copy(), "convert_to_equivalent", "K", "thermal")),
        ("ua.from_string", lambda e: e["ua"].from_string("5 m")), ("uq.from_string", lambda e: e["uq"].from_string("5 m")),
        ("unyt.uconcatenate([x,y])", lambda e: e["unyt"].uconcatenate([e["x"], e["y"]])), ("unyt.uvstack([x,x])", lambda e: e["unyt"].uvstack([e["x"], e["x"]])),
        ("unyt.uhstack([x,x])", lambda e: e["unyt"].uhstack([e["x"], e["x"]])), ("unyt.ustack([x,x])", lambda e: e["unyt"].ustack([e["x"], e["x"]])),
        ("unyt.ucross(x3,x3)", lambda e: e["unyt"].ucross(e["x3"], e["x3"])), ("unyt.udot(x,x.T)", lambda e: e["unyt"].udot(e["x"], e["x"].T)),
        ("unyt.udot(x1,y1)", lambda e: e["unyt"].udot(e["x"].ravel(), e["y"].ravel())), ("unyt.unorm(x)", lambda e: e["unyt"].unorm(e["x"])),
        ("unyt.unorm(x,axis=0)", lambda e: e["unyt"].unorm(e["x"], axis=0)), ("unyt.unorm(x,keepdims)", lambda e: e["unyt"].unorm(e["x"], axis=-1, keepdims=True)),
        ("unyt.uintersect1d(x,y)", lambda e: e["unyt"].uintersect1d(e["x"], e["y"])), ("unyt.uunion1d(x,y)", lambda e: e["unyt"].uunion1d(e["x"], e["y"])),
        ("ua([x,y])", lambda e: e["ua"]([e["x"], e["y"]])), ("ua([q,q])", lambda e: e["ua"]([e["q"], e["q"]])),
        ("ua([q])", lambda e: e["ua"]([e["q"]])), ("ua((q,q9))", lambda e: e["ua"]((e["q"], e["q"] * 9))), ("ua([x])", lambda e: e["ua"]([e["x"]])),
    ]
    return [L(n, C, f) for n, f in m]


def _inplace(obj, meth, *a):
    getattr(obj, meth)(*a)
    return obj


OUT_FUNCS = [
    ("np.sum", lambda x, y, out: np.sum(x, out=out)), ("np.sum(axis=0)", lambda x, y, out: np.sum(x, axis=0, out=out)), ("np.prod(xd)", lambda x, y, out: np.prod(x * 0 + 1, out=out)),
    ("np.mean", lambda x, y, out: np.mean(x, out=out)), ("np.std", lambda x, y, out: np.std(x, out=out)), ("np.var", lambda x, y, out: np.var(x, out=out)),
    ("np.min", lambda x, y, out: np.min(x, out=out)), ("np.max", lambda x, y, out: np.max(x, out=out)), ("np.max(axis=-1,keepdims)", lambda x, y, out: np.max(x, axis=-1, keepdims=True, out=out)),
    ("np.ptp", lambda x, y, out: np.ptp(x, out=out)), ("np.median", lambda x, y, out: np.median(x, out=out)), ("np.percentile", lambda x, y, out: np.percentile(x, 50, out=out)),
    ("np.quantile", lambda x, y, out: np.quantile(x, 0.5, out=out)), ("np.nansum", lambda x, y, out: np.nansum(x, out=out)), ("np.nanmax", lambda x, y, out: np.nanmax(x, out=out)),
    ("np.nanmean", lambda x, y, out: np.nanmean(x, out=out)), ("np.nanmedian", lambda x, y, out: np.nanmedian(x, out=out)), ("np.cumsum", lambda x, y, out: np.cumsum(x, out=out)),
    ("np.around", lambda x, y, out: np.around(x, out=out)), ("np.round", lambda x, y, out: np.round(x, 1, out=out)), ("np.clip", lambda x, y, out: np.clip(x, x * 0, x * 9, out=out)),
    ("np.choose", lambda x, y, out: np.choose(np.zeros(np.shape(x), dtype=int), [x, y], out=out)), ("np.choose(0)", lambda x, y, out: np.choose(0, [x, y], out=out)),
    ("np.take(0)", lambda x, y, out: np.take(x, 0, out=out)), ("np.take([0])", lambda x, y, out: np.take(x, [0], out=out)), ("np.compress", lambda x, y, out: np.compress([True], x, out=out)),
    ("np.dot(x,y)", lambda x, y, out: np.dot(x, y, out=out)), ("np.dot(x1,y1)", lambda x, y, out: np.dot(np.ravel(x), np.ravel(y), out=out)), ("np.outer", lambda x, y, out: np.outer(x, y, out=out)),
    ("np.matmul(x1,y1)", lambda x, y, out: np.matmul(np.atleast_1d(x).reshape(-1), np.atleast_1d(y).reshape(-1), out=out)), ("np.einsum(->)", lambda x, y, out: np.einsum("...->", x, out=out)),
    ("np.einsum(...)", lambda x, y, out: np.einsum("...->...", x, out=out)), ("np.trace", lambda x, y, out: np.trace(np.atleast_2d(x), out=out)),
    ("np.concatenate", lambda x, y, out: np.concatenate([np.atleast_1d(x), np.atleast_1d(y)], out=out)), ("np.stack", lambda x, y, out: np.stack([x, y], out=out)),
    ("np.linalg.multi_dot", lambda x, y, out: np.linalg.multi_dot([np.atleast_2d(x), np.atleast_2d(y).T, np.atleast_2d(x)], out=out)),
    ("np.add", lambda x, y, out: np.add(x, y, out=out)), ("np.multiply", lambda x, y, out: np.multiply(x, y, out=out)), ("np.sqrt", lambda x, y, out: np.sqrt(x, out=out)),
    ("np.add.reduce", lambda x, y, out: np.add.reduce(x, axis=None, out=out)), ("np.maximum.reduce", lambda x, y, out: np.maximum.reduce(x, axis=None, out=out)),
    ("np.divmod", lambda x, y, out: np.divmod(x, y, out=(out, out.copy()))), ("np.modf", lambda x, y, out: np.modf(x, out=(out, out.copy()))),
    ("x.sum(out)", lambda x, y, out: x.sum(out=out)), ("x.mean(out)", lambda x, y, out: x.mean(out=out)), ("x.max(out)", lambda x, y, out: x.max(out=out)), ("x.dot(out)", lambda x, y, out: x.dot(y, out=out)),
    ("x.take(out)", lambda x, y, out: x.take(0, out=out)), ("x.round(out)", lambda x, y, out: x.round(out=out)), ("x.clip(out)", lambda x, y, out: x.clip(x * 0, x * 9, out=out)),
    ("x.cumsum(out)", lambda x, y, out: x.cumsum(out=out)),
]


def out_ops():
    """out= forms: the buffer is shaped like NumPy's own result on the stripped operands and handed over as unyt_array
    (a 0-d unyt_array when the result is 0-d), as unyt_quantity (0-d results only) or as a bare ndarray"""
    o = []

    def mk(fn, okind):
        def run(e):
            x, y = e["x"], e["x2"]          # same unit: several handlers refuse mixed units outright
            ref = fn(x.view(np.ndarray), y.view(np.ndarray), None)
            ref = np.asarray(ref[0] if isinstance(ref, tuple) else ref)
            dt = ref.dtype if ref.dtype.kind in "fc" else np.dtype("f8")
            buf = np.zeros(ref.shape, dtype=dt)
            if okind == "unyt":
                out = e["ua"](buf, x.units)
            elif okind == "quantity":
                if ref.shape != ():
                    raise ValueError("quantity buffer needs a 0-d result")
                out = e["uq"](buf, x.units)
            else:
                out = buf
            e["_out"] = out
            return fn(x, y, out)
        return run
    for name, fn in OUT_FUNCS:
        nm = name.replace("-free ", ":")
        route = "method" if nm.startswith("x.") else "npfunc"
        for okind in ("unyt", "quantity", "bare"):
            o.append(L(f"{nm}[out={okind}]", route, mk(fn, okind)))
    return o


def explicit_ops():
    """explicit class requests: only a multi-element quantity is judged"""
    m = [("x.view(type(x))", lambda e: e["x"].view(type(e["x"]))), ("x.view(ua)", lambda e: e["x"].view(e["ua"])), ("x.view(uq)", lambda e: e["x"].view(e["uq"])),
         ("ua(x)", lambda e: e["ua"](e["x"])), ("ua(x,relabel)", lambda e: e["ua"](e["x"], e["u2"])), ("uq(x)", lambda e: e["uq"](e["x"])),
         ("uq(x,relabel)", lambda e: e["uq"](e["x"], e["u2"])), ("uq(x.d,u)", lambda e: e["uq"](e["x"].d, e["u2"])), ("ua(x.d,u)", lambda e: e["ua"](e["x"].d, e["u2"])),
         ("uq(x,bypass_validation)", lambda e: e["uq"](e["x"], e["x"].units, bypass_validation=True))]
    return [L(n, "ctor", f) for n, f in m]


OPERATOR_ATTR = {"+x": "__pos__", "-x": "__neg__", "abs(x)": "__abs__", "round(x)": "__round__", "copy.copy(x)": "__copy__", "copy.deepcopy(x)": "__deepcopy__",
                 "pickle(x)": "__reduce__", "list(x)": "__iter__", "sum(builtin)": "__iter__", "max(builtin)": "__iter__", "sorted(builtin)": "__iter__"}


def op_attr(name, route):
    """attribute of the operand that implements a method/operator catalogue entry (None when it is a ufunc-dispatching operator)"""
    import re
    if route == "method":
        m = re.match(r"x[dE]?\.(\w+)", name)
        return m.group(1) if m else None
    if route == "operator":
        return OPERATOR_ATTR.get(name)
    return None


def all_ops():
    return ufunc_ops() + function_ops() + method_ops() + operator_ops() + conv_ops() + explicit_ops() + out_ops()


def op_names():
    return [o[0] for o in all_ops()]
