"""C10 workload dimension: OVERRIDE HISTORIES of one unit system.

A history is a sequence of rounds over one live system (built-in or generated, with or without a current unit):

    convert units of dimension D through some route   (under the declaration - or the absence of one - in force)
    S[D] = unit                                       (a first declaration, or a re-declaration with a unit of another size)
    convert the same units again AT ONCE              (first call rotated over the routes), then by-standers of other dimensions

for every *dimension family*: mechanical (named derived dimensions), thermal (dimensions with a temperature exponent, which have
no name and are declared by dimension object), SI-electromagnetic (systems with a current unit), Gaussian-electromagnetic
(every system; atoms of the SI/Gaussian pairing only in their own family).  The generator is plain data + a random source; it
knows nothing of unyt.  What is declared at each moment is recorded by the harness from its own override events."""
from fractions import Fraction as Fr
from vf.ref import defs, dims, names, uexpr
from vf.ref import c10_systems as SM
from vf.ref.dims import D

# kinds of system a history runs in (rotated over the histories of a run so that every kind is met in every tier)
SYSKINDS = ("cgs", "user-nocur", "user-cur", "mks", "user-nocur", "builtin-cur", "user-cur", "user-nocur")
BUILTIN_CUR = ("imperial", "galactic", "solar", "planck", "geometrized")

# family -> [(key spellings accepted by S[...] (None = the dimension object), dimension vector, units that may be declared)]
MECHANICAL = [
    (("energy",), "energy", ["erg", "eV", "J", "cal", "BTU", "kWh", "Ry", "keV", "N*m", "ft*lbf", "MeV"]),
    (("force",), "force", ["N", "dyn", "lbf", "kip", "kN", "mN"]),
    (("pressure",), "pressure", ["Pa", "bar", "atm", "psi", "Ba", "dyn/cm**2", "lbf/ft**2", "kPa", "mbar"]),
    (("power",), "power", ["W", "hp", "Lsun", "erg/s", "kW", "mW"]),
    (("velocity",), "velocity", ["km/s", "mph", "c", "kt", "cm/s", "m/s"]),
    (("frequency", "rate"), "frequency", ["Hz", "kHz", "1/s", "1/yr", "MHz"]),
    (("area",), "area", ["acre", "ha", "cm**2", "km**2"]),
    (("volume",), "volume", ["L", "gal_US", "m**3", "mL", "cm**3"]),
    (("density",), "density", ["g/cm**3", "Msun/pc**3", "lb/ft**3", "kg/m**3"]),
    (("specific_energy",), "specific_energy", ["erg/g", "J/kg", "Sv", "mSv"]),
    (("acceleration",), "acceleration", ["m/s**2", "ft/s**2", "cm/s**2"]),
    (("momentum",), "momentum", ["g*cm/s", "kg*m/s", "lb*ft/s"]),
    (("tension", "specific_flux"), "tension", ["pli", "N/m", "Jy", "mJy", "dyn/cm"]),
    (("solid_angle",), "solid_angle", ["sr", "degree**2", "arcsec**2"]),
    (("angular_frequency",), "angular_frequency", ["rpm", "rad/s", "degree/s"]),
    (("luminance",), "luminance", ["nt", "lambert", "cd/cm**2"]),
]
THERMAL = [     # no names in unyt.dimensions: declared by dimension object only
    ((None,), D("M L2 T-2 K-1"), ["J/K", "erg/K", "cal/K", "BTU/R", "keV/K", "J/mK"]),
    ((None,), D("L2 T-2 K-1"), ["J/(kg*K)", "erg/(g*K)", "cal/(g*K)", "BTU/(lb*R)"]),
    ((None,), D("K L-1"), ["K/m", "K/km", "mK/cm", "R/ft"]),
    ((None,), D("M L T-3 K-1"), ["W/(m*K)", "erg/(s*cm*K)", "mW/(cm*K)"]),
    ((None,), D("K-1"), ["1/K", "1/mK", "1/R"]),
]
EM_SI = [       # systems with a current unit only
    (("charge", "charge_mks"), "charge", ["C", "mC", "kC", "q_pl", "A*hr", "uC"]),
    (("magnetic_field", "magnetic_field_mks"), "magnetic_field", ["T", "mT", "uT", "kT"]),
    (("electric_potential", "electric_potential_mks"), "electric_potential", ["V", "kV", "mV", "MV"]),
    (("resistance", "resistance_mks"), "resistance", ["ohm", "kohm", "mohm", "Mohm"]),
    (("capacitance", "capacitance_mks"), "capacitance", ["F", "uF", "mF", "nF"]),
    (("inductance", "inductance_mks"), "inductance", ["H", "mH", "uH"]),
    (("magnetic_flux", "magnetic_flux_mks"), "magnetic_flux", ["Wb", "mWb", "V*s", "kWb"]),
]
EM_GAUSS_NOCUR = [
    (("magnetic_field_cgs", "electric_field_cgs"), "magnetic_field_cgs", ["G", "uG", "mG", "kG", "statV/cm"]),
    (("charge_cgs", "magnetic_flux_cgs"), "charge_cgs", ["statC", "esu", "kstatC", "mstatC", "Mx", "kMx"]),
    (("current_cgs",), "current_cgs", ["statA", "mstatA", "kstatA", "statC/s"]),
    (("electric_potential_cgs",), "electric_potential_cgs", ["statV", "mstatV", "kstatV", "erg/statC"]),
    (("resistance_cgs",), "resistance_cgs", ["statohm", "kstatohm", "mstatohm", "s/cm"]),
]
EM_GAUSS_CUR = [
    (("magnetic_field_cgs", "electric_field_cgs"), "magnetic_field_cgs", ["G", "uG", "mG"]),
    (("charge_cgs", "magnetic_flux_cgs"), "charge_cgs", ["statC", "kstatC", "Mx"]),
    (("electric_potential_cgs",), "electric_potential_cgs", ["statV", "mstatV"]),
]
FAMILY_NAMES = ("mechanical", "thermal", "em-si", "em-gauss")
ROUTES = ("in_base", "convert_to_base", "get_base_equivalent")
SPELL_NAMES = (("kg", "m", "s", "K", "rad", "A", "cd", "Np"), ("g", "cm", "s", "K", "rad", "A", "cd", "Np"),
               ("lb", "ft", "hr", "R", "degree", "mA", "cd", "Np"), ("Msun", "kpc", "Myr", "mK", "rad", "kA", "cd", "Np"))


def vec_of(spec):
    return SM.DIMNAME[spec] if isinstance(spec, str) else spec


def families(has_current):
    f = {"mechanical": MECHANICAL, "thermal": THERMAL, "em-gauss": EM_GAUSS_CUR if has_current else EM_GAUSS_NOCUR}
    if has_current:
        f["em-si"] = EM_SI
    return f


def static_res(tok):
    """token -> (reference scale, dimension vector) from the independent definition table (no registry involved)"""
    r = names.resolve(tok)
    if r is None:
        return None
    f, s, _ = r
    return (defs.T[s].value * f, defs.T[s].dim)


def ref_scale(ustr):
    try:
        return uexpr.evaluate(ustr, static_res)[0]
    except Exception:
        return None


def spell(d, which):
    """a compound spelling of dimension d in the base symbols of one of four conventions"""
    nm = SPELL_NAMES[which % len(SPELL_NAMES)]
    parts = []
    for n, x in zip(nm, d):
        if x == 0:
            continue
        parts.append(n if x == 1 else (f"{n}**{int(x)}" if x.denominator == 1 else f"{n}**({x.numerator}/{x.denominator})"))
    return "*".join(parts) if parts else "dimensionless"


_BYDIM = {}


def atoms_of_dim(d):
    if not _BYDIM:
        for s, de in defs.T.items():
            if not de.offset:
                _BYDIM.setdefault(de.dim, []).append(s)
    return _BYDIM.get(d, [])


def pairing_atom(ustr):
    """canonical symbol when the unit is one (possibly prefixed) atom of the documented SI/Gaussian pairing, else None"""
    try:
        toks = uexpr.tokenize(ustr)
    except Exception:
        return None
    if len(toks) != 1:
        return None
    r = names.resolve(toks[0])
    if r is None:
        return None
    return r[1] if (r[1] in SM.EM_SI or r[1] in SM.EM_GAUSS) else None


def own_family(ustr, has_current):
    """atoms of the SI/Gaussian pairing take part only in their own family (SI with a current unit, Gaussian without);
    units that merely contain such an atom (statV/cm, erg/statC, A*hr) follow the general route and always take part"""
    p = pairing_atom(ustr)
    if p is None:
        return True
    return (p in SM.EM_SI) == bool(has_current)


def prefixed(r, sym):
    if not defs.T[sym].prefixable:
        return None
    for p in r.sample(["k", "m", "M", "n", "c"], 5):
        n = p + sym
        rr = names.resolve(n)
        if rr is not None and rr[1] == sym and abs(rr[0] / defs.PREFIX[p] - 1) < 1e-12:
            return n
    return None


class History:
    """stateful generator of the rounds of one override history.  declared0: {dimension vector: unit string} in force when the
    history starts (constructor-time declarations of a generated system, the documented ones of a built-in system)"""

    def __init__(self, r, has_current, declared0, tier):
        self.r = r
        self.cur = bool(has_current)
        self.declared = dict(declared0)
        self.tier = tier
        self.fams = families(self.cur)
        self.serial = 0
        self.touched = []         # vectors overridden so far (a later round likes to come back to them: re-declaration)

    def _pick_unit(self, vec, pool):
        """a unit of another SIZE than the one in force (so that a stale answer is a visibly different unit)"""
        now = self.declared.get(vec)
        s0 = ref_scale(now) if now is not None else None
        cands = []
        for u in pool:
            s = ref_scale(u)
            if s is None:
                continue
            if s0 is not None and abs(s / s0 - 1) < 1e-9:
                continue
            cands.append(u)
        return self.r.choice(cands) if cands else None

    def step(self, family, entry):
        r = self.r
        keys, spec, pool = entry
        vec = vec_of(spec)
        unit = self._pick_unit(vec, pool)
        if unit is None:
            return None
        key = r.choice(keys)
        keyform = "dimobj" if key is None or r.random() < 0.3 else "name"
        probes = []
        atoms = [a for a in atoms_of_dim(vec) if own_family(a, self.cur)]
        em_atoms = [a for a in atoms if pairing_atom(a)]
        probes += em_atoms                                        # the memoising route: always, and first
        rest = [a for a in atoms if a not in em_atoms]
        probes += r.sample(rest, min(len(rest), 2 if self.tier == "quick" else 3))
        for a in r.sample(atoms, min(len(atoms), 2)):
            p = prefixed(r, a)
            if p is not None:
                probes.append(p)
        probes.append(spell(vec, r.randrange(4)))
        if self.tier != "quick" or not atoms:
            probes.append(spell(vec, r.randrange(4)))
        prev = self.declared.get(vec)
        for u in (prev, unit):                                     # the unit in force and the unit about to be declared
            if u is not None and own_family(u, self.cur) and ref_scale(u) is not None:
                probes.append(u)
        if len(pool) > 2 and r.random() < 0.5:
            u = r.choice(pool)
            if own_family(u, self.cur) and ref_scale(u) is not None:
                probes.append(u)
        seen = []
        for u in probes:
            if u not in seen:
                seen.append(u)
        self.serial += 1
        return {"family": family, "vec": vec, "dimname": spec if isinstance(spec, str) else dims.show(vec), "key": key, "keyform": keyform,
                "unit": unit, "previous": prev, "redeclare": prev is not None, "probes": seen,
                "em_first": [u for u in seen if pairing_atom(u)]}

    def next_round(self, want_family=None):
        """1 or 2 overrides declared together; want_family forces the family of the first"""
        r = self.r
        k = r.choice([1, 1, 2])
        steps = []
        used = set()
        for i in range(k):
            fam = want_family if (i == 0 and want_family in self.fams) else r.choice(sorted(self.fams))
            entries = self.fams[fam]
            back = [e for e in entries if vec_of(e[1]) in self.touched and vec_of(e[1]) not in used]
            fresh = [e for e in entries if vec_of(e[1]) not in used]
            if not fresh:
                continue
            e = r.choice(back) if (back and r.random() < 0.5) else r.choice(fresh)
            st = self.step(fam, e)
            if st is None:
                continue
            used.add(st["vec"])
            steps.append(st)
        return steps

    def commit(self, st):
        self.declared[st["vec"]] = st["unit"]
        if st["vec"] not in self.touched:
            self.touched.append(st["vec"])

    def bystanders(self, n, avoid):
        """units of dimensions that are NOT overridden in this round (their answers must not move)"""
        r = self.r
        pool = ["km", "Msun", "Myr", "erg", "keV", "Pa", "km/s", "g/cm**3", "hp", "lbf", "Hz", "acre", "L", "mK", "sr", "J/K", "psi", "N"]
        if self.cur:
            pool += ["T", "mT", "C", "kA", "V", "ohm", "uF", "Wb"]
        else:
            pool += ["G", "mG", "statC", "statA", "statV", "statohm", "Mx"]
        out = []
        for u in r.sample(pool, len(pool)):
            try:
                d = uexpr.evaluate(u, static_res)[1]
            except Exception:
                continue
            if d in avoid:
                continue
            out.append(u)
            if len(out) == n:
                break
        return out
