"""Dyadic unit pool: a custom UnitRegistry whose extra units have scales 2**(12*k) (used by C04, reusable by C07).

Why: a conversion between two units whose scale ratio is a power of two is exact in binary floating point and commutes
with rounding (absent overflow/underflow).  Every scale-covariant operation therefore has to give *bit-identical* SI
magnitudes whatever dyadic unit the operands are written in, which makes discontinuous operations (//, %, divmod,
comparisons, min/max) decidable without tolerances.  The exponent step is 12 so that square, cube, 4th and 6th roots
of a rescaled operand are still exact powers of two (a probe with step 1 produced spurious sqrt(2) mismatches).
Caveat seen while building C04: unyt computes the scale of unit**(1/3) with float pow, and 4096.0**(1/3) is
15.999999999999998, so units with third/sixth powers are 1 ulp off a power of two *inside unyt*; users wanting bit
equality should keep exponents to integers, halves and quarters (sqrt and **0.25 of 2**(12k) are exact).

Documented API (pure data + small helpers; nothing here calls unyt except `registry()` / `make()`):

  STEP                      12
  ATOMS                     {symbol: (dimension letter, k)}   scale of the symbol = 2.0 ** (STEP * k) SI base units
                            letters: L length, T time, M mass, A angle, D dimensionless (a scaled pure number, like percent)
  ATOMS_B                   same symbols as ATOMS with *other* k: the "second registry" in which the same name means another size
  DIMVEC[letter]            8-component Fraction dimension vector (vf.ref.dims convention)
  scale(sym, table=ATOMS)   exact float scale of an atom
  resolver(table=ATOMS)     callback for vf.ref.uexpr.evaluate: atom -> (scale, dimvec)
  evaluate(expr, table)     -> (scale, dimvec) of a unit expression over the atoms (own evaluator, independent of unyt; the scale
                            is snapped to the exact power of two)
  log2scale(expr, table)    -> integer e with scale == 2.0**e   (raises if the scale is not a power of two)
  atoms_of(letter)          symbols of one dimension, ordered by k
  fmt_pow(sym, e)           spelling of sym**e for a Fraction e
  compose(dimvec, pick)     unit expression string for an arbitrary dimension vector with integer / half / third exponents
                            over L,T,M,A;  pick(letter) -> symbol chooses the atom for each base dimension
  alternatives(dimvec, rnd, n)  n distinct-as-strings expressions of that dimension (random atoms per factor)
  registry(unyt, table=ATOMS)   a fresh unyt.UnitRegistry (default symbols kept) with the atoms of `table` added
  make(unyt, reg, values, expr) unyt_array / unyt_quantity (0-d values) in that registry
"""
from fractions import Fraction as Fr
import math
from vf.ref import dims as _dims
from vf.ref import uexpr as _uexpr

STEP = 12

ATOMS = {
    "Lm": ("L", -1), "L1": ("L", 0), "L4096": ("L", 1),
    "Tm": ("T", -1), "T1": ("T", 0), "T4096": ("T", 1),
    "Mm": ("M", -1), "M1": ("M", 0), "M4096": ("M", 1),
    "Am": ("A", -1), "A1": ("A", 0), "A4096": ("A", 1),
    "Dm": ("D", -1), "D4096": ("D", 1),
}
# the same names meaning other sizes: operands from a second registry (yt-style code units of two datasets)
ATOMS_B = {
    "Lm": ("L", 1), "L1": ("L", 2), "L4096": ("L", -1),
    "Tm": ("T", 0), "T1": ("T", 1), "T4096": ("T", -2),
    "Mm": ("M", 1), "M1": ("M", -1), "M4096": ("M", 0),
    "Am": ("A", 0), "A1": ("A", 1), "A4096": ("A", -1),
    "Dm": ("D", 1), "D4096": ("D", -1),
}

DIMVEC = {"L": _dims.D("L"), "T": _dims.D("T"), "M": _dims.D("M"), "A": _dims.D("A"), "D": _dims.ZERO}
_LETTER_INDEX = {"M": 0, "L": 1, "T": 2, "A": 4}


def scale(sym, table=ATOMS):
    return 2.0 ** (STEP * table[sym][1])


def resolver(table=ATOMS):
    def res(tok):
        if tok in table:
            return scale(tok, table), DIMVEC[table[tok][0]]
        if tok == "dimensionless":
            return 1.0, _dims.ZERO
        return None
    return res


def evaluate(expr, table=ATOMS):
    if expr in ("", "dimensionless"):
        return 1.0, _dims.ZERO
    s, d = _uexpr.evaluate(expr, resolver(table))
    # every scale in this pool is a power of two by construction; float pow may be 1 ulp off for cube roots
    e = round(math.log2(s))
    if abs(s / 2.0 ** e - 1.0) < 1e-12:
        s = 2.0 ** e
    return s, d


def log2scale(expr, table=ATOMS):
    s, _ = evaluate(expr, table)
    m, e = math.frexp(s)
    if m != 0.5:
        raise ValueError(f"scale of {expr!r} is not a power of two: {s!r}")
    return e - 1


def atoms_of(letter, table=ATOMS):
    return sorted((s for s, (l, k) in table.items() if l == letter), key=lambda s: table[s][1])


def fmt_pow(sym, e):
    """'sym', 'sym**3', 'sym**(-2)' or 'sym**(1/2)' for a Fraction exponent"""
    e = Fr(e)
    if e == 1:
        return sym
    if e.denominator == 1:
        return f"{sym}**{int(e)}" if e > 0 else f"{sym}**({int(e)})"
    return f"{sym}**({e.numerator}/{e.denominator})"


def compose(dimvec, pick):
    """unit expression for a dimension vector over M, L, T, A (other components must be zero); '' means dimensionless"""
    for i, x in enumerate(dimvec):
        if x != 0 and i not in _LETTER_INDEX.values():
            raise ValueError("dimension outside the dyadic pool")
    num, den = [], []
    for letter in ("M", "L", "T", "A"):
        e = dimvec[_LETTER_INDEX[letter]]
        if e == 0:
            continue
        sym = pick(letter)
        (num if e > 0 else den).append(fmt_pow(sym, abs(e)))
    if not num and not den:
        return "dimensionless"
    s = "*".join(num) if num else "1"
    if den:
        s += "/" + ("(" + "*".join(den) + ")" if len(den) > 1 else den[0])
    return s


def alternatives(dimvec, rnd, n=3, table=ATOMS):
    """up to n expressions (distinct strings) with this dimension; for the zero vector the scaled pure numbers"""
    if all(x == 0 for x in dimvec):
        out = ["dimensionless"] + atoms_of("D", table)
        rnd.shuffle(out)
        return out[:n]
    seen = []
    for _ in range(12 * n):
        e = compose(dimvec, lambda l: rnd.choice(atoms_of(l, table)))
        if e not in seen:
            seen.append(e)
        if len(seen) >= n:
            break
    return seen


def registry(unyt, table=ATOMS):
    from unyt import dimensions as ud
    sym = {"L": ud.length, "T": ud.time, "M": ud.mass, "A": ud.angle, "D": ud.dimensionless}
    reg = unyt.UnitRegistry()
    for name, (letter, k) in table.items():
        reg.add(name, 2.0 ** (STEP * k), sym[letter])
    return reg


def make(unyt, reg, values, expr):
    import numpy as np
    v = np.asarray(values)
    u = unyt.Unit(expr, registry=reg)
    if v.shape == ():
        return unyt.unyt_quantity(v[()], u, registry=reg)
    return unyt.unyt_array(v.copy(), u, registry=reg)
