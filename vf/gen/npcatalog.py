"""Catalogue of NumPy call templates (array functions of numpy / numpy.linalg / numpy.fft, ndarray methods, operators).

Used by C06 (numbers equal to the bare call), C07 (unit covariance), C16 (class/shape/views) and C18 (mutation).
The module needs only NumPy: it never imports unyt.  A template does not contain unit-carrying objects but
*placeholders*; the consumer decides how a placeholder is turned into an object ("unit assignment").

API
---
``catalog()`` -> list[Template] (built once, deterministic order).  ``wrappable()`` -> {qualified name: function}
computed the way the repository's completeness test does (members of np, np.linalg, np.fft with ``__wrapped__``).
``by_function()`` -> {func_name: [Template]}.  ``unexercised_params()`` -> {func_name: [parameter names of the
run-time signature that no template passes]} (a NumPy upgrade adding a parameter shows up here).
``without_template()`` -> wrappable names that have no template at all.

``Template`` attributes
    ``func_name``  "numpy.sum", "numpy.linalg.det", "numpy.fft.fft", "ndarray.sum" (method), "ndarray.T" (attribute),
                   "ndarray.__add__" (operator, invoked through the ``operator`` module / builtins)
    ``form``       form id: "base", "kw:<param>#<i>" (one optional parameter as keyword, i-th non-default value),
                   "pos" (optionals passed positionally in signature order), "allkw" (required arguments by keyword),
                   "out" / "out:bare" (out= buffer shaped like NumPy's own result; bare = plain ndarray buffer),
                   "out+kw:<param>#0", "bare#<k>" (k-th unit-carrying operand passed as a plain ndarray), or a custom id
    ``tid``        ``func_name + "/" + form`` - the structural key of the template
    ``kind``       "function" | "method" | "attr" | "op"
    ``target``     the NumPy callable for kind "function", else None
    ``tags``       frozenset of: "same-dimension" (selection, reshaping, sorting, rounding, interpolation, location/spread
                   statistic: result commensurable with the input), "index-like" (indices, counts, booleans, shapes),
                   "opaque" (strings, dtypes, file side effects: only "does not raise"/observed payload), "mutator"
                   (modifies an operand in place), "out" (form with an out= buffer), "mixed-bare" (one operand passed bare),
                   "product" (result dimension is a product/power/quotient of input dimensions), "prototype" (*_like),
                   "view" (NumPy returns a view of the first operand), "unsupported" (unyt declares it unsupported),
                   "uninitialized" (values undefined: empty_like), "callable-arg", "mixed-result" (tuple mixing kinds)
    ``shapes``     shape classes the builder accepts, subset of SHAPES
    ``dtypes``     dtype codes the builder accepts (None = any of DTYPES_*)
    ``params``     parameter names this template passes
    ``build(g)``   -> ``Call``; ``g`` is a ``Gen(rng, dtype, shape, flavor)``; may raise ``Skip``
    ``invoke(args, kwargs)`` performs the call on realised arguments and returns the result
    ``observe(args, kwargs, result)`` -> the object to compare/inspect (default: the result itself; file writers
                   return what was written, ``empty_like`` only shape and dtype)

``Call(args, kwargs)`` holds plain Python/NumPy data plus ``Q(data, dim)`` placeholders (possibly nested in lists,
tuples, dicts) and ``QView(q, index)`` (a view ``realised(q)[index]`` - aliasing).  ``dim`` is a dimension slot label:
"A", "B" (independent dimensions: the consumer maps them to units, e.g. A->m, B->s), "1" (must be dimensionless).
``call.realize(wrap)`` -> ``(args, kwargs, leaves)``: every Q is replaced by ``wrap(fresh copy of data, dim, q)``
(the same Q object -> the same realised object, so aliasing such as out=a is preserved); ``leaves`` is the list of
``(path, q, realised object)`` in traversal order, for looking at operands after the call.  ``Q.bare`` marks an operand
that must stay a plain ndarray (forms "bare#k", "out:bare"); ``realize`` never hands those to ``wrap``.
``realize(wrap, layout=...)`` gives every placeholder one of ``LAYOUTS`` (C / F ordered owners, strided, reversed and
transposed views of larger buffers) - the bare and the unit-carrying realisation of a case must use the same layout.
``bare_wrap`` is the identity assignment (plain ndarrays); ``unit_wrapper(unyt, {"A": "m", "B": "s", "1": ""})``
builds ``unyt_quantity`` for 0-d and ``unyt_array`` otherwise.

Data are small integers (flavor "int"; exact in every dtype), quarters (flavor "frac") or general floats (flavor "gen").

Typical consumer loop::

    for t in catalog():
        for shape in t.shapes:
            g = Gen(rng, "f8", shape)                 # rng: random.Random; dtype code; shape class; flavor
            try: call = t.build(g)
            except Skip: continue
            args, kwargs, leaves = call.realize(unit_wrapper(unyt, {"A": "m", "B": "s", "1": ""}), layout="C")
            result = t.observe(args, kwargs, t.invoke(args, kwargs))
            # leaves: [(path, Q, realised operand)] - Q.role == "out" marks an out= buffer, "mutator" in t.tags an in-place call

For C07 realise the same ``call`` twice with two unit assignments (``wrap`` receives the bare data and the slot label, so it
can rescale the data for the second assignment); templates tagged "mixed-bare" contain an operand without unit.

Extending: entries live in vf/gen/c06_cat_*.py and are declared with ``F(name, base, opt=..., out=..., forms=...)`` (expands
to the standard forms), ``X(name, form, builder)`` (one extra form) and ``OP(name, fn, base)`` (operators/protocols).
"""
import inspect
import io
import operator
import numpy as np

SHAPES = ("1d", "2d", "3d", "0d", "sq", "stk", "e1", "e2")
DTYPES_QUICK = ("f8", "i8", "c16")
DTYPES_THOROUGH = ("f8", "i8", "c16", "f4", "i4", "u1")
_NOVALUE = np._NoValue


class Skip(Exception):
    """the template has no instance for this shape class / dtype"""


class Q:
    """placeholder for an array operand that carries a unit of dimension slot `dim`"""
    __slots__ = ("data", "dim", "bare", "role")

    def __init__(self, data, dim="A", bare=False, role=None):
        self.data = np.asarray(data)
        self.dim = dim
        self.bare = bare
        self.role = role

    def __repr__(self):
        return f"Q({self.data.tolist() if self.data.size <= 12 else self.data.shape}, {self.dim!r}{', bare' if self.bare else ''})"


class QView:
    """realised(q)[index]: an operand that aliases another operand"""
    __slots__ = ("q", "index")

    def __init__(self, q, index):
        self.q = q
        self.index = index


class TmpPath:
    """placeholder for a fresh scratch file name (ndarray.tofile needs a real file); read and removed by read_tmp"""


_TMPN = [0]


def _tmp_path():
    import os, tempfile
    _TMPN[0] += 1
    return os.path.join(tempfile.gettempdir(), "npcatalog-%d-%d" % (os.getpid(), _TMPN[0]))


def read_tmp(path):
    import os
    try:
        with open(path, "rb") as f:
            return f.read().decode("latin1")
    finally:
        try:
            os.unlink(path)
        except OSError:
            pass


class Multi(dict):
    """an optional-parameter candidate that sets several keywords at once"""


class Call:
    def __init__(self, args, kwargs=None):
        self.args = list(args)
        self.kwargs = dict(kwargs or {})

    def leaves(self):
        out = []

        def walk(o, path):
            if isinstance(o, Q):
                out.append((path, o))
            elif isinstance(o, QView):
                walk(o.q, path + ".base")
            elif isinstance(o, (list, tuple)):
                for i, e in enumerate(o):
                    walk(e, f"{path}[{i}]")
            elif isinstance(o, dict):
                for k, e in o.items():
                    walk(e, f"{path}.{k}")
        for i, a in enumerate(self.args):
            walk(a, str(i))
        for k, a in self.kwargs.items():
            walk(a, k)
        seen = set(); uniq = []
        for p, q in out:
            if id(q) not in seen:
                seen.add(id(q)); uniq.append((p, q))
        return uniq

    def realize(self, wrap, layout="C"):
        """layout: memory layout given to every placeholder's data before wrapping, one of LAYOUTS ("C" fresh C-ordered
        owner; "F" Fortran-ordered owner; "strided" every second element along the last axis of a larger buffer;
        "reversed" negative stride along the last axis; "T" transposed view of a buffer with reversed axes)"""
        memo = {}
        leaves = []

        def one(q, path):
            if id(q) not in memo:
                d = apply_layout(q.data, layout)
                obj = d if q.bare else wrap(d, q.dim, q)
                memo[id(q)] = obj
                leaves.append((path, q, obj))
            return memo[id(q)]

        def walk(o, path):
            if isinstance(o, Q):
                return one(o, path)
            if isinstance(o, QView):
                return walk(o.q, path + ".base")[o.index]
            if isinstance(o, list):
                return [walk(e, f"{path}[{i}]") for i, e in enumerate(o)]
            if isinstance(o, tuple):
                return tuple(walk(e, f"{path}[{i}]") for i, e in enumerate(o))
            if isinstance(o, dict):
                return {k: walk(e, f"{path}.{k}") for k, e in o.items()}
            if isinstance(o, np.ndarray):
                return o.copy()
            if isinstance(o, io.BytesIO):
                return io.BytesIO()
            if isinstance(o, io.StringIO):
                return io.StringIO()
            if isinstance(o, TmpPath):
                return _tmp_path()
            return o
        args = [walk(a, str(i)) for i, a in enumerate(self.args)]
        kwargs = {k: walk(a, k) for k, a in self.kwargs.items()}
        return args, kwargs, leaves


LAYOUTS = ("C", "F", "strided", "reversed", "T")


def apply_layout(d, layout):
    """a fresh array equal to d with the requested memory layout (never aliases d)"""
    if layout == "C" or d.ndim == 0:
        return d.copy()
    if layout == "F":
        return np.array(d, order="F", copy=True)
    if layout == "strided":
        big = np.zeros(d.shape[:-1] + (2 * d.shape[-1],), d.dtype)
        v = big[..., ::2]
        v[...] = d
        return v
    if layout == "reversed":
        return d[..., ::-1].copy()[..., ::-1]
    if layout == "T":
        return d.T.copy().T
    raise ValueError(layout)


def bare_wrap(data, dim, q):
    return data


def unit_wrapper(unyt, assign, zero_d="quantity"):
    """assign: {"A": unit, "B": unit, "1": ""}; 0-d data become unyt_quantity unless zero_d == "array" """
    units = {k: unyt.Unit(v) if isinstance(v, str) else v for k, v in assign.items()}

    def wrap(data, dim, q):
        u = units[dim]
        if data.ndim == 0 and zero_d == "quantity":
            return unyt.unyt_quantity(data, u)
        return unyt.unyt_array(data, u)
    return wrap


# ------------------------------------------------------------------------------------------------ data generator
_CONCRETE = {
    "0d": [()], "1d": [(5,), (6,), (7,), (4,)], "2d": [(3, 4), (2, 5), (4, 3)], "3d": [(2, 3, 4), (3, 2, 2)],
    "sq": [(3, 3), (4, 4), (2, 2)], "stk": [(2, 3, 3), (3, 2, 2)], "e1": [(0,)], "e2": [(0, 3)],
}


class Gen:
    def __init__(self, rng, dtype="f8", shape="1d", flavor="int"):
        self.rng = rng
        self.dtype = np.dtype(dtype)
        self.shape = shape
        self.flavor = flavor
        self._dims = rng.choice(_CONCRETE[shape])

    def dims(self):
        return self._dims

    def need(self, *shapes):
        if self.shape not in shapes:
            raise Skip(self.shape)

    def real_only(self):
        if self.dtype.kind == "c":
            raise Skip("complex")

    def _vals(self, n, lo, hi):
        r = self.rng
        if self.dtype.kind == "u":
            lo = max(lo, 0)
            hi = max(hi, lo + 3)
        if self.dtype.kind in "iub" or self.flavor == "int":
            return [r.randint(lo, hi) for _ in range(n)]
        if self.flavor == "frac":
            return [r.randint(4 * lo, 4 * hi) / 4.0 for _ in range(n)]
        return [r.uniform(lo, hi) for _ in range(n)]

    def raw(self, shape=None, lo=-9, hi=9, dtype=None):
        shape = self._dims if shape is None else tuple(shape) if not isinstance(shape, int) else (shape,)
        dt = np.dtype(dtype) if dtype is not None else self.dtype
        n = int(np.prod(shape)) if len(shape) else 1
        save = self.dtype
        self.dtype = dt
        try:
            v = np.array(self._vals(n, lo, hi), dtype="f8")
            if dt.kind == "c":
                v = v + 1j * np.array(self._vals(n, lo, hi), dtype="f8")
        finally:
            self.dtype = save
        return v.astype(dt).reshape(shape)

    def a(self, dim="A", shape=None, lo=-9, hi=9, dtype=None):
        return Q(self.raw(shape, lo, hi, dtype), dim)

    def pos(self, dim="A", shape=None, lo=1, hi=9):
        return Q(self.raw(shape, lo, hi), dim)

    def q(self, data, dim="A"):
        return Q(np.asarray(data), dim)

    def like(self, q, dim=None, lo=-9, hi=9):
        return Q(self.raw(q.data.shape, lo, hi, q.data.dtype), dim or q.dim)

    def distinct(self, dim="A", shape=None):
        shape = self._dims if shape is None else tuple(shape)
        n = int(np.prod(shape)) if len(shape) else 1
        v = list(range(-(n // 2), n - n // 2))
        self.rng.shuffle(v)
        d = np.array(v, dtype="f8")
        if self.dtype.kind == "u":
            d = d + n // 2
        if self.dtype.kind in "f" and self.flavor != "int":
            d = d / 4.0
        return Q(d.astype(self.dtype).reshape(shape), dim)

    def sorted1(self, dim="A", n=6):
        d = np.sort(self.raw((n,)).real).astype(self.dtype)
        return Q(d, dim)

    def ints(self, shape, lo, hi):
        shape = (shape,) if isinstance(shape, int) else tuple(shape)
        n = int(np.prod(shape)) if len(shape) else 1
        return np.array([self.rng.randint(lo, hi) for _ in range(n)], dtype="i8").reshape(shape)

    def mask(self, shape=None):
        shape = self._dims if shape is None else tuple(shape)
        n = int(np.prod(shape)) if len(shape) else 1
        v = [self.rng.random() < 0.6 for _ in range(n)]
        if n >= 2:
            v[0] = True
            v[-1] = False
        return np.array(v, dtype=bool).reshape(shape)

    def with_nan(self, dim="A", shape=None):
        if self.dtype.kind not in "fc":
            raise Skip("nan needs float")
        d = self.raw(shape)
        if d.size >= 2:
            flat = d.reshape(-1)
            flat[self.rng.randrange(flat.size)] = np.nan
        return Q(d, dim)

    def square(self, dim="A", n=None, stacked=None, kind="general"):
        """well conditioned square matrix / stack of matrices; kind in general|sym|spd"""
        if self.shape == "sq":
            shp = self._dims
        elif self.shape == "stk":
            shp = self._dims
        else:
            shp = (3, 3)
        if n is not None:
            shp = shp[:-2] + (n, n)
        n = shp[-1]
        m = self.raw(shp, -3, 3).astype("c16" if self.dtype.kind == "c" else "f8")
        if kind in ("sym", "spd"):
            m = m + np.conj(np.swapaxes(m, -1, -2))
        m = m + np.eye(n) * (8 * n if kind != "sym" else 1)
        if self.dtype.kind in "iu":
            m = np.round(m.real)
        return Q(m.astype(self.dtype), dim)


# ------------------------------------------------------------------------------------------------ templates
class Template:
    def __init__(self, func_name, form, build, kind="function", target=None, tags=(), shapes=None, dtypes=None,
                 params=(), observe=None, invoke=None):
        self.func_name = func_name
        self.form = form
        self.tid = f"{func_name}/{form}"
        self.kind = kind
        self.target = target
        self.tags = frozenset(tags)
        self.shapes = tuple(shapes or ("1d", "2d", "3d", "0d", "e1"))
        self.dtypes = tuple(dtypes) if dtypes else None
        self.params = frozenset(params)
        self._build = build
        self._observe = observe
        self._invoke = invoke

    def build(self, g):
        if g.shape not in self.shapes:
            raise Skip(g.shape)
        if self.dtypes and g.dtype.str.lstrip("<>|=") not in self.dtypes and g.dtype.name not in self.dtypes:
            raise Skip(g.dtype.name)
        c = self._build(g)
        if not isinstance(c, Call):
            c = Call(*c) if isinstance(c, tuple) and len(c) == 2 and isinstance(c[1], dict) else Call(c)
        return c

    def invoke(self, args, kwargs):
        if self._invoke is not None:
            return self._invoke(args, kwargs)
        if self.kind == "function":
            return self.target(*args, **kwargs)
        name = self.func_name.split(".", 1)[1]
        if self.kind == "method":
            return getattr(args[0], name)(*args[1:], **kwargs)
        if self.kind == "attr":
            return getattr(args[0], name)
        raise RuntimeError("op templates need an explicit invoke")

    def observe(self, args, kwargs, result):
        if self._observe is not None:
            return self._observe(args, kwargs, result)
        return result

    def __repr__(self):
        return f"<Template {self.tid}>"


_CATALOG = []
_BY_TID = {}


def _add(t):
    if t.tid in _BY_TID:
        raise ValueError("duplicate template " + t.tid)
    _BY_TID[t.tid] = t
    _CATALOG.append(t)
    return t


def wrappable():
    out = {}
    for mod in (np, np.linalg, np.fft):
        for n, f in mod.__dict__.items():
            if callable(f) and hasattr(f, "__wrapped__") and not f.__name__.startswith("_") and f is not np.printoptions:
                out[mod.__name__ + "." + n] = f
    return dict(sorted(out.items()))


def _resolve(name):
    obj = np
    for part in name.split(".")[1:]:
        obj = getattr(obj, part)
    return obj


def _sig_params(target):
    try:
        return list(inspect.signature(target).parameters.values())
    except (TypeError, ValueError):
        return None


def _split_base(b):
    if isinstance(b, tuple) and len(b) == 2 and isinstance(b[1], dict):
        return list(b[0]), dict(b[1])
    return list(b), {}


def _value(c, g, args):
    return c(g, args) if callable(c) and not isinstance(c, type) else c


def _qleaves(args, kwargs):
    return Call(args, kwargs).leaves()


def F(name, base, opt=None, out=None, shapes=None, dtypes=None, tags=(), observe=None, forms=None, kind=None,
      posorder=None, mixed=True, invoke=None, allkw=True, params=None):
    """declare one function/method with its call forms (see module docstring for the form ids).

    base(g) -> list of positional args or (args, kwargs);  opt: {param or "p1+p2": [candidate, ...]}, a candidate is a
    constant, a callable (g, base_args) -> value, or returns Multi({...});  out: None | True (out= buffer like NumPy's own
    result of the same call) | "name" of the out parameter;  forms: {form id: builder(g) -> args | (args, kwargs)};
    posorder: for methods (signature not introspectable) the optional parameters in positional order.
    """
    opt = opt or {}
    tags = set(tags)
    if kind is None:
        kind = "function" if name.startswith("numpy.") else "method"
    target = _resolve(name) if kind == "function" else None
    sig = _sig_params(target) if target is not None else None
    common = dict(kind=kind, target=target, shapes=shapes, dtypes=dtypes, observe=observe, invoke=invoke)
    outname = "out" if out is True else out

    def base_params(nargs, kwargs):
        names = set(kwargs)
        if sig:
            pos = [p for p in sig if p.kind in (p.POSITIONAL_ONLY, p.POSITIONAL_OR_KEYWORD)]
            var = [p for p in sig if p.kind == p.VAR_POSITIONAL]
            for i in range(nargs):
                if i < len(pos):
                    names.add(pos[i].name)
                elif var:
                    names.add(var[0].name)
        return names
    # number of base args is only known by building once with a throw-away generator
    import random as _r
    probe_n = None
    for sh in (shapes or ("1d", "2d", "3d", "0d", "e1")):
        for dt in (dtypes or ("f8",)):
            try:
                a0, k0 = _split_base(base(Gen(_r.Random(0), dt, sh)))
                probe_n = (len(a0), set(k0))
                break
            except Skip:
                continue
        if probe_n:
            break
    if probe_n is None:
        raise ValueError("no shape class instantiates " + name)
    bp = base_params(probe_n[0], probe_n[1]) | set(params or ())

    _add(Template(name, "base", lambda g: Call(*_split_base(base(g))), tags=tags, params=bp, **common))

    for key, cands in opt.items():
        pnames = key.split("+")
        for i, c in enumerate(cands):
            def b(g, key=key, c=c, pnames=pnames):
                a, k = _split_base(base(g))
                v = _value(c, g, a)
                if isinstance(v, Multi):
                    k.update(v)
                else:
                    k[pnames[0]] = v
                return Call(a, k)
            _add(Template(name, f"kw:{key}#{i}", b, tags=tags, params=bp | set(pnames), **common))

    order = None
    if sig:
        order = []
        for p in sig[probe_n[0]:]:
            if p.kind not in (p.POSITIONAL_ONLY, p.POSITIONAL_OR_KEYWORD):
                break
            order.append((p.name, p.default))
    elif posorder:
        order = [(p, inspect.Parameter.empty) for p in posorder]
    if order:
        usable = []
        for pn, default in order:
            if pn in opt:
                usable.append((pn, None))
            elif pn == outname:
                usable.append((pn, "default-none"))
            elif default is not inspect.Parameter.empty and default is not _NOVALUE:
                usable.append((pn, ("const", default)))
            else:
                break
        while usable and usable[-1][1] is not None:
            usable.pop()
        if usable:
            def bpos(g, usable=usable):
                a, k = _split_base(base(g))
                n0 = len(a)
                for pn, how in usable:
                    if how is None:
                        v = _value(opt[pn][0], g, a[:n0])
                        if isinstance(v, Multi):
                            raise Skip("multi")
                        a.append(v)
                    elif how == "default-none":
                        a.append(None)
                    else:
                        a.append(how[1])
                return Call(a, k)
            _add(Template(name, "pos", bpos, tags=tags, params=bp | {p for p, _ in usable}, **common))

    if sig and allkw and probe_n[0] and all(p.kind == p.POSITIONAL_OR_KEYWORD for p in sig[:probe_n[0]]) and len(sig) >= probe_n[0]:
        def bkw(g):
            a, k = _split_base(base(g))
            for p, v in zip(sig, a):
                k[p.name] = v
            return Call([], k)
        _add(Template(name, "allkw", bkw, tags=tags, params=bp, **common))

    if outname:
        def mk_out(g, a, k, bare):
            ba, bk, _ = Call(a, k).realize(bare_wrap)
            t = Template(name, "probe", None, kind=kind, target=target, invoke=invoke)
            try:
                with np.errstate(all="ignore"):
                    r = t.invoke(ba, bk)
            except Exception:
                raise Skip("bare call raises")
            if isinstance(r, np.generic):
                r = np.asarray(r)
            if not isinstance(r, np.ndarray):
                raise Skip("no array result for out=")
            return Q(np.zeros(r.shape, r.dtype), "A", bare=bare, role="out")
        variants = [("out", None, False), ("out:bare", None, True)]
        for key in ("axis",):
            if key in opt:
                variants.append((f"out+kw:{key}#0", key, False))
        for form, key, bare in variants:
            def bo(g, key=key, bare=bare):
                a, k = _split_base(base(g))
                if key:
                    k[key] = _value(opt[key][0], g, a)
                k[outname] = mk_out(g, a, k, bare)
                return Call(a, k)
            _add(Template(name, form, bo, tags=tags | {"out"}, params=bp | {outname} | ({key} if key else set()), **common))

    if mixed:
        nleaves = len(_qleaves(*_split_base(base(Gen(_r.Random(0), (dtypes or ("f8",))[0], sh)))))
        if nleaves >= 2:
            for kth in range(min(nleaves, 3)):
                def bm(g, kth=kth):
                    a, k = _split_base(base(g))
                    lv = _qleaves(a, k)
                    if kth >= len(lv):
                        raise Skip("leaf")
                    lv[kth][1].bare = True
                    return Call(a, k)
                _add(Template(name, f"bare#{kth}", bm, tags=tags | {"mixed-bare"}, params=bp, **common))

    for form, fb in (forms or {}).items():
        ftags = set(tags)
        if isinstance(fb, tuple):
            fb, extra = fb
            ftags |= set(extra)
        fparams = set(bp)
        if form.startswith("kw:"):
            fparams |= set(form[3:].split("#")[0].split("+"))
        _add(Template(name, form, (lambda g, fb=fb: Call(*_split_base(fb(g)))), tags=ftags, params=fparams, **common))


def X(name, form, fb, tags=(), shapes=None, dtypes=None, params=(), kind=None, observe=None, invoke=None):
    """one extra custom form for a function/method: fb(g) -> args | (args, kwargs)"""
    if kind is None:
        kind = "function" if name.startswith("numpy.") else "method"
    target = _resolve(name) if kind == "function" else None
    return _add(Template(name, form, (lambda g: Call(*_split_base(fb(g)))), kind=kind, target=target, tags=tags, shapes=shapes,
                         dtypes=dtypes, params=params, observe=observe, invoke=invoke))


def OP(name, fn, base, tags=(), shapes=None, dtypes=None, forms=None):
    """operator / builtin protocol template: fn(*args) is e.g. operator.add, abs, len"""
    _add(Template("ndarray." + name, "base", lambda g: Call(*_split_base(base(g))), kind="op", tags=tags, shapes=shapes,
                  dtypes=dtypes, invoke=lambda a, k: fn(*a, **k)))
    nleaves = None
    import random as _r
    for sh in (shapes or ("1d", "2d", "3d", "0d", "e1")):
        try:
            nleaves = len(_qleaves(*_split_base(base(Gen(_r.Random(0), (dtypes or ("f8",))[0], sh)))))
            break
        except Skip:
            continue
    if nleaves and nleaves >= 2:
        for kth in range(2):
            def bm(g, kth=kth):
                a, k = _split_base(base(g))
                lv = _qleaves(a, k)
                lv[kth][1].bare = True
                return Call(a, k)
            _add(Template("ndarray." + name, f"bare#{kth}", bm, kind="op", tags=set(tags) | {"mixed-bare"}, shapes=shapes,
                          dtypes=dtypes, invoke=lambda a, k: fn(*a, **k)))


# ------------------------------------------------------------------------------------------------ public accessors
_LOADED = False


def _load():
    global _LOADED
    if not _LOADED:
        _LOADED = True
        from vf.gen import c06_cat_reduce, c06_cat_shape, c06_cat_multi, c06_cat_linalg, c06_cat_methods  # noqa: F401


def catalog():
    _load()
    return list(_CATALOG)


def by_tid():
    _load()
    return dict(_BY_TID)


def by_function():
    _load()
    out = {}
    for t in _CATALOG:
        out.setdefault(t.func_name, []).append(t)
    return out


def without_template():
    have = set(by_function())
    canon = {}
    for n, f in wrappable().items():
        canon.setdefault(id(f), []).append(n)
    missing = []
    for names in canon.values():
        if not any(n in have for n in names):
            missing.append(names[0])
    return sorted(missing)


def unexercised_params():
    """{function: [parameters of the run-time signature that no template passes]}; decided by building every template once
    and binding its arguments to inspect.signature of the installed NumPy"""
    import random as _r
    out = {}
    bf = by_function()
    for n, f in wrappable().items():
        ts = bf.get(n)
        if not ts:
            continue
        try:
            sig = inspect.signature(f)
        except (TypeError, ValueError):
            continue
        used = set()
        for t in ts:
            used |= set(t.params) & set(sig.parameters)
            for sh in t.shapes:
                try:
                    c = t.build(Gen(_r.Random(1), (t.dtypes or ("f8",))[0], sh))
                    b = sig.bind_partial(*c.args, **c.kwargs)
                    used |= set(b.arguments)
                    break
                except Skip:
                    continue
                except TypeError:
                    break
        miss = [p.name for p in sig.parameters.values() if p.name not in used and p.kind != p.VAR_KEYWORD]
        if miss:
            out[n] = miss
    return out
