"""C11, third workload: the keyword options of every persistence door.

A persistence door is not one call but a family of calls: savetxt/loadtxt take comments=, delimiter=, header=, footer=, fmt=, usecols=, dtype=,
a str or path-like file name, and files with a single column or a single row; pickle takes a protocol, the C or the pure-Python pickler, fix_imports,
out-of-band buffers and the dumps / dump / Pickler spellings; a registry's JSON text may be re-serialised by any JSON writer before it is read;
to_string/from_string takes unit_registry=; .copy() takes order=, deepcopy a memo.  Every route is driven over that option space at non-default
but legitimate values, the writer and the reader being given the same option.

Judged exactly as the first workload of vf/props/c11.py judges a case (differential, original vs restored: numbers, units, registry table, then a
battery of follow-up operations on both, either order); the bytes are written by one process and restored by another one.  A failing case is re-run
with each of its non-default options put back to its default, one at a time: the options without which the failure disappears name the mechanism key.

Cheap by construction: two forks per batch (writer, reader) instead of five per case, a reduced battery (the operation classes the statement names)
on one column per file.
"""
import base64, copy, io, json, os, pathlib, pickle
import numpy as np
from vf import core

# ----------------------------------------------------------------------------------------------------------------- option spaces
# text door -----------------------------------------------------------------------------------------------------------------------
# (unit, partner unit of the same dimension)
TEXT_UNITS = [("km", "mile"), ("g/cm**3", "kg/m**3"), ("K", "R"), ("degC", "degF"), ("degree", "rad"), ("dB", "Np"), ("dimensionless", "%"),
              ("erg/s", "W"), ("Msun", "kg"), ("%", "dimensionless"), ("kg*m**2/s**2", "erg"), ("arcsec", "degree"), ("delta_degF", "K"),
              ("m**(3/2)/s", "cm**(3/2)/s"), ("Myr", "s"), ("uT", "G")]
TEXT_VALS = [0.0, 1.0, -1.0, 2.5, 90.0, 30.0, -40.0, 98.6, 1e-12, 3.7e-6, 1234.5678, 6.02e11, -7.5e12, 300.0, 0.125, 45.0, 180.0, 0.5,
             1e-300, 1.7976931348623157e308, 0.1, 1.0 / 3.0]
TEXT_SPECIALS = ["nan", "inf", "-inf", "-0.0"]
TEXT_COMMENTS = ["#", "%", ";", "!", "@", "&"]
TEXT_DELIMS = ["\t", ",", " ", ";", "|", ":"]
TEXT_HEADERS = ["", "my data", "two\nlines", "ends with a newline\n", "x,y;z | 100 % of it", "three\n\nlines with an empty one"]
TEXT_FOOTERS = ["", "the end", "two\nfooter lines", "Units"]
TEXT_FMTS = ["%.18e", "%.17g", "%.10e", "%25.16e", "%+.12e", "%-24.17e", "per-column"]
PER_COLUMN_FMTS = ["%.18e", "%.17g", "%.9e", "%+.15e"]
TEXT_DTYPES = ["float", "float64", "np.float64"]
TEXT_FEATURES = ("comments", "delimiter", "header", "footer", "fmt", "usecols", "dtype", "fname", "single-row", "single-column", "bare-column")

# pickle door ---------------------------------------------------------------------------------------------------------------------
PICKLE_PROTOCOLS = [2, 3, 4, 5, -1]          # 0 and 1 are refused by SymPy / copyreg (first workload); None = not passed
PICKLE_FEATURES = ("protocol", "impl", "fix_imports", "buffers", "stream", "layout")
# json door -----------------------------------------------------------------------------------------------------------------------
JSON_TRANSPORTS = {"indent": {"indent": 2}, "sort_keys": {"sort_keys": True}, "ensure_ascii": {"ensure_ascii": False},
                   "separators": {"separators": (",", ":")}, "indent+sort_keys": {"indent": 1, "sort_keys": True}}
JSON_FEATURES = ("transport",)
# string door ---------------------------------------------------------------------------------------------------------------------
STRING_UNITS = [("km", "mile"), ([["g", "1"], ["cm", "-3"]], [["kg", "1"], ["m", "-3"]]), ("K", "R"), ("degree", "rad"), ("dB", "Np"),
                ([["erg", "1"], ["s", "-1"]], "W"), ([["kg", "1"], ["m", "2"], ["s", "-2"]], "erg"),
                ("Msun", "kg"), ("dimensionless", "dimensionless"), ("um", "m"), ("Myr", "s")]
STRING_FEATURES = ("unit_registry",)
# copy door -----------------------------------------------------------------------------------------------------------------------
COPY_FEATURES = ("order", "memo", "deep-keyword", "layout")

FEATURES = {"text": TEXT_FEATURES, "pickle": PICKLE_FEATURES, "json": JSON_FEATURES, "string": STRING_FEATURES, "copy": COPY_FEATURES}
DOORS = tuple(sorted(FEATURES))

# the operation classes the statement names (angle-aware trigonometry, temperature and logarithmic guards, unit-system conversion, conversions),
# arithmetic alone and with a partner, and what is printed
BATTERY_KEYS = {
    "neg", "pow2", "sqrt", "self+self", "self-self", "self*self", "self/self", "trig:sin", "trig:cos", "exp", "diff", "ptp", "sum", "dot-self",
    "add-bare-zero", "system:in_cgs", "system:in_mks", "system:in_base", "system:in_base:imperial", "system:units.get_base_equivalent",
    "to:partner-unit", "to_value:base-string", "to:unit-object-default-registry:partner-unit", "logguard:mul-dB", "logguard:units-pow",
    "units:snapshot", "units:str", "units:is_dimensionless", "units:trig-of-90-units", "units:eq-partner", "str", "repr", "reshape",
    "pickle-again", "binary:add:o,q", "binary:sub:q,o", "binary:mul:o,q", "binary:div:q,o", "binary:eq:o,q", "binary:lt:q,o",
    "binary:concatenate:o,q", "binary:to-other-units:o,q", "binary:iadd:o,q", "lookup:unit_system", "lookup:contains"}


def _P():
    from vf.props import c11
    return c11


def representable(fmt, v):
    """the number survives being printed with this format (Python's own % formatting: what numpy.savetxt applies to every number)"""
    try:
        return float(fmt % v) == v
    except Exception:
        return False


# ----------------------------------------------------------------------------------------------------------------- case generation
def _text_vals(r, n, fmts, specials, dtype):
    if dtype == "int64":
        return [int(r.choice([0, 1, -1, 3, 90, 45, 180, -40, 1234, 300, 7]) ) for _ in range(n)]
    pool = [v for v in TEXT_VALS if all(representable(f, v) for f in fmts)]
    if dtype == "float32":
        with np.errstate(all="ignore"):
            pool = [v for v in pool if float(np.float32(v)) == v] or [1.0, 2.5, 0.5]
    out = [r.choice(pool) for _ in range(n)]
    if specials and dtype == "float64":
        out[r.randrange(n)] = r.choice(TEXT_SPECIALS)
    return out


def text_case(r, opts=None, ncols=None, rows=None, coltype="float64", bare=False, single_form="list", specials=False):
    """opts: explicitly passed options {name: value}; everything not named keeps its default on both sides"""
    opts = dict(opts or {})
    ncols = ncols or r.choice([2, 3, 3, 4])
    rows = rows or r.choice([2, 3, 5])
    if opts.get("usecols") is not None:
        ncols = max(ncols, max(opts["usecols"]["v"]) + 1)
    fmt = opts.get("fmt")
    if fmt == "per-column":
        opts["fmt"] = fmt = [PER_COLUMN_FMTS[(i + rows) % len(PER_COLUMN_FMTS)] for i in range(ncols)]
    fmts_of = lambda i: [fmt[i]] if isinstance(fmt, list) else ([fmt] if fmt else ["%.18e"])
    if coltype == "complex128":       # NumPy cannot read back complex columns separated by blanks (c11 ASSUMPTIONS), nor padded/signed ones
        if opts.get("delimiter") == " ":
            opts["delimiter"] = ","
        if fmt is not None and not isinstance(fmt, list) and fmt not in ("%.18e", "%.17g", "%.10e"):
            opts["fmt"] = "%.17g"
        if isinstance(fmt, list):
            opts.pop("fmt")
        fmt = opts.get("fmt")
    if opts.get("delimiter") == " " and fmt is not None and any(f.startswith(("%2", "%-2")) for f in (fmt if isinstance(fmt, list) else [fmt])):
        opts["delimiter"] = "\t"      # blank-padded numbers cannot be separated by single blanks (NumPy itself cannot read that back)
    if opts.get("comments") is not None and opts.get("comments") == opts.get("delimiter"):
        opts["delimiter"] = ","
    required = {}
    if coltype == "complex128":
        required["dtype"] = "complex"
    elif coltype == "float32":
        required["dtype"] = "float32"
    elif coltype == "int64":
        required["dtype"] = "int"; required["fmt"] = "%d"
        opts.pop("fmt", None)
    if required:
        opts.pop("dtype", None)
    picks = r.sample(TEXT_UNITS, min(ncols, len(TEXT_UNITS)))
    cols = []
    for i, (u, p) in enumerate(picks):
        cols.append({"unit": u, "partner": p, "dtype": coltype,
                     "vals": _text_vals(r, rows, fmts_of(i) if coltype != "int64" else [], specials and i == 0, coltype)})
    barecol = None
    if bare and coltype in ("float64", "int64"):
        barecol = r.randrange(ncols)
        cols[barecol]["unit"] = None; cols[barecol]["partner"] = "dimensionless"
    nd = sorted(k for k in opts)
    if rows == 1:
        nd.append("single-row")
    if ncols == 1:
        nd.append("single-column")
    if barecol is not None:
        nd.append("bare-column")
    return {"door": "text", "cols": cols, "rows": rows, "opts": opts, "required": required, "single_form": single_form if ncols == 1 else "list",
            "nondefault": nd, "coltype": coltype}


def _usecols(form, v):
    return {"form": form, "v": list(v)}


def text_sweep():
    """one option at a time, every value of it (ignores the seed), plus the file shapes"""
    r = core.rng(0, "C11-options-text-sweep")
    out = []
    for c in TEXT_COMMENTS:
        out.append(text_case(r, {"comments": c}))
        out.append(text_case(r, {"comments": c, "header": "my data", "footer": "the end"}, ncols=2))
    for d in TEXT_DELIMS:
        out.append(text_case(r, {"delimiter": d}))
    for h in TEXT_HEADERS:
        out.append(text_case(r, {"header": h}))
    for f in TEXT_FOOTERS:
        out.append(text_case(r, {"footer": f}))
    for f in TEXT_FMTS:
        out.append(text_case(r, {"fmt": f}))
    for uc in (_usecols("tuple", (0,)), _usecols("tuple", (1,)), _usecols("tuple", (0, 2)), _usecols("tuple", (2, 0)), _usecols("list", [1, 2]),
               _usecols("tuple", (1, 1)), _usecols("ndarray", [0, 2]), _usecols("tuple", (3, 1, 0)), _usecols("list", [2])):
        out.append(text_case(r, {"usecols": uc}))
    for d in TEXT_DTYPES:
        out.append(text_case(r, {"dtype": d}))
    out.append(text_case(r, {"fname": "path"}))
    for ct in ("complex128", "float32", "int64"):
        out.append(text_case(r, {}, coltype=ct))
        out.append(text_case(r, {"comments": r.choice(TEXT_COMMENTS[1:]), "delimiter": ","}, coltype=ct))
    # file shapes
    for form in ("list", "array"):
        out.append(text_case(r, {}, ncols=1, single_form=form))
        out.append(text_case(r, {"comments": r.choice(TEXT_COMMENTS)}, ncols=1, single_form=form))
    for nc in (1, 2, 3):
        out.append(text_case(r, {}, ncols=nc, rows=1))
    out.append(text_case(r, {"usecols": _usecols("tuple", (1,))}, ncols=3, rows=1))
    out.append(text_case(r, {"usecols": _usecols("tuple", (2, 0))}, ncols=3, rows=1))
    out.append(text_case(r, {"delimiter": ","}, ncols=2, rows=1))
    out.append(text_case(r, {}, bare=True))
    out.append(text_case(r, {"comments": "%"}, bare=True))
    out.append(text_case(r, {}, specials=True))
    out.append(text_case(r, {"fmt": "%.17g", "delimiter": ","}, specials=True))
    return out


def text_random(r, n):
    out = []
    for _ in range(n):
        opts = {}
        if r.random() < 0.6: opts["comments"] = r.choice(TEXT_COMMENTS)
        if r.random() < 0.5: opts["delimiter"] = r.choice(TEXT_DELIMS)
        if r.random() < 0.5: opts["header"] = r.choice(TEXT_HEADERS)
        if r.random() < 0.4: opts["footer"] = r.choice(TEXT_FOOTERS)
        if r.random() < 0.4: opts["fmt"] = r.choice(TEXT_FMTS)
        if r.random() < 0.3: opts["dtype"] = r.choice(TEXT_DTYPES)
        if r.random() < 0.2: opts["fname"] = "path"
        ncols = r.choice([1, 2, 3, 3, 4])
        if r.random() < 0.35 and ncols > 1:
            k = r.randint(1, ncols)
            opts["usecols"] = _usecols(r.choice(["tuple", "list", "ndarray"]), [r.randrange(ncols) for _ in range(k)])
        out.append(text_case(r, opts, ncols=ncols, rows=r.choice([1, 2, 3, 3, 5, 8]),
                             coltype=r.choice(["float64"] * 6 + ["complex128", "float32", "int64"]), bare=r.random() < 0.15,
                             single_form=r.choice(["list", "array"]), specials=r.random() < 0.2))
    return out


def _obj_case(r, door, kind, regkind, unit, partner, opts, nondefault, dtype=None, shape=None, layout=None):
    P = _P()
    spec = unit if isinstance(unit, list) else [[unit, "1"]]
    pspec = partner if isinstance(partner, list) else [[partner, "1"]]
    c = P.mk_case(r, kind, door, regkind, spec, pspec, "options", dtype=dtype, shape=shape)
    if layout:
        c["shape"] = [2, 3]
        n = 6
        c["vals"] = [r.choice(P.VALS) for _ in range(n)]; c["pvals"] = [r.choice(P.VALS[1:]) for _ in range(n)]
    c["named"] = False
    c.update({"door": door, "opts": opts, "nondefault": sorted(nondefault), "layout": layout, "equivs": []})
    return c


OBJ_UNITS = {"default": [("km", "mile"), ("degree", "rad"), ("degC", "degF"), ("dB", "Np"), ("K", "R"), ("g", "Msun"), ("erg", "J"), ("dimensionless", "%"),
                         ([["g", "1"], ["cm", "-3"]], [["kg", "1"], ["m", "-3"]]), ([["m", "3/2"], ["s", "-1"]], [["cm", "3/2"], ["s", "-1"]])],
             "custom": [("code_length", "foo"), ("kfoo", "km"), ("degX", "K"), ("turnish", "degree"), ("bel2", "dB"), ("code_mass", "kg"),
                        ([["code_length", "1"], ["code_time", "-1"]], [["km", "1"], ["s", "-1"]])],
             "custom-mod": [("mile", "km"), ("Msun", "code_mass"), ("kpc", "pc")],
             "nodefaults": [("code_length", "m"), ("g", "code_mass"), ("s", "code_time")]}


def pickle_cases(r, n, sweep):
    out = []
    combos = []
    if sweep:
        for p in PICKLE_PROTOCOLS:
            combos.append({"protocol": p})
        combos += [{"impl": "py"}, {"fix_imports": False}, {"protocol": 5, "buffers": True}, {"protocol": -1, "buffers": True}, {"stream": "dump"},
                   {"stream": "Pickler"}, {"impl": "py", "protocol": 5, "buffers": True}, {"impl": "py", "stream": "Pickler", "protocol": 2},
                   {"protocol": 5, "buffers": True, "layout": "F"}, {"layout": "F"}, {"layout": "strided"}, {"protocol": 2, "layout": "strided"},
                   {"impl": "py", "fix_imports": False, "protocol": 3}]
    while len(combos) < n:
        o = {}
        if r.random() < 0.7: o["protocol"] = r.choice(PICKLE_PROTOCOLS)
        if r.random() < 0.4: o["impl"] = "py"
        if r.random() < 0.3: o["fix_imports"] = False
        if o.get("protocol") in (5, -1) and r.random() < 0.6: o["buffers"] = True
        if r.random() < 0.4: o["stream"] = r.choice(["dump", "Pickler"])
        if r.random() < 0.3: o["layout"] = r.choice(["F", "strided"])
        if o:
            combos.append(o)
    for i, o in enumerate(combos):
        o = dict(o)
        kind = ("array", "array", "unit", "registry", "array")[i % 5] if "layout" not in o else "array"
        regkind = ("default", "custom", "default", "custom", "custom-mod")[(i // 2) % 5]
        unit, partner = r.choice(OBJ_UNITS[regkind])
        layout = o.pop("layout", None)
        nd = list(o) + (["layout"] if layout else [])
        out.append(_obj_case(r, "pickle", kind, regkind, unit, partner, o, nd, layout=layout,
                             dtype=r.choice(["float64", "float64", "float32", "int64", "complex128"]),
                             shape=r.choice([[], [3], [2, 2], [4]]) if not layout else None))
    return out


def json_cases(r, n, sweep):
    out = []
    names = sorted(JSON_TRANSPORTS)
    picks = list(names) if sweep else []
    while len(picks) < n:
        picks.append(r.choice(names))
    for i, t in enumerate(picks):
        regkind = ("custom", "custom-mod")[i % 2]     # (registries built without / with removed defaults, cgs-based: listed findings of the json route itself)
        unit, partner = r.choice(OBJ_UNITS[regkind])
        out.append(_obj_case(r, "json", "registry", regkind, unit, partner, {"transport": t}, ["transport"], dtype="float64", shape=r.choice([[], [3]])))
    return out


def string_cases(r, n, sweep):
    out = []
    picks = [("default", "omitted-arg-None"), ("default", "default-registry"), ("custom", "own-registry")] if sweep else []
    while len(picks) < n:
        picks.append(r.choice([("default", "omitted-arg-None"), ("default", "default-registry"), ("custom", "own-registry"), ("custom-mod", "own-registry")]))
    for i, (regkind, how) in enumerate(picks):
        if regkind == "default":
            unit, partner = r.choice(STRING_UNITS)
        else:
            unit, partner = r.choice([u for u in OBJ_UNITS[regkind] if not isinstance(u[0], list)])
        out.append(_obj_case(r, "string", "array", regkind, unit, partner, {"unit_registry": how}, ["unit_registry"],
                             dtype="float64" if sweep and i < 3 else r.choice(["float64", "float64", "int64"]), shape=[]))
    return out


def copy_cases(r, n, sweep):
    out = []
    combos = []
    if sweep:
        combos = [{"order": o} for o in "CFAK"] + [{"order": o, "layout": "F"} for o in "CFAK"] + [{"order": "K", "layout": "strided"},
                  {"memo": True}, {"memo": True, "layout": "F"}, {"deep-keyword": True}, {"deep-keyword": False}]
    while len(combos) < n:
        combos.append(r.choice([{"order": r.choice("CFAK"), "layout": r.choice([None, "F", "strided"])}, {"memo": True, "layout": r.choice([None, "F"])},
                                {"deep-keyword": r.choice([True, False])}]))
    for i, o in enumerate(combos):
        o = {k: v for k, v in o.items() if v is not None}
        layout = o.pop("layout", None)
        kind = "unit" if "deep-keyword" in o else ("array" if ("order" in o or layout) else ("array", "unit", "registry")[i % 3])
        regkind = ("default", "custom", "custom-mod")[i % 3]
        unit, partner = r.choice(OBJ_UNITS[regkind])
        nd = list(o) + (["layout"] if layout else [])
        out.append(_obj_case(r, "copy", kind, regkind, unit, partner, o, nd, layout=layout, dtype=r.choice(["float64", "float64", "float32", "int64"]),
                             shape=r.choice([[3], [2, 2], [4]]) if not layout else None))
    return out


def gen_cases(tier, seed, part, nparts):
    """the cases of one batch: part k of the enumerated sweep (seed-independent) plus its own random combinations"""
    r0 = core.rng(0, "C11-options-sweep")
    sweep = text_sweep() + pickle_cases(r0, 0, True) + json_cases(r0, 0, True) + string_cases(r0, 0, True) + copy_cases(r0, 0, True)
    mine = sweep[part::nparts]
    r = core.rng(seed, "C11-options-random", part)
    k = 1 if tier == "quick" else 3
    mine += text_random(r, 11 * k) + pickle_cases(r, 3 * k, False) + json_cases(r, 1 * k, False) + string_cases(r, 2 * k, False) + copy_cases(r, 2 * k, False)
    for i, c in enumerate(mine):
        c["id"] = i
    return mine


def batches(tier, seed):
    n = 8        # thorough: the same sweep, three times the random combinations per batch
    return [("options/%d" % i, {"ogen": [tier, seed, i, n]}) for i in range(n)]


# ----------------------------------------------------------------------------------------------------------------- building, writing, reading
def _text_build(unyt, case):
    """-> (columns as handed to savetxt, partner arrays)"""
    P = _P()
    cols, partners = [], []
    for c in case["cols"]:
        vals = [float(v) if isinstance(v, str) else v for v in c["vals"]]
        dt = np.dtype(c["dtype"])
        a = np.array(vals, dtype=dt)
        if dt.kind == "c":
            a = a + 1j * np.array(vals[::-1], dtype=float) * 0.5
        pa = np.array([abs(float(np.real(v))) % 97.0 + 1.5 if np.isfinite(np.real(v)) else 2.0 for v in a], dtype=float)
        if dt.kind == "c":
            pa = pa.astype(complex)
        partners.append(unyt.unyt_array(pa, c["partner"]))
        cols.append(unyt.unyt_array(a, c["unit"]) if c["unit"] is not None else a)
    return cols, partners


def _text_kwargs(case):
    o = dict(case["opts"]); o.update(case["required"])
    w, rd = {}, {}
    for k in ("comments", "delimiter"):
        if k in o:
            w[k] = o[k]; rd[k] = o[k]
    for k in ("header", "footer", "fmt"):
        if k in o:
            w[k] = o[k]
    if "usecols" in o:
        v = o["usecols"]["v"]
        rd["usecols"] = {"tuple": tuple(v), "list": list(v), "ndarray": np.array(v)}[o["usecols"]["form"]]
    if "dtype" in o:
        rd["dtype"] = np.float64 if o["dtype"] == "np.float64" else o["dtype"]
    return w, rd


def _text_write(unyt, case, fn):
    cols, _ = _text_build(unyt, case)
    w, _ = _text_kwargs(case)
    target = pathlib.Path(fn) if case["opts"].get("fname") == "path" else fn
    unyt.savetxt(target, cols[0] if case["single_form"] == "array" else cols, **w)


def _text_read(unyt, case, fn):
    _, rd = _text_kwargs(case)
    target = pathlib.Path(fn) if case["opts"].get("fname") == "path" else fn
    return unyt.loadtxt(target, **rd)


def _layout(a, layout):
    if layout == "F":
        return np.asfortranarray(a)
    if layout == "strided":
        big = np.zeros((a.shape[0] * 2, a.shape[1] * 2), dtype=a.dtype)
        big[::2, ::2] = a
        return big[::2, ::2]
    return a


def _obj_build(unyt, case):
    P = _P()
    b = P.build(unyt, case)
    if case.get("layout") and case["kind"] == "array":
        b.x = type(b.x)(_layout(np.array(b.x.d), case["layout"]), b.x.units)
        b.X = b.x
    return b


def _pickle_write(case, X):
    o = case["opts"]
    kw = {}
    if "protocol" in o: kw["protocol"] = o["protocol"]
    if "fix_imports" in o: kw["fix_imports"] = o["fix_imports"]
    bufs = []
    if o.get("buffers"): kw["buffer_callback"] = bufs.append
    py = o.get("impl") == "py"
    stream = o.get("stream", "dumps")
    if stream == "dumps":
        data = (pickle._dumps if py else pickle.dumps)(X, **kw)
    else:
        f = io.BytesIO()
        if stream == "dump":
            (pickle._dump if py else pickle.dump)(X, f, **kw)
        else:
            (pickle._Pickler if py else pickle.Pickler)(f, **kw).dump(X)
        data = f.getvalue()
    return {"data": base64.b64encode(data).decode(), "buffers": [base64.b64encode(memoryview(b).tobytes()).decode() for b in bufs]}


def _pickle_read(case, blob):
    o = case["opts"]
    data = base64.b64decode(blob["data"])
    kw = {}
    if "fix_imports" in o: kw["fix_imports"] = o["fix_imports"]
    if o.get("buffers"): kw["buffers"] = [base64.b64decode(b) for b in blob["buffers"]]
    py = o.get("impl") == "py"
    stream = o.get("stream", "dumps")
    if stream == "dumps":
        return (pickle._loads if py else pickle.loads)(data, **kw)
    f = io.BytesIO(data)
    if stream == "dump":
        return (pickle._load if py else pickle.load)(f, **kw)
    return (pickle._Unpickler if py else pickle.Unpickler)(f, **kw).load()


def write(unyt, case, tmpdir, tag):
    """-> JSON-able blob (None for the in-process door)"""
    door = case["door"]
    if door == "text":
        fn = os.path.join(tmpdir, "c11opt_%s_%d.txt" % (tag, case["id"]))
        _text_write(unyt, case, fn)
        return fn
    if door == "copy":
        return None
    b = _obj_build(unyt, case)
    if door == "pickle":
        return _pickle_write(case, b.X)
    if door == "json":
        text = b.X.to_json()
        if "transport" not in case["opts"]:
            return text
        return json.dumps(json.loads(text), **JSON_TRANSPORTS[case["opts"]["transport"]])      # any JSON writer may have stored the document
    if door == "string":
        return b.X.to_string()
    raise RuntimeError("unknown door " + door)


def read(unyt, case, blob, b):
    door = case["door"]
    if door == "pickle":
        return _pickle_read(case, blob)
    if door == "json":
        return unyt.UnitRegistry.from_json(blob)
    if door == "string":
        how = case["opts"].get("unit_registry")
        if how is None:
            return unyt.unyt_quantity.from_string(blob)
        if how == "omitted-arg-None":
            return unyt.unyt_quantity.from_string(blob) if case["id"] % 2 else unyt.unyt_quantity.from_string(blob, unit_registry=None)
        reg = unyt.unit_registry.default_unit_registry if how == "default-registry" else b.X.units.registry
        return unyt.unyt_quantity.from_string(blob, unit_registry=reg)
    if door == "copy":
        o = case["opts"]
        if "order" in o:
            return b.X.copy(order=o["order"])
        if "memo" in o:
            return copy.deepcopy(b.X, {})
        if "deep-keyword" in o:
            return b.X.copy(deep=o["deep-keyword"])
        if case.get("was") == "memo":
            return copy.deepcopy(b.X)
        return b.X.copy()
    raise RuntimeError("unknown door " + door)


# ----------------------------------------------------------------------------------------------------------------- judging (inside the reader child)
def _reduced_battery(unyt, pcase, o, q):
    P = _P()
    f0 = (P._fingerprint(o), P._fingerprint(q))
    out = [[k, P.outcome(f)] for k, f in P.battery(unyt, pcase, o, q, "opt") if k in BATTERY_KEYS]
    if (P._fingerprint(o), P._fingerprint(q)) != f0:
        raise RuntimeError("harness: the reduced battery changed one of its operands")
    return out


def _compare(unyt, pcase, ox, qx, orr, qr, r_first, exact):
    """-> (n evaluated, [(op, kind, text)])"""
    P = _P()
    if r_first:
        vr = _reduced_battery(unyt, pcase, orr, qr); vx = _reduced_battery(unyt, pcase, ox, qx)
    else:
        vx = _reduced_battery(unyt, pcase, ox, qx); vr = _reduced_battery(unyt, pcase, orr, qr)
    bad = []
    show = lambda o_: json.dumps({k: v for k, v in o_.items() if k != "dt"})[:200]
    for (k, a), (k2, c) in zip(vx, vr):
        d = P.differ(a, c, exact)
        if d:
            bad.append((P.opgroup(k), d, f"follow-up {k} on the original gives {show(a)}, on the restored object {show(c)}"))
    return len(vx), bad


def _text_immediate(unyt, case, cols, got):
    """numbers, units and registry of every column read back -> (n evaluated, violations, pairs [(original column as array, restored)])"""
    P = _P()
    o = dict(case["opts"]); o.update(case["required"])
    sel = o["usecols"]["v"] if "usecols" in o else list(range(len(cols)))
    want_dt = {"float32": "float32", "complex": "complex128", "int": "int64"}.get(o.get("dtype"), "float64")
    viol, pairs = [], []
    n = 1
    if len(sel) == 1:
        if not isinstance(got, unyt.unyt_array):
            return n, [("immediate:class", "class", f"one column asked for, {type(got).__name__} came back")], []
        got = (got,)
    elif not isinstance(got, tuple) or len(got) != len(sel):
        ln = len(got) if isinstance(got, tuple) else f"one {type(got).__name__} of shape {getattr(got, 'shape', None)} in {getattr(got, 'units', None)}"
        return n, [("immediate:columns", "count", f"{len(sel)} columns asked for, came back: {ln}")], []
    dreg = unyt.unit_registry.default_unit_registry
    for j, (ci, R) in enumerate(zip(sel, got)):
        X = cols[ci]
        n += 3
        if not isinstance(R, unyt.unyt_array):
            viol.append(("immediate:class", "class", f"column {ci} came back as {type(R).__name__}")); continue
        xa, ra = np.asarray(X), np.asarray(R.d)
        if str(ra.dtype) != want_dt:
            viol.append(("immediate:numbers", "dtype", f"column {ci}: dtype {ra.dtype}, {want_dt} expected"))
        if xa.shape != ra.shape:
            viol.append(("immediate:numbers", "shape", f"column {ci}: shape {xa.shape} -> {ra.shape}"))
        elif not np.array_equal(xa.astype(complex), ra.astype(complex), equal_nan=True) or not np.array_equal(np.signbit(xa.real), np.signbit(ra.real)):
            viol.append(("immediate:numbers", "value", f"column {ci}: {xa.tolist()} -> {ra.tolist()}"))
        if hasattr(X, "units"):
            a, c = P.normunit(X.units), P.normunit(R.units)
            if a["s"] != c["s"]:
                viol.append(("immediate:units", "unit-expression", f"column {ci}: written in {a['s']}, read back in {c['s']}"))
            elif a["dim"] != c["dim"]:
                viol.append(("immediate:units", "dimensions", f"column {ci} {a['s']}: {a['dim']} -> {c['dim']}"))
            elif a["bv"] != c["bv"] or a["bo"] != c["bo"]:
                viol.append(("immediate:units", "scale", f"column {ci} {a['s']}: scale/offset {a['bv']}/{a['bo']} -> {c['bv']}/{c['bo']}"))
            if R.units.registry.lut is not X.units.registry.lut:       # both are expected to live in the default registry: same table object
                iv, _, _ = P.immediate(unyt, {"kind": "array", "route": "text"}, _B(X), R, None)
                viol += [v for v in iv if v[0] in ("immediate:lut", "immediate:registry.unit_system")]
        else:        # a bare column is written as dimensionless
            c = P.normunit(R.units)
            if c["dim"] != P.dims.show(P.dims.ZERO) or c["bv"] != 1.0 or c["bo"] != 0.0:
                viol.append(("immediate:units", "bare-column-not-dimensionless", f"bare column {ci} read back in {c['s']}"))
            if R.units.registry.lut is not dreg.lut:
                viol.append(("immediate:lut", "not-the-default-registry", f"bare column {ci}"))
        pairs.append((ci, X, R))
    return n, viol, pairs


class _B:
    def __init__(self, X):
        self.X = X


def _judge_text(unyt, case, fn, in_process=False, with_battery=True):
    P = _P()
    out = {"imm": [], "beh": [], "n_imm": 0, "n_beh": 0}
    cols, partners = _text_build(unyt, case)
    try:
        if in_process:
            _text_write(unyt, case, fn)
    except Exception as e:
        out["write_refused"] = type(e).__name__; return out
    try:
        got = _text_read(unyt, case, fn)
    except Exception as e:
        out["load_refused"] = type(e).__name__; out["msg"] = str(e)[:200]; return out
    n, viol, pairs = _text_immediate(unyt, case, cols, got)
    out["n_imm"], out["imm"] = n, viol
    judged = [p for p in pairs if hasattr(p[1], "units") and case["coltype"] in ("float64", "complex128")]
    if with_battery and judged and not viol:
        ci, X, R = judged[case["id"] % len(judged)]
        q = partners[ci]
        pcase = {"targets": [case["cols"][ci]["partner"], P.base_string(P.dims.of_expr(X.units.dimensions))], "equivs": []}
        out["n_beh"], out["beh"] = _compare(unyt, pcase, X, q, R, q, case["id"] % 2 == 1, False)
    return out


def _judge_obj(unyt, case, blob, in_process=False, with_battery=True):
    P = _P()
    out = {"imm": [], "beh": [], "n_imm": 0, "n_beh": 0}
    b = _obj_build(unyt, case)
    if in_process and case["door"] != "copy":
        try:
            blob = write(unyt, case, None, "v")
        except Exception as e:
            out["write_refused"] = type(e).__name__; return out
    try:
        R = read(unyt, case, blob, b)
    except Exception as e:
        if case["door"] == "string" and isinstance(e, ValueError) and "invalid quantity expression" in str(e):
            out["not_in_grammar"] = True; return out
        out["load_refused"] = type(e).__name__; out["msg"] = str(e)[:200]; return out
    route = {"pickle": "pickle", "json": "json", "string": "text", "copy": "deepcopy"}[case["door"]]
    iv, notes, exact = P.immediate(unyt, {"kind": case["kind"], "route": route}, b, R, None)
    if case["door"] == "copy" and case["kind"] == "array" and "order" in case["opts"]:       # what order= promises: the memory layout of the copy
        xa, ra = np.asarray(b.X.d), np.asarray(R.d)
        o = case["opts"]["order"]
        want_f = {"C": xa.ndim < 2, "F": True, "A": xa.flags["F_CONTIGUOUS"] and not xa.flags["C_CONTIGUOUS"] or xa.ndim < 2, "K": None}[o]
        want_c = {"C": True, "F": xa.ndim < 2, "A": not (xa.flags["F_CONTIGUOUS"] and not xa.flags["C_CONTIGUOUS"]) or xa.ndim < 2, "K": None}[o]
        if (want_f is not None and bool(ra.flags["F_CONTIGUOUS"]) != bool(want_f)) or (want_c is not None and bool(ra.flags["C_CONTIGUOUS"]) != bool(want_c)):
            out["notes"] = ["copy-order-layout-not-as-asked:" + o]       # layout is outside the statement (numbers, units, behaviour): noted only
    out["n_imm"], out["imm"] = 5, [list(v) for v in iv]
    out["attrib"] = sorted(n_[7:] for n_ in notes if n_.startswith("ATTRIB:"))
    if with_battery and not iv and (case["door"] != "string" or case["dtype"] == "float64"):
        ox = P.derive(unyt, case, b.X, b); orr = P.derive(unyt, case, R, b)
        out["n_beh"], out["beh"] = _compare(unyt, case, ox, b.p, orr, b.p, case["id"] % 2 == 1, exact)
    return out


def judge_one(unyt, case, blob, tmpdir, in_process=False, with_battery=True):
    if case["door"] == "text":
        fn = blob if not in_process else os.path.join(tmpdir, "c11opt_v_%d_%d.txt" % (os.getpid(), case["id"]))
        try:
            return _judge_text(unyt, case, fn, in_process, with_battery)
        finally:
            if in_process:
                try:
                    os.unlink(fn)
                except OSError:
                    pass
    return _judge_obj(unyt, case, blob, in_process, with_battery)


def signature(res):
    s = {(op, k) for (op, k, _) in res.get("imm", [])} | {(op, k) for (op, k, _) in res.get("beh", [])}
    if "load_refused" in res:
        s.add(("restore", "refused:" + res["load_refused"]))
    return s


def reset_feature(case, f):
    """the same case with one non-default feature put back to its default; None when that is not a legitimate case"""
    c = copy.deepcopy(case)
    c["nondefault"] = [x for x in c["nondefault"] if x != f]
    if case["door"] == "text":
        if f == "single-row":
            c["rows"] = 3
            for col in c["cols"]:
                v0 = col["vals"][0]
                col["vals"] = [v0, 2.0 if col["dtype"] != "int64" else 2, 0.5 if col["dtype"] != "int64" else 5]
        elif f == "single-column":
            c["cols"].append(dict(c["cols"][0], unit="s", partner="Myr"))
            c["single_form"] = "list"
            if isinstance(c["opts"].get("fmt"), list):
                c["opts"]["fmt"] = c["opts"]["fmt"] + ["%.18e"]
        elif f == "bare-column":
            for col in c["cols"]:
                if col["unit"] is None:
                    col["unit"] = "dimensionless"
        else:
            c["opts"].pop(f, None)
        return c
    if f == "layout":
        c["layout"] = None
        return c
    if case["door"] == "pickle":
        c["opts"].pop(f, None)
        if f == "protocol" and c["opts"].get("buffers"):
            return None
        return c
    c["opts"].pop(f, None)
    c["was"] = f
    if case["door"] == "string" and case["reg"] != "default":
        return None       # without unit_registry= the string is read in the default registry, which does not know the writer's symbols
    return c


def attribute(unyt, case, res, tmpdir):
    """the non-default features of a failing case without which it does not fail at all (each one put back to its default in turn, the rest kept)
    -> 'f1+f2' | 'any-options' (it still fails, possibly in another way, whichever single feature is reset)"""
    sig = signature(res)
    beh = any(not op.startswith(("immediate", "restore")) for op, _ in sig)
    need = []
    for f in case["nondefault"]:
        v = reset_feature(case, f)
        if v is None:
            continue          # cannot be reset separately: part of what the case is
        try:
            vres = judge_one(unyt, v, None, tmpdir, in_process=True, with_battery=beh)
            passes = not signature(vres) and "write_refused" not in vres
        except Exception:
            passes = False
        if passes:
            need.append(f)
    return "+".join(sorted(need)) if need else "any-options"


# ----------------------------------------------------------------------------------------------------------------- the two grandchildren and the worker
def writer_main(cases, tmpdir):
    import warnings
    warnings.simplefilter("ignore")
    import unyt
    out = {}
    for c in cases:
        try:
            out[str(c["id"])] = {"blob": write(unyt, c, tmpdir, "w")}
        except Exception as e:
            out[str(c["id"])] = {"write_refused": type(e).__name__, "msg": str(e)[:200]}
    return out


def reader_main(cases, blobs, tmpdir):
    import warnings
    warnings.simplefilter("ignore")
    import unyt
    out = {}
    budget = 400      # attributions per batch (only failing cases cost anything; beyond this the key says not-attributed)
    cache = {}
    for c in cases:
        w = blobs[str(c["id"])]
        if "write_refused" in w:
            out[str(c["id"])] = w; continue
        res = judge_one(unyt, c, w["blob"], tmpdir)
        sig = signature(res)
        if sig:
            ck = (c["door"], tuple(c["nondefault"]), tuple(sorted(sig)))
            if ck not in cache and budget > 0:
                budget -= 1
                cache[ck] = attribute(unyt, c, res, tmpdir)
            res["culprit"] = cache.get(ck, "not-attributed")
        out[str(c["id"])] = res
    return out


def describe(case):
    if case["door"] == "text":
        return {"door": "text", "options": case["opts"], "required": case["required"], "rows": case["rows"], "single_form": case["single_form"],
                "columns": [[c["unit"], c["dtype"], c["vals"]] for c in case["cols"]]}
    P = _P()
    return {"door": case["door"], "options": case["opts"], "layout": case.get("layout"), "kind": case["kind"], "registry": case["reg"],
            "unit": P.spec_string(case["spec"]), "dtype": case["dtype"], "shape": case["shape"], "vals": case["vals"]}


DOOR_KEY = {"text": "text:array", "pickle": "pickle", "json": "json:registry", "string": "to_string-from_string:quantity", "copy": "copy"}


def run_batch(rec, payload, tmpdir):
    P = _P()
    cases = gen_cases(*payload["ogen"])
    w = P.fork_call(lambda: writer_main(cases, tmpdir), timeout=600.0)
    rec.count("forks:options-writer")
    if "harness_error" in w:
        raise RuntimeError("harness error in the options writer: " + w["harness_error"])
    if w.get("watchdog"):
        rec.count("inconclusive-cases:watchdog", len(cases)); return
    res = P.fork_call(lambda: reader_main(cases, w, tmpdir), timeout=900.0)
    rec.count("forks:options-reader")
    if "harness_error" in res:
        raise RuntimeError("harness error in the options reader: " + res["harness_error"])
    if res.get("watchdog"):
        rec.count("inconclusive-cases:watchdog", len(cases)); return
    for c in cases:
        door = c["door"]
        r_ = res[str(c["id"])]
        rec.count("options:cases:" + door)
        ident = describe(c)
        kind = "" if door in ("text", "json", "string") else ":" + c["kind"]
        pre = f"C11:{DOOR_KEY[door]}{kind}:options"
        if "write_refused" in r_:
            rec.note(f"options:route-refused-to-write:{door}:{r_['write_refused']}"); rec.count("options:write-refusals:" + door); continue
        if r_.get("not_in_grammar"):
            rec.note("options:to_string-not-in-the-grammar-of-from_string"); continue
        for f in c["nondefault"]:
            rec.count(f"options:feature:{door}:{f}")
        if not c["nondefault"]:
            rec.count(f"options:all-default:{door}")
        for n_ in r_.get("notes", []):
            rec.note("options:" + n_)
        cul = r_.get("culprit", "not-attributed")
        if "load_refused" in r_:
            k = "refused:" + r_["load_refused"]
            rec.violation(f"{pre}:{cul}:restore:{k}",
                          f"{door} door with options {c['opts']} (non-default: {c['nondefault']}): written, but reading it back raised {r_['load_refused']}: {r_.get('msg')}", ident)
            rec.count("options:immediate:" + door)
            continue
        seen = set()
        for (op, k, text) in r_["imm"]:
            if (op, k) in seen:
                continue
            seen.add((op, k))
            rec.violation(f"{pre}:{cul}:{op}:{k}",
                          f"{door} door with options {c['opts']} (non-default: {c['nondefault']}; the failure needs: {cul}): {text}", ident)
        if r_["n_imm"]:
            rec.count("options:immediate:" + door, r_["n_imm"])
            rec.ok(("options", door, "+".join(c["nondefault"]) or "defaults", "immediate"), max(0, r_["n_imm"] - len(seen)))
        bad = set()
        for (op, k, text) in r_["beh"]:
            if (op, k) in bad:
                continue
            bad.add((op, k))
            attrib = r_.get("attrib") or []
            if attrib:
                rec.violation(f"{pre}:{cul}:behaviour-differs:{attrib[0]}",
                              f"{door} door with options {c['opts']}: {text} [first diverging operation class: {op}]", ident)
            else:
                rec.violation(f"{pre}:{cul}:{op}:{k}", f"{door} door with options {c['opts']} (non-default: {c['nondefault']}): {text}", ident)
        if r_["n_beh"]:
            rec.count("options:behavioural:" + door, r_["n_beh"])
            rec.ok(("options", door, "+".join(c["nondefault"]) or "defaults", "behavioural"), max(0, r_["n_beh"] - len(bad)))
        rec.reach("options:" + door)
        rec.sample({"options-case": ident}, limit=1)


def gate(counters):
    """-> (evidence dict, list of sub-monitors that saw nothing)"""
    ev, blind = {}, []
    for door in DOORS:
        d = {"cases": counters.get("options:cases:" + door, 0), "immediate": counters.get("options:immediate:" + door, 0),
             "behavioural": counters.get("options:behavioural:" + door, 0), "write_refusals": counters.get("options:write-refusals:" + door, 0),
             "non_default": {f: counters.get(f"options:feature:{door}:{f}", 0) for f in FEATURES[door]}}
        ev[door] = d
        if d["immediate"] == 0 or d["behavioural"] == 0:
            blind.append("options:" + door)
        blind += [f"options:{door}:{f}" for f, n in d["non_default"].items() if n == 0]
    return ev, blind
