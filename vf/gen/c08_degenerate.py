"""C08 workload: degenerate shapes of the 'must refuse' matrix.

Multiplicative reductions / cumulative products over 0, 1, 2, 3 (thorough: up to 5) readings along the reduced axis, for every
axis form (omitted, int, negative int, 1-tuple, multi-axis tuple, None), keepdims, out= kinds and `initial=`; powers by exponents that are
(or are computed to) 0 or 1 in every exponent type and call form; products of length-1 / 1x1 operands.

A *plan* is plain data; `run_*` performs the call on objects the judge built. The generator contains no expectation about
the outcome except the number of readings NumPy combines per result element (`nred`, read off the shape, never from unyt).
"""
import itertools
from fractions import Fraction
import numpy as np

POOL = [12.5, 40.0, -3.0, 71.25, 5.0, 18.0, -7.5, 2.25, 36.6, 451.0, -40.0, 0.5, 9.0, 3.0, 64.0, -12.0, 1.5, 8.0, 27.0, 100.0,
        6.0, -2.0, 4.0, 11.0, 13.0]
IPOOL = [12, 40, -3, 71, 5, 18, -7, 2, 36, 451, -40, 1, 9, 3, 64, -12, 15, 8, 27, 100, 6, -2, 4, 11, 13]

REDUCE_OPS = ("np.multiply.reduce", "np.divide.reduce", "np.prod", "method.prod", "np.nanprod", "np.floor_divide.reduce")
CUMULATIVE_OPS = ("np.cumprod", "method.cumprod", "np.nancumprod", "np.cumulative_prod", "np.multiply.accumulate", "np.divide.accumulate")


def shapes(tier):
    ns = (0, 1, 2, 3) if tier == "quick" else (0, 1, 2, 3, 4, 5)
    out = [()]
    for n in ns:
        out += [(n,), (n, 3), (3, n), (1, n), (n, 1), (2, n, 2)]
        if n in (2, 3):
            out.append((n, n))
    if tier != "quick":
        out += [(1, 1), (1, 1, 1), (2, 1, 3), (0, 0), (1, 0), (0, 1), (2, 2, 2)]
    seen = []
    for s in out:
        if s not in seen:
            seen.append(s)
    return seen


def axis_forms(shape):
    """(form name, kwargs-or-None) ; None kwargs = axis omitted"""
    nd = len(shape)
    forms = [("omitted", "omitted"), ("None", None)]
    for a in range(nd):
        forms.append(("int", a)); forms.append(("negint", a - nd)); forms.append(("tuple1", (a,)))
    if nd >= 2:
        forms.append(("tupleN", tuple(range(nd))))
        forms.append(("tupleN", tuple(range(nd - 1, -1, -1))))
        forms.append(("tupleN", (0, -1)))
    if nd >= 3:
        forms.append(("tupleN", (0, 1))); forms.append(("tupleN", (1, 2))); forms.append(("tupleN", (-1, 1)))
    if nd == 0:
        forms.append(("tuple0", ()))
    return forms


def nred(shape, axis):
    """readings combined per result element (independent of unyt: read off the shape)"""
    nd = len(shape)
    if axis == "omitted":
        axis = 0
    if axis is None:
        axes = tuple(range(nd))
    elif isinstance(axis, tuple):
        axes = axis
    else:
        axes = (axis,)
    if nd == 0:
        return 1
    n = 1
    for a in set(x % nd for x in axes):
        n *= shape[a]
    return n


def raw(shape, dt):
    size = int(np.prod(shape)) if shape else 1
    pool = IPOOL if dt[0] in "iu" else POOL
    vals = [pool[i % len(pool)] for i in range(size)]
    return np.array(vals, dtype=dt).reshape(shape)


def reduce_plans(tier):
    """yield dicts: op, shape, axis form, axis, keepdims, outkind, initial, dtype"""
    dts = ("f8", "i8") if tier == "quick" else ("f8", "f4", "i8", "i4")
    for shape in shapes(tier):
        for (aform, axis) in axis_forms(shape):
            for op in REDUCE_OPS:
                if op in ("np.prod", "method.prod", "np.nanprod") and axis == "omitted":
                    pass   # omitted axis means None for prod: nred differs, handled by nred_for
                for keepdims, outkind, dt in itertools.product((False, True), ("none", "unyt", "ndarray", "unyt-foreign"), dts):
                    if outkind == "unyt-foreign" and (dt != "f8" or tier == "quick" and keepdims):
                        continue
                    for initial in ("absent", 1.0, 2.0):
                        if initial != "absent" and (outkind not in ("none", "unyt") or dt != "f8" or op in ("np.floor_divide.reduce",)):
                            continue
                        yield {"op": op, "shape": shape, "aform": aform, "axis": axis, "keepdims": keepdims, "out": outkind, "initial": initial, "dt": dt}


def nred_for(plan):
    axis = plan["axis"]
    if axis == "omitted" and plan["op"] in ("np.prod", "method.prod", "np.nanprod"):
        axis = None
    return nred(plan["shape"], axis)


def cumulative_plans(tier):
    dts = ("f8", "i8") if tier == "quick" else ("f8", "f4", "i8")
    for shape in shapes(tier):
        nd = len(shape)
        forms = [("omitted", "omitted"), ("None", None)] + [("int", a) for a in range(nd)] + [("negint", a - nd) for a in range(nd)]
        for (aform, axis) in forms:
            for op in CUMULATIVE_OPS:
                for outkind, dt in itertools.product(("none", "unyt", "ndarray"), dts):
                    yield {"op": op, "shape": shape, "aform": aform, "axis": axis, "out": outkind, "dt": dt}


def nacc_for(plan):
    """length of the run of readings that are multiplied up"""
    shape, axis, op = plan["shape"], plan["axis"], plan["op"]
    size = int(np.prod(shape)) if shape else 1
    if op.endswith(".accumulate"):
        if axis == "omitted":
            axis = 0
        if axis is None:
            return size if len(shape) <= 1 else None   # accumulate refuses axis=None on nd data
        return shape[axis] if shape else None
    if axis in ("omitted", None):
        return size
    return shape[axis] if shape else None


def kwargs_of(plan, out):
    kw = {}
    if plan["axis"] != "omitted":
        kw["axis"] = plan["axis"]
    if plan.get("keepdims"):
        kw["keepdims"] = True
    if out is not None:
        kw["out"] = out
    if plan.get("initial", "absent") != "absent":
        kw["initial"] = plan["initial"]
    return kw


def run(op, x, kw):
    if op == "np.multiply.reduce":
        return np.multiply.reduce(x, **kw)
    if op == "np.divide.reduce":
        return np.divide.reduce(x, **kw)
    if op == "np.floor_divide.reduce":
        return np.floor_divide.reduce(x, **kw)
    if op == "np.prod":
        return np.prod(x, **kw)
    if op == "method.prod":
        return x.prod(**kw)
    if op == "np.nanprod":
        return np.nanprod(x, **kw)
    if op == "np.cumprod":
        return np.cumprod(x, **kw)
    if op == "method.cumprod":
        return x.cumprod(**kw)
    if op == "np.nancumprod":
        return np.nancumprod(x, **kw)
    if op == "np.cumulative_prod":
        return np.cumulative_prod(x, **kw)
    if op == "np.multiply.accumulate":
        return np.multiply.accumulate(x, **kw)
    if op == "np.divide.accumulate":
        return np.divide.accumulate(x, **kw)
    raise KeyError(op)


# ---------------------------------------------------------------- powers by exponents that are (computed to) 0 or 1
def exponents(unyt):
    """(name, class, builder(shape) -> exponent). class: 'one' (every element exactly 1), 'zero' (every element exactly 0),
    'ulp' (within one unit in the last place of 1 in the exponent's own float type: float noise of a computed exponent), 'near-one' / 'near-zero'
    (neither: a genuine power, however close), 'mixed' (array of 0s and 1s)"""
    UA, UQ = unyt.unyt_array, unyt.unyt_quantity
    e = [
        ("int0", "zero", lambda s: 0), ("float0", "zero", lambda s: 0.0), ("negzero", "zero", lambda s: -0.0), ("False", "zero", lambda s: False),
        ("np.float64(0)", "zero", lambda s: np.float64(0)), ("np.int64(0)", "zero", lambda s: np.int64(0)), ("np.float32(0)", "zero", lambda s: np.float32(0)),
        ("Fraction(0)", "zero", lambda s: Fraction(0)), ("computed 0.3-0.1*3", "near-zero", lambda s: 0.3 - 0.1 * 3), ("computed 0.5-0.5", "zero", lambda s: 0.5 - 0.5),
        ("0-d array 0", "zero", lambda s: np.array(0.0)), ("array zeros", "zero", lambda s: np.zeros(s)), ("int array zeros", "zero", lambda s: np.zeros(s, dtype="i8")),
        ("list zeros", "zero", lambda s: np.zeros(s).tolist()),
        ("dimensionless quantity 0", "zero", lambda s: UQ(0.0, "")), ("dimensionless array 0", "zero", lambda s: UA(np.zeros(s), "")),
        ("0 percent", "zero", lambda s: UQ(0.0, "percent")),
        ("int1", "one", lambda s: 1), ("float1", "one", lambda s: 1.0), ("True", "one", lambda s: True), ("np.float64(1)", "one", lambda s: np.float64(1)),
        ("np.int64(1)", "one", lambda s: np.int64(1)), ("np.float32(1)", "one", lambda s: np.float32(1)), ("Fraction(1)", "one", lambda s: Fraction(1)),
        ("computed 0.1*10", "one", lambda s: 0.1 * 10), ("computed 3-2", "one", lambda s: 3 - 2), ("computed 1-1e-17", "one", lambda s: 1 - 1e-17),
        ("0-d array 1", "one", lambda s: np.array(1.0)), ("array ones", "one", lambda s: np.ones(s)), ("int array ones", "one", lambda s: np.ones(s, dtype="i8")),
        ("list ones", "one", lambda s: np.ones(s).tolist()),
        ("dimensionless quantity 1", "one", lambda s: UQ(1.0, "")), ("dimensionless array 1", "one", lambda s: UA(np.ones(s), "")),
        ("100 percent", "one", lambda s: UQ(100.0, "percent")),
        ("1+ulp", "ulp", lambda s: 1 + 2.0 ** -52), ("1-ulp", "ulp", lambda s: 1 - 2.0 ** -53), ("computed (0.1+0.2)/0.3", "ulp", lambda s: (0.1 + 0.2) / 0.3),
        ("array 1+ulp", "ulp", lambda s: np.ones(s) * (1 + 2.0 ** -52)), ("float32 1+ulp", "ulp", lambda s: np.float32(1) + np.float32(2.0 ** -23)),
        ("tiny", "near-zero", lambda s: 1e-300), ("subnormal", "near-zero", lambda s: 5e-324), ("1e-17", "near-zero", lambda s: 1e-17), ("-1e-12", "near-zero", lambda s: -1e-12),
        ("1+1e-9", "near-one", lambda s: 1 + 1e-9), ("1-1e-7", "near-one", lambda s: 1 - 1e-7), ("1+1e-12", "near-one", lambda s: 1 + 1e-12),
        ("array 1+1e-9", "near-one", lambda s: np.ones(s) * (1 + 1e-9)), ("1+1e-5", "near-one", lambda s: 1 + 1e-5), ("1-1e-3", "near-one", lambda s: 1 - 1e-3),
        ("Fraction(10**20+1,10**20)", "near-one", lambda s: Fraction(10 ** 20 + 1, 10 ** 20)),
        ("array 0/1 mixed", "mixed", lambda s: (np.arange(int(np.prod(s)) if s else 1).reshape(s) % 2).astype("f8")),
    ]
    return e


POWER_FORMS = ("x**p", "pow(x,p)", "x.__pow__(p)", "np.power(x,p)", "np.float_power(x,p)", "x**=p", "np.power(x,p,out=x)", "np.power(x,p,out=fresh)",
               "np.power(x,p,out=ndarray)", "quantity**p", "np.power(quantity,p)", "0-d array**p")
POWER_SHAPES = ((3,), (1,), (2, 2), (0,))


FORM_CLASS = {"x**p": "operator", "pow(x,p)": "operator", "x.__pow__(p)": "operator", "quantity**p": "operator", "0-d array**p": "operator",
              "np.power(x,p)": "ufunc", "np.float_power(x,p)": "ufunc", "np.power(quantity,p)": "ufunc",
              "x**=p": "target", "np.power(x,p,out=x)": "target", "np.power(x,p,out=fresh)": "target", "np.power(x,p,out=ndarray)": "target"}


def power_call(unyt, form, X, p, u, shape):
    """-> (target or None, base object, zero-argument call). X: raw readings of `shape`"""
    UA, UQ = unyt.unyt_array, unyt.unyt_quantity
    if form in ("quantity**p", "np.power(quantity,p)"):
        q = UQ(float(X.ravel()[0]) if X.size else 25.0, u)
        return None, q, ((lambda: q ** p) if form == "quantity**p" else (lambda: np.power(q, p)))
    if form == "0-d array**p":
        q = UA(np.array(float(X.ravel()[0]) if X.size else 25.0), u)
        return None, q, (lambda: q ** p)
    x = UA(X.copy(), u)
    if form == "x**p":
        return None, x, (lambda: x ** p)
    if form == "pow(x,p)":
        return None, x, (lambda: pow(x, p))
    if form == "x.__pow__(p)":
        return None, x, (lambda: _notimpl(x.__pow__(p)))
    if form == "np.power(x,p)":
        return None, x, (lambda: np.power(x, p))
    if form == "np.float_power(x,p)":
        return None, x, (lambda: np.float_power(x, p))
    if form == "x**=p":
        def f():
            y = x
            y **= p
            return y
        return x, x, f
    if form == "np.power(x,p,out=x)":
        return x, x, (lambda: np.power(x, p, out=x))
    if form == "np.power(x,p,out=fresh)":
        buf = UA(np.full(X.shape, 7.0), u)
        return buf, x, (lambda: np.power(x, p, out=buf))
    if form == "np.power(x,p,out=ndarray)":
        buf = np.full(X.shape, 7.0)
        return buf, x, (lambda: np.power(x, p, out=buf))
    raise KeyError(form)


def _notimpl(r):
    if r is NotImplemented:
        raise TypeError("NotImplemented")
    return r


# ---------------------------------------------------------------- products of degenerate operands (one reading each / 1x1 / 0x0)
def product_ops(unyt, u, dt):
    """(name, class, call). class 'product': two readings are multiplied (or one inverted/squared) -> must refuse;
    'single': the one reading is handed back (unit exponent 1); 'power0': a (matrix) power by exponent 0 -> must refuse;
    'empty': no reading takes part (an empty product or an empty result): recorded"""
    UA = unyt.unyt_array

    def v(n, k=0):
        return UA(raw((n,), dt)[:n] + k, u)

    def m(n):
        return UA(raw((n, n), dt), u)
    ops = [
        ("np.dot(1,1)", "product", lambda: np.dot(v(1), v(1, 1))), ("np.inner(1,1)", "product", lambda: np.inner(v(1), v(1, 1))),
        ("np.vdot(1,1)", "product", lambda: np.vdot(v(1), v(1, 1))), ("np.outer(1,1)", "product", lambda: np.outer(v(1), v(1, 1))),
        ("np.matmul(1,1)", "product", lambda: np.matmul(v(1), v(1, 1))), ("1x1@1x1", "product", lambda: m(1) @ m(1)),
        ("np.kron(1,1)", "product", lambda: np.kron(v(1), v(1, 1))), ("np.tensordot(1,1,axes=0)", "product", lambda: np.tensordot(v(1), v(1, 1), axes=0)),
        ("np.tensordot(1,1,axes=1)", "product", lambda: np.tensordot(v(1), v(1, 1), axes=1)), ("np.einsum(i,i)", "product", lambda: np.einsum("i,i", v(1), v(1, 1))),
        ("np.multiply.outer(1,1)", "product", lambda: np.multiply.outer(v(1), v(1, 1))), ("np.divide.outer(1,1)", "product", lambda: np.divide.outer(v(1), v(1, 1))),
        ("np.linalg.inv(1x1)", "product", lambda: np.linalg.inv(m(1))), ("np.linalg.pinv(1x1)", "product", lambda: np.linalg.pinv(m(1))),
        ("np.linalg.matrix_power(1x1,2)", "product", lambda: np.linalg.matrix_power(m(1), 2)), ("np.linalg.matrix_power(2x2,2)", "product", lambda: np.linalg.matrix_power(m(2), 2)),
        ("np.linalg.matrix_power(2x2,-1)", "product", lambda: np.linalg.matrix_power(m(2), -1)),
        ("np.var(1)", "product", lambda: np.var(v(1))), ("np.square(1)", "product", lambda: np.square(v(1))), ("np.reciprocal(1)", "product", lambda: np.reciprocal(v(1).astype("f8"))),
        ("np.convolve(1,1)", "product", lambda: np.convolve(v(1), v(1, 1))), ("np.correlate(1,1)", "product", lambda: np.correlate(v(1), v(1, 1))),
        ("np.linalg.det(2x2)", "product", lambda: np.linalg.det(m(2))),
        ("np.linalg.det(1x1)", "single", lambda: np.linalg.det(m(1))), ("np.linalg.matrix_power(2x2,1)", "single", lambda: np.linalg.matrix_power(m(2), 1)),
        ("np.linalg.matrix_power(1x1,1)", "single", lambda: np.linalg.matrix_power(m(1), 1)),
        ("np.linalg.det(0x0)", "empty", lambda: np.linalg.det(m(0))), ("np.linalg.matrix_power(A,0)", "power0", lambda: np.linalg.matrix_power(m(2), 0)),
        ("np.linalg.matrix_power(A,0)", "power0", lambda: np.linalg.matrix_power(m(1), 0)),
        ("np.dot(0,0)", "empty", lambda: np.dot(v(0), v(0))), ("np.outer(0,0)", "empty", lambda: np.outer(v(0), v(0))), ("np.linalg.inv(0x0)", "empty", lambda: np.linalg.inv(m(0))),
        ("0x0@0x0", "empty", lambda: m(0) @ m(0)), ("np.var(0)", "empty", lambda: np.var(v(0))), ("empty*empty", "empty", lambda: v(0) * v(0)),
        ("empty/empty", "empty", lambda: v(0) / v(0)), ("empty**2", "empty", lambda: v(0) ** 2), ("np.sqrt(empty)", "empty", lambda: np.sqrt(v(0).astype("f8"))),
    ]
    return ops
