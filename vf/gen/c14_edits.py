"""C14 workload: edit histories on custom registries whose edited symbol has SI-prefixed spellings that are
OTHER documented names.

pool()       every string X such that <SI prefix>+X is a documented name that does not mean 'prefix x X':
             level 'symbol' - the colliding name is a table symbol (t: ft kt nt; c: pc; a: Pa ha; d: cd yd; ...),
             level 'alias'  - the colliding name is a listed spelling only (mp: amp damp; radian: Gradian; ag: dag ...).
             X is classified by what it is in the default name table: 'table' (non-prefixable table symbol the user
             makes prefixable), 'table-prefixable', 'listed' (a listed spelling of something: the user's own symbol is
             shadowed by the parser for the bare name but reachable with a prefix) or 'own' (free for a user's unit).
words(L)     every word of length <= L over the edit alphabet that is executable from the symbol's initial state.
histories()  enumerated (every pool symbol x every word x {judge every step, judge at the end only}) and seeded random
             ones (longer, two edited symbols, look-ups / namespace builds / registry copies interleaved).

Everything here is plain data; the worker in vf/props/c14.py executes and judges it."""
from vf.ref import defs, names

# edit alphabet: E enable prefixes (add again, same value, prefixable=True) / first add of an own prefixable unit;
# A add again with another value (prefixable=True); N add again not prefixable; S modify to the same value;
# M modify to another value; R remove
EDITS = ("E", "A", "N", "S", "M", "R")
EDIT_NAME = {"E": "add-prefixable", "A": "add-prefixable-new-value", "N": "add-not-prefixable", "S": "modify-same-value",
             "M": "modify-new-value", "R": "remove"}
# interleaved non-edit steps of random histories: look up the prefixed spellings of the edited symbol / the colliding
# names / build an add_symbols namespace / use a colliding name in a quantity / continue on a copy of the registry
OTHER = ("Lp", "Lc", "Ln", "Lq", "Cd", "Cp")
OWN_DIMS = ("length", "time", "mass", "temperature", "angle", "energy", "dimensionless")


def _listing():
    from unyt._unit_lookup_table import name_alternatives
    canon = {}
    for key, lst in name_alternatives.items():
        for n in lst:
            canon[n] = key
    return canon


_memo = {}


def canon_of():
    if "canon" not in _memo:
        _memo["canon"] = _listing()
    return _memo["canon"]


def kind_of(x):
    if x in defs.T:
        return "table-prefixable" if defs.T[x].prefixable else "table"
    if x in canon_of():
        return "listed"
    return "own"


def pool():
    """-> list of {"x", "kind", "level", "collide": [names]} sorted; symbol level first"""
    if "pool" in _memo:
        return _memo["pool"]
    canon = canon_of()
    A = names.alias_table()
    sym, ali = {}, {}
    for N in list(defs.T) + sorted(set(canon) - set(defs.T)):
        r = names.resolve(N)
        for p in defs.PREFIX:
            if not (N.startswith(p) and len(N) > len(p)):
                continue
            X = N[len(p):]
            if N not in defs.T:
                # N is the genuine prefixed form of X (or of the symbol X is listed for): no collision
                if r is not None and (r[1] == X or X in A.get(r[1], ()) or canon.get(X) == r[1]):
                    continue
            if not X.isidentifier():
                continue
            (sym if N in defs.T else ali).setdefault(X, []).append(N)
    out = [{"x": x, "kind": kind_of(x), "level": "symbol", "collide": sorted(set(v + ali.get(x, [])))} for x, v in sorted(sym.items())]
    out += [{"x": x, "kind": kind_of(x), "level": "alias", "collide": sorted(set(v))} for x, v in sorted(ali.items()) if x not in sym]
    _memo["pool"] = out
    return out


def valid(word, present):
    for op in word:
        if op in ("S", "M", "R", "N") and not present:
            return False
        present = op != "R"
    return True


def words(maxlen, present):
    out = []
    level = [""]
    for _ in range(maxlen):
        level = [w + op for w in level for op in EDITS if valid(w + op, present)]
        out.extend(level)
    return out


def _own_spec(i, rnd=None):
    """value / dimension a user's own unit is given (enumerated part: fixed, seed independent)"""
    if rnd is None:
        return {"value": [86400.0, 3.5, 31557600.0, 0.3, 1852.0][i % 5], "dim": OWN_DIMS[i % 3]}
    return {"value": float("%.6g" % (10 ** rnd.uniform(-6, 9))), "dim": rnd.choice(OWN_DIMS)}


def enumerated(tier):
    """-> list of histories {"syms": [{x, kind, level, collide, value, dim}], "steps": [[op, i]...], "judge": "every"|"end",
    "ns": bool, "sweep": "focus"|"symbols"|"full"}"""
    P = pool()
    symbol_level = [e for e in P if e["level"] == "symbol"]
    alias_fixed = [e for e in P if e["level"] == "alias" and e["kind"] != "own"]
    maxlen = 3 if tier == "thorough" else 2
    out = []
    k = 0
    for i, e in enumerate(symbol_level + alias_fixed):
        present = e["kind"].startswith("table")
        L = maxlen if e["level"] == "symbol" else maxlen - 1
        s = dict(e, **_own_spec(i))
        for w in words(L, present):
            for judge in ("every", "end"):
                k += 1
                # a namespace is built after the last step of every history of the symbol level; the sweep over all
                # table symbols / all exposed names rotates
                sweep = "full" if k % (6 if tier == "thorough" else 16) == 0 else "symbols"
                out.append({"syms": [s], "steps": [[op, 0] for op in w], "judge": judge, "ns": k % 2 == 0,
                            "sweep": sweep, "system": None, "origin": "enumerated"})
    # the user's unit IS the unprefixed unit of a colliding table symbol (a = are, 100 m**2: 'ha' = hecto-are is the table's
    # hectare; il = inch: 'mil'): value and dimension are taken from the colliding symbol by the worker
    for e in symbol_level:
        if e["kind"].startswith("table"):
            continue
        for N in e["collide"]:
            if N not in defs.T or not N.endswith(e["x"]):
                continue
            s = dict(e, value=None, dim=None, like=[N[:len(N) - len(e["x"])], N])
            for w in words(maxlen, False):
                k += 1
                out.append({"syms": [s], "steps": [[op, 0] for op in w], "judge": "every" if k % 2 else "end", "ns": k % 2 == 0,
                            "sweep": "symbols", "system": None, "origin": "enumerated-equal-value"})
    return out


def random_histories(tier, rnd, n):
    P = pool()
    symbol_level = [e for e in P if e["level"] == "symbol"]
    alias_level = [e for e in P if e["level"] == "alias"]
    controls = [s for s in defs.T if s.isidentifier() and s not in {e["x"] for e in P}]
    out = []
    for h in range(n):
        syms = []
        nsym = 1 if rnd.random() < 0.6 else 2
        while len(syms) < nsym:
            u = rnd.random()
            if u < 0.7:
                e = rnd.choice(symbol_level)
            elif u < 0.9:
                e = rnd.choice(alias_level)
            else:
                x = rnd.choice(controls)     # a symbol without any collision: edits of it must not move anything either
                e = {"x": x, "kind": kind_of(x), "level": "control", "collide": []}
            # two edited symbols must not be readings of each other ('ay' next to a prefixable 'y' is atto-y)
            if any(e["x"].endswith(s["x"]) or s["x"].endswith(e["x"]) or e["x"] in s["collide"] or s["x"] in e["collide"] for s in syms):
                continue
            syms.append(dict(e, **_own_spec(0, rnd)))
        present = [s["kind"].startswith("table") for s in syms]
        steps = []
        length = rnd.randint(3, 12 if tier == "thorough" else 7)
        while len(steps) < length:
            i = rnd.randrange(len(syms))
            if rnd.random() < 0.35:
                steps.append([rnd.choice(OTHER), i])
                continue
            op = rnd.choice(EDITS)
            if not valid(op, present[i]):
                continue
            present[i] = op != "R"
            steps.append([op, i])
        if not any(op in EDITS for op, _ in steps):
            steps.append(["E", 0])
        out.append({"syms": syms, "steps": steps, "judge": rnd.choice(("every", "end", "random")), "ns": rnd.random() < 0.7,
                    "sweep": rnd.choice(("focus", "symbols", "symbols", "symbols", "symbols", "symbols", "symbols", "full")),
                    "system": rnd.choice((None, None, "cgs", "mks", "imperial", "galactic")), "origin": "random",
                    "jseed": rnd.randrange(1 << 30)})
    return out
