"""Exponent generator for C20's near-fraction-power sub-monitor (nf): numbers that are nearly but not exactly simple
fractions, in every form a caller may legitimately hand to `unit ** p`:

  decimal-float        float written with 6-12 decimal digits (truncated, rounded or off by one in the last digit): 0.3333333, 0.66666667
  near-integer-float   1.9999999, 2.0000001, 0.99999999
  numpy-float32/16     np.float32(a/b), np.float16(a/b), np.float32(<decimal text>), np.float16(k/10)
  numpy-longdouble     np.longdouble(a)/b (str has more digits than a double)
  fraction-huge-denominator   fractions.Fraction(n, 10**d), Fraction(a*N +- 1, b*N)
  decimal              decimal.Decimal(<decimal text>)
  string-decimal       the decimal text itself or 'n/10**d' (the library turns exponents into rationals through str())
  sympy-float          sympy.Float(<decimal text>)
  sympy-rational-huge  sympy.Rational(n, 10**d)

Every exponent comes with the simple fraction a/b it is near to (|p - a/b| <= 1e-3 for float16, <= 2e-6 otherwise), its
structural kind and a description.  Nothing here imports unyt.
"""
from fractions import Fraction as Fr
from decimal import Decimal
from math import gcd

KINDS = ["decimal-float", "near-integer-float", "numpy-float32", "numpy-float16", "numpy-longdouble", "fraction-huge-denominator",
         "decimal", "string-decimal", "sympy-float", "sympy-rational-huge"]
DENOMS = [2, 3, 3, 3, 4, 5, 6, 6, 7, 7, 8, 9, 11, 12, 13]


def simple_fraction(r, integer=False):
    if integer:
        return Fr(r.choice([1, 2, 3, -1, -2, 1, 2]))
    while True:
        b = r.choice(DENOMS)
        a = r.randint(-3 * b, 3 * b)
        if a and gcd(a, b) == 1 and abs(a) <= 3 * b:
            return Fr(a, b)


def decimal_text(r, f, d=None, mode=None):
    """f written with d decimal digits; mode trunc/round/up/down (up/down: one unit in the last place away from the rounded value)"""
    d = d or r.randint(6, 12)
    terminating = all(p in (2, 5) for p in _prime_factors(f.denominator))
    mode = mode or (r.choice(["up", "down"]) if terminating else r.choice(["trunc", "round", "round", "up", "down"]))
    x = abs(f) * 10 ** d
    n = x.numerator // x.denominator
    if mode in ("round", "up", "down") and (x - n) * 2 >= 1:
        n += 1
    if mode == "up":
        n += 1
    elif mode == "down":
        n -= 1
    if n <= 0:
        n = 1
    text = ("-" if f < 0 else "") + str(n // 10 ** d) + "." + str(n % 10 ** d).zfill(d)
    return text, (-n if f < 0 else n), d


def _prime_factors(n):
    out, p = [], 2
    while n > 1:
        while n % p == 0:
            out.append(p)
            n //= p
        p += 1
    return out or [1]


def gen_exponent(r, np, sympy, kind=None):
    """-> (kind, value, description, nearby simple fraction)"""
    kind = kind or r.choice(KINDS)
    f = simple_fraction(r, integer=(kind == "near-integer-float"))
    text, n, d = decimal_text(r, f, mode=(r.choice(["up", "down"]) if kind == "near-integer-float" else None))
    if kind in ("decimal-float", "near-integer-float"):
        return kind, float(text), text, f
    if kind == "numpy-float32":
        if r.random() < 0.6:
            return kind, np.float32(f.numerator / f.denominator), f"np.float32({f.numerator}/{f.denominator})", f
        return kind, np.float32(float(text)), f"np.float32({text})", f
    if kind == "numpy-float16":
        k = r.random()
        if k < 0.5:
            return kind, np.float16(f.numerator / f.denominator), f"np.float16({f.numerator}/{f.denominator})", f
        t = r.choice([1, 2, 3, 7, 9, 11, 13, -1, -3, 17, 21])
        return kind, np.float16(t / 10), f"np.float16({t}/10)", Fr(t, 10)
    if kind == "numpy-longdouble":
        return kind, np.longdouble(f.numerator) / np.longdouble(f.denominator), f"np.longdouble({f.numerator})/{f.denominator}", f
    if kind == "fraction-huge-denominator":
        if r.random() < 0.5:
            return kind, Fr(n, 10 ** d), f"Fraction({n}, 10**{d})", f
        N = 10 ** r.randint(7, 12) + r.randint(0, 999)
        s = r.choice([1, -1])
        return kind, Fr(f.numerator * N + s, f.denominator * N), f"Fraction({f.numerator}*{N}{s:+d}, {f.denominator}*{N})", f
    if kind == "decimal":
        return kind, Decimal(text), f"Decimal('{text}')", f
    if kind == "string-decimal":
        if r.random() < 0.7:
            return kind, text, repr(text), f
        return kind, f"{n}/{10 ** d}", repr(f"{n}/{10 ** d}"), f
    if kind == "sympy-float":
        return kind, sympy.Float(text), f"sympy.Float('{text}')", f
    if kind == "sympy-rational-huge":
        return kind, sympy.Rational(n, 10 ** d), f"sympy.Rational({n}, 10**{d})", f
    raise ValueError(kind)


# units whose scale is not 1 in the base system (the class needs them: m or s hide a wrong exponent on the scale)
FIXED_ATOMS = ["km", "inch", "Msun", "pc", "eV", "kHz", "kPa", "um", "ft", "mile", "g", "cm", "ms", "GeV", "Mpc", "AU", "lb", "hr", "day", "yr",
               "mJy", "nm", "MHz", "kJ", "mg", "uK", "Mearth", "kpc", "erg", "dyne", "G", "mbar", "ns", "TeV", "angstrom", "arcsec", "degree", "mol"]
FIXED_COMPOUNDS = ["km/s", "Msun/pc**3", "g/cm**3", "kHz*km", "eV/nm**2", "inch*lb/hr**2", "erg/s/cm**2/Hz", "km/s/Mpc", "Msun/yr", "kJ/mol",
                   "mile/hr", "GeV/cm**3", "mJy/arcsec**2", "kPa*ms", "cm**-3", "sqrt(km)*g", "Mpc**3/Msun", "uK**2*Mpc**3"]
