"""C03 data axis: the *numbers* a conversion is asked to carry, as a first-class workload dimension.

The earlier families of C03 drew values from a short list of harmless floats (and int64 clipped to 1e9).  This module drives every
conversion route with data that sit at the edges of their dtype:

* dtypes      int8..int64, uint8..uint64, float16/32/64, complex64/128;
* magnitudes  0/small, the first integers the result float cannot hold (2**p-1 .. 2**p+3 for p = 11/24/53), iinfo.max/min and their
              neighbours, the values at which value*factor crosses the integer range (signed and unsigned), powers of ten up to
              the top of the dtype, values whose *result* is near the top / bottom of the result float, random log-uniform draws;
* factors     whole-number (km->m, hr->s, lb->oz ...), fractional (m->km, km->mile ...), huge/tiny (pc->cm, g->Msun ...), affine
              (temperature and lat/lon offsets) - classified at run time from the factor itself;
* forms       scalar quantity, one array holding every magnitude, a small array with one extreme element among harmless ones,
              a strided view;
* routes      to/in_units/to_value (string and Unit targets), convert_to_units (in place, on a copy), and for base-unit targets
              in_base/in_mks/in_cgs/convert_to_base/convert_to_mks/convert_to_cgs, all against the factor from
              get_conversion_factor applied *by the harness* in exact rational arithmetic.

Oracle (never calls a judged function to obtain an expected value): with (f, o) the pair returned by get_conversion_factor and v the
exact input, every route must return  v*f - o  within  K*eps*(|v*f| + |o|) (+ a few smallest subnormals), eps of the float format the
result is delivered in (integers -> float of their own item size, at least 16 bit); identity must return the input rounded once;
A->B->A must return v within the bound mapped back to A; A->B->C must agree with A->C.  Cases whose exact result, offset or factor
do not fit the normal range of the result float are discarded and counted (range matter, DESIGN 4.13).
"""
from fractions import Fraction
import math
import numpy as np

K = 8                      # rounding steps allowed per conversion, in eps of the result float (see module docstring)

INT_DTYPES = ["int8", "uint8", "int16", "uint16", "int32", "uint32", "int64", "uint64"]
FLOAT_DTYPES = ["float16", "float32", "float64", "complex64", "complex128"]
ALL_DTYPES = INT_DTYPES + FLOAT_DTYPES

# commensurable pools; every ordered pair inside a pool is a conversion request (factor class is decided at run time)
POOLS = {
    "length": ["m", "km", "cm", "mm", "um", "inch", "ft", "yd", "mile", "nmi", "furlong", "pc", "AU", "Mpc"],
    "time": ["s", "min", "hr", "day", "week", "yr", "ms", "ns", "Myr"],
    "mass": ["g", "kg", "t", "lb", "oz", "mg", "Msun", "slug"],
    "energy": ["J", "erg", "kJ", "MJ", "eV", "kWh", "cal", "BTU"],
    "temperature": ["K", "mK", "kK", "degC", "degF", "R", "mdegC", "delta_degC", "delta_degF"],
    "angle": ["rad", "degree", "arcmin", "arcsec", "lat", "lon", "mrad", "rev"],
    "pressure": ["Pa", "kPa", "bar", "atm", "psi", "dyn/cm**2"],
    "speed": ["m/s", "km/hr", "mph", "cm/s", "kt", "ft/min", "km/s"],
    "density": ["g/cm**3", "kg/m**3", "lb/ft**3", "oz/inch**3", "Msun/pc**3"],
    "volume": ["L", "mL", "m**3", "cm**3", "gal_US", "inch**3"],
}
SYSTEMS = [None, "mks", "cgs", "imperial"]


def resfloat(dt):
    """the real float format a conversion of dtype dt delivers its numbers in (unyt's documented dtype rule, C17)"""
    dt = np.dtype(dt)
    if dt.kind == "c":
        return np.dtype("f%d" % (dt.itemsize // 2))
    if dt.kind == "f":
        return dt
    return np.dtype("f%d" % max(2, dt.itemsize))


def opclass(dt):
    dt = np.dtype(dt)
    return {"i": "int", "u": "uint", "f": "float", "c": "complex"}[dt.kind] + str(dt.itemsize * 8)


def factor_class(f, o):
    if o:
        return "affine"
    a = abs(f)
    if a == 1.0:
        return "unity"
    if a >= 1e9:
        return "huge"
    if a <= 1e-9:
        return "tiny"
    if a > 1 and abs(a - round(a)) <= 4e-16 * a:
        return "whole"
    if a < 1 and abs(1 / a - round(1 / a)) <= 4e-16 / a:
        return "unit-fraction"
    return "fractional"


def _fr(x):
    """exact rational value of a Python/NumPy real number"""
    if isinstance(x, (int, np.integer)):
        return Fraction(int(x))
    return Fraction(float(x))


def exact_parts(a):
    """numbers of an ndarray / scalar as a flat list of exact (re, im) Fractions; None where a part is not finite"""
    a = np.asarray(a)
    out = []
    if a.dtype.kind == "c":
        for z in a.ravel().tolist():
            out.append((_fr(z.real), _fr(z.imag)) if math.isfinite(z.real) and math.isfinite(z.imag) else None)
    elif a.dtype.kind in "iu":
        for z in a.ravel().tolist():
            out.append((Fraction(z), Fraction(0)))
    else:
        for z in a.astype(np.float64).ravel().tolist():      # widening a float is exact
            out.append((Fraction(z), Fraction(0)) if math.isfinite(z) else None)
    return out


def hand(parts, f, o):
    """the factor applied by hand, exactly: (re*f - o, im*f)"""
    F = _fr(f); O = _fr(o) if o else Fraction(0)
    return [(re * F - O, im * F) for (re, im) in parts]


def scales(parts, f, o):
    F = abs(_fr(f)); O = abs(_fr(o)) if o else Fraction(0)
    return [max(abs(re), abs(im)) * F + O for (re, im) in parts]


# ---- magnitudes ------------------------------------------------------------------------------------------------------------------
def int_magnitudes(dt, f, o, r, nrand=6):
    dt = np.dtype(dt)
    ii = np.iinfo(dt)
    imax, imin = int(ii.max), int(ii.min)
    p = np.finfo(resfloat(dt)).nmant + 1
    fmax = float(np.finfo(resfloat(dt)).max)
    v = {0, 1, 2, 7, 40, 300, 1000}
    for q in (p, p + 1, p + 3):
        for d in (-1, 0, 1, 2, 3):
            v.add(2 ** q + d)
    v |= {imax, imax - 1, imax - 2, imax // 2, imax // 2 + 1, imax // 3, imax // 10}
    a = abs(float(f))
    if a > 1:
        w = int(imax / a)                      # value*factor crosses the signed / unsigned range just above these
        v |= {w, w + 1, w + 2, 2 * w + 1, 3 * w + 2, int(2 ** (8 * dt.itemsize) / a) + 1, int(2 ** (8 * dt.itemsize) / a) * 3 + 1}
    if a > 0:
        top = int(min((fmax * 0.97 - abs(o or 0.0)) / a, imax)) if fmax * 0.97 > abs(o or 0.0) else 0
        v |= {top, top - 1, top // 2}          # result just inside the range gate of the result float
    k = 1
    while k <= imax:
        v |= {k, 3 * k, 9 * k + 7}
        k *= 10
    for _ in range(nrand):
        v.add(int(math.exp(r.uniform(0, math.log(imax)))))
    if imin < 0:
        v |= {-x for x in list(v)[::2]} | {imin, imin + 1, imin // 2, -1, -(2 ** p + 1), -imax}
    return sorted(x for x in v if imin <= x <= imax)


def float_magnitudes(dt, f, o, r, nrand=6):
    ft = np.finfo(resfloat(dt))
    fmax, tiny, p = float(ft.max), float(ft.tiny), ft.nmant + 1
    a = abs(float(f)); oo = abs(o or 0.0)
    hi = min(fmax * 0.97, (fmax * 0.97 - oo) / a) if fmax * 0.97 > oo else 0.0
    lo = max(tiny, tiny / a) * 8
    v = [0.0, 1.0, -1.0, 2.5, -40.0, 0.125, 98.6, 1.0 + float(ft.eps), 1.0 - float(ft.eps) / 2,
         float(2 ** p - 1), float(2 ** p + 2), float(2 ** (p + 3) + 16), -float(2 ** p + 2)]
    if hi > 0:
        v += [hi, -hi, hi / 2, hi * 0.999, hi / 3]
    v += [lo, -lo, lo * 3]
    if hi > lo:
        for _ in range(nrand):
            v.append(math.exp(r.uniform(math.log(lo), math.log(hi))) * r.choice((1, 1, -1)))
    out = []
    for x in v:
        y = float(np.asarray(x).astype(resfloat(dt)))          # what the dtype can hold
        if math.isfinite(y):
            out.append(y)
    return out


def magnitudes(dt, f, o, r, nrand=6):
    dt = np.dtype(dt)
    if dt.kind in "iu":
        return int_magnitudes(dt, f, o, r, nrand)
    vals = float_magnitudes(dt, f, o, r, nrand)
    if dt.kind == "c":
        im = list(vals)
        r.shuffle(im)
        return [complex(x, y) for x, y in zip(vals, im)]
    return vals


def in_gate(dt, parts, f, o, need_inverse=False):
    """-> list of booleans: element's exact result (and offset, factor) inside the normal range of the result float"""
    ft = np.finfo(resfloat(dt))
    fmax, tiny = Fraction(float(ft.max)), Fraction(float(ft.tiny))
    a = abs(_fr(f))
    if not (tiny <= a <= fmax):
        return None
    if need_inverse and not (tiny <= 1 / a <= fmax):
        return None
    sc = scales(parts, f, o)
    hd = hand(parts, f, o)
    ok = []
    for s, (re, im), (vr, vi) in zip(sc, hd, parts):
        g = s <= fmax * Fraction(98, 100) and max(abs(vr), abs(vi)) <= fmax * Fraction(98, 100)      # result and input fit the result float
        if need_inverse and a and max(abs(vr), abs(vi)) + (abs(_fr(o)) if o else 0) / a > fmax * Fraction(98, 100):
            g = False                                                     # the way back (zero point in A readings) must fit too
        # the product v*f itself must not be subnormal (a relative bound cannot decide those); exact zeros are fine
        for comp in (abs(vr) * a, abs(vi) * a):
            if comp != 0 and comp < tiny * 4:
                g = False
        ok.append(g)
    return ok


def tolerances(dt, parts, f, o, k=K):
    ft = np.finfo(resfloat(dt))
    eps = Fraction(float(ft.eps)); sub = Fraction(float(ft.smallest_subnormal))
    return [k * eps * s + k * sub for s in scales(parts, f, o)]


def compare(got, want, tol):
    """got: ndarray; want: list of exact (re, im); tol: list of Fractions -> None or (index, kind)"""
    g = exact_parts(got)
    if len(g) != len(want):
        return (-1, "shape")
    for i, (x, w, t) in enumerate(zip(g, want, tol)):
        if x is None:
            return (i, "nonfinite")
        if abs(x[0] - w[0]) > t or abs(x[1] - w[1]) > t:
            return (i, "value")
    return None


def build(unyt, dt, vals, unit, form, reg=None):
    """the operand; vals are Python numbers already inside the dtype"""
    dt = np.dtype(dt)
    kw = {} if reg is None else {"registry": reg}
    if form == "quantity":
        return unyt.unyt_quantity(dt.type(vals[0]), unit, **kw)
    a = np.array(vals, dtype=dt)
    if form == "strided":
        big = np.zeros(2 * len(vals), dtype=dt)
        big[::2] = a
        return unyt.unyt_array(big, unit, **kw)[::2]
    if form == "2d":
        if len(vals) % 2:
            a = np.concatenate([a, a[:1]])
        return unyt.unyt_array(a.reshape(2, -1), unit, **kw)
    return unyt.unyt_array(a, unit, **kw)
