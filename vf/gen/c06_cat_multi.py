"""npcatalog entries: products, joins/splits, histogram family, differences/integration, mutators, comparisons,
functions taking callables, unsupported functions."""
import numpy as np
from vf.gen.npcatalog import F, X, Multi, Skip, Q, QView

SD = {"same-dimension"}
PR = {"product"}
IDX = {"index-like"}
MUT = {"mutator", "same-dimension"}
ALL = ("1d", "2d", "3d", "0d", "e1", "sq")

# products ---------------------------------------------------------------------------------------------------------


def vecs(g, n=None):
    n = n or g.rng.choice([3, 4, 5])
    return [g.a(shape=(n,)), g.a("B", shape=(n,))]


def mats(g):
    if g.shape == "1d":
        return vecs(g)
    if g.shape == "0d":
        return [g.a(shape=()), g.a("B", shape=(3,))]
    if g.shape == "3d":
        return [g.a(shape=(2, 3, 4)), g.a("B", shape=(4, 2))]
    if g.shape == "e1":
        return [g.a(shape=(0,)), g.a("B", shape=(0,))]
    return [g.a(shape=(3, 4)), g.a("B", shape=(4, 2))]


MS = ("1d", "2d", "3d", "0d", "e1")
F("numpy.dot", mats, out=True, shapes=MS, tags=PR, forms={"mat-vec": (lambda g: [g.a(shape=(3, 4)), g.a("B", shape=(4,))]), "same-unit": (lambda g: [g.a(shape=(3, 3)), g.a(shape=(3, 3))])})
F("numpy.vdot", lambda g: vecs(g), shapes=("1d",), tags=PR, forms={"2d": (lambda g: [g.a(shape=(2, 3)), g.a("B", shape=(2, 3))])})
F("numpy.inner", lambda g: [g.a(shape=(3, 4)), g.a("B", shape=(2, 4))] if g.shape == "2d" else vecs(g), shapes=("1d", "2d"), tags=PR,
  forms={"scalar": (lambda g: [g.a(shape=(3,)), g.a("B", shape=())])})
F("numpy.outer", lambda g: [g.a(shape=(3,)), g.a("B", shape=(4,))], out=True, shapes=("1d",), tags=PR, forms={"2d-flattened": (lambda g: [g.a(shape=(2, 2)), g.a("B", shape=(3,))])})
F("numpy.linalg.outer", lambda g: [g.a(shape=(3,)), g.a("B", shape=(4,))], shapes=("1d",), tags=PR)
F("numpy.kron", lambda g: [g.a(shape=(2, 2)), g.a("B", shape=(2, 3))] if g.shape == "2d" else [g.a(shape=(3,)), g.a("B", shape=(2,))], shapes=("1d", "2d"), tags=PR)
F("numpy.cross", lambda g: [g.a(shape=(3,)), g.a("B", shape=(3,))] if g.shape == "1d" else [g.a(shape=(4, 3)), g.a("B", shape=(4, 3))],
  opt={"axisa": [0], "axisb": [0], "axisc": [0], "axis": [0]}, shapes=("1d", "2d"), tags=PR,
  forms={"axes-differ": (lambda g: ([g.a(shape=(3, 4)), g.a("B", shape=(4, 3))], {"axisa": 0, "axisb": 1, "axisc": 0})),
         "axis0": (lambda g: ([g.a(shape=(3, 4)), g.a("B", shape=(3, 4))], {"axis": 0})), "broadcast": (lambda g: [g.a(shape=(4, 3)), g.a("B", shape=(3,))])})
F("numpy.linalg.cross", lambda g: [g.a(shape=(3,)), g.a("B", shape=(3,))] if g.shape == "1d" else [g.a(shape=(4, 3)), g.a("B", shape=(4, 3))],
  opt={"axis": [-1]}, shapes=("1d", "2d"), tags=PR, forms={"axis0": (lambda g: ([g.a(shape=(3, 4)), g.a("B", shape=(3, 4))], {"axis": 0}))})
F("numpy.tensordot", lambda g: [g.a(shape=(2, 3, 3)), g.a("B", shape=(3, 3, 2))], opt={"axes": [1, 0, ([1, 2], [0, 1]), ([0], [2])]}, shapes=("3d",), tags=PR)
F("numpy.linalg.tensordot", lambda g: [g.a(shape=(2, 3, 3)), g.a("B", shape=(3, 3, 2))], opt={"axes": [1, ([1, 2], [0, 1])]}, shapes=("3d",), tags=PR)
F("numpy.linalg.matmul", lambda g: [g.a(shape=(3, 4)), g.a("B", shape=(4, 2))] if g.shape == "2d" else [g.a(shape=(2, 3, 4)), g.a("B", shape=(2, 4, 2))], shapes=("2d", "3d"), tags=PR)
F("numpy.linalg.vecdot", lambda g: [g.a(shape=(3, 4)), g.a("B", shape=(3, 4))], opt={"axis": [0]}, shapes=("2d",), tags=PR)
F("numpy.linalg.multi_dot", lambda g: [[g.a(shape=(3, 4)), g.a("B", shape=(4, 2)), g.a(shape=(2, 3))]], out=True, shapes=("2d",), tags=PR,
  forms={"two": (lambda g: [[g.a(shape=(3, 4)), g.a("B", shape=(4, 2))]]), "four": (lambda g: [[g.a(shape=(2, 3)), g.a(shape=(3, 4)), g.a("B", shape=(4, 2)), g.a(shape=(2, 2))]]),
         "vec-ends": (lambda g: [[g.a(shape=(3,)), g.a("B", shape=(3, 4)), g.a(shape=(4,))]])})
for n, modes in (("convolve", ["same", "valid", "full"]), ("correlate", ["same", "full", "valid"])):
    F("numpy." + n, lambda g: [g.a(shape=(6,)), g.a("B", shape=(3,))], opt={"mode": modes}, shapes=("1d",), tags=PR,
      forms={"swapped-lengths": (lambda g: ([g.a(shape=(3,)), g.a("B", shape=(6,))], {"mode": "same"}))})
ES = [("ij,jk->ik", [(3, 4), (4, 2)]), ("ii->i", [(3, 3)]), ("ij->ji", [(3, 4)]), ("i,i->", [(4,), (4,)]), ("ij,j", [(3, 4), (4,)]), ("...j,j->...", [(2, 3, 4), (4,)]), ("ii", [(3, 3)])]
for i, (sub, shp) in enumerate(ES):
    def eb(g, sub=sub, shp=shp):
        return [sub] + [g.a(shape=s) for s in shp]
    if i == 0:
        F("numpy.einsum", eb, opt={"optimize": [True, "greedy"], "dtype": ["c16"], "order": ["F"], "casting": ["unsafe"]}, out=True, shapes=("2d",), tags=PR, allkw=False,
          forms={"mixed-dims": (lambda g: ["ij,jk->ik", g.a(shape=(3, 4)), g.a("B", shape=(4, 2))]),
                 "sublist": (lambda g: [g.a(shape=(3, 4)), [0, 1], g.a(shape=(4, 2)), [1, 2], [0, 2]]),
                 "three-ops+optimize": (lambda g: (["ij,jk,kl->il", g.a(shape=(2, 3)), g.a(shape=(3, 4)), g.a(shape=(4, 2))], {"optimize": "optimal"}))},
          params={"dtype", "order", "casting"})
    else:
        X("numpy.einsum", f"subscripts#{i}", eb, tags=PR, shapes=("2d",), params={"operands"})
F("numpy.einsum_path", lambda g: ["ij,jk,kl->il", g.a(shape=(2, 3)), g.a(shape=(3, 4)), g.a(shape=(4, 2))], opt={"optimize": ["optimal", "greedy"]}, shapes=("2d",), tags={"opaque"}, allkw=False, mixed=False)

# joins and splits -----------------------------------------------------------------------------------------------------


def three(g):
    return [g.a(), g.a(), g.a()]


for n in ("concatenate", "concat"):
    F("numpy." + n, lambda g: [three(g)], opt={"axis": [-1, None, 1], "dtype": ["f8", "c16"], "dtype+casting": [Multi(dtype="i4", casting="unsafe")]}, out=True,
      shapes=("1d", "2d", "3d", "sq", "e1"), tags=SD, mixed=False,
      forms={"ragged": (lambda g: [[g.a(shape=(2, 3)), g.a(shape=(1, 3)), g.a(shape=(3, 3))]]), "tuple": (lambda g: [tuple(three(g))]),
             "one-bare": (lambda g: [[g.a(), g.a().data]]), "scalars-axisNone": (lambda g: ([[g.a(shape=()), g.a(shape=(2,))]], {"axis": None})),
             "ragged-axis1": (lambda g: ([[g.a(shape=(2, 1)), g.a(shape=(2, 3))]], {"axis": 1}))})
F("numpy.stack", lambda g: [three(g)], opt={"axis": [-1, 1], "dtype": ["f8", "c16"], "dtype+casting": [Multi(dtype="i4", casting="unsafe")]}, out=True, shapes=ALL, tags=SD, mixed=False,
  forms={"tuple": (lambda g: [tuple(three(g))]), "two+axis1": (lambda g: ([[g.a(shape=(2, 3)), g.a(shape=(2, 3))]], {"axis": 1}))})
for n in ("vstack", "hstack"):
    F("numpy." + n, lambda g: [three(g)], opt={"dtype": ["f8", "c16"], "dtype+casting": [Multi(dtype="i4", casting="unsafe")]}, shapes=ALL, tags=SD, mixed=False,
      forms={"ragged": (lambda g, n=n: [[g.a(shape=(2, 3)), g.a(shape=(1, 3))]] if n == "vstack" else [[g.a(shape=(2, 1)), g.a(shape=(2, 3))]]),
             "tuple": (lambda g: [tuple(three(g))]), "mixed-ndim": (lambda g, n=n: [[g.a(shape=(3,)), g.a(shape=(2, 3))]] if n == "vstack" else [[g.a(shape=(2,)), g.a(shape=(3,))]])})
for n in ("dstack", "column_stack"):
    F("numpy." + n, lambda g: [three(g)], shapes=("1d", "2d", "0d", "sq", "3d"), tags=SD, mixed=False,
      forms={"tuple": (lambda g: [tuple(three(g))]), "mixed-ndim": (lambda g: [[g.a(shape=(3,)), g.a(shape=(3, 2))]]) if n == "column_stack" else (lambda g: [[g.a(shape=(2, 3)), g.a(shape=(2, 3, 2))]])})
F("numpy.block", lambda g: [[[g.a(shape=(2, 2)), g.a(shape=(2, 3))], [g.a(shape=(1, 2)), g.a(shape=(1, 3))]]], shapes=("2d",), tags=SD, mixed=False,
  forms={"flat": (lambda g: [[g.a(shape=(2,)), g.a(shape=(3,))]]), "single": (lambda g: [g.a(shape=(2, 2))]), "with-scalars": (lambda g: [[g.a(shape=()), g.a(shape=(2,))]]),
         "deep": (lambda g: [[[[g.a(shape=(1, 1, 2))], [g.a(shape=(1, 1, 2))]], [[g.a(shape=(1, 1, 2))], [g.a(shape=(1, 1, 2))]]]])})
F("numpy.split", lambda g: [g.a(shape=(6, 3)), 3], opt={"axis": [1]}, shapes=("2d",), tags=SD | {"view"}, forms={"indices": (lambda g: [g.a(shape=(6,)), [1, 4]]), "axis1": (lambda g: [g.a(shape=(2, 6)), [2, 3], 1])})
F("numpy.array_split", lambda g: [g.a(shape=(7, 2)), 3], opt={"axis": [1]}, shapes=("2d",), tags=SD | {"view"}, forms={"indices": (lambda g: [g.a(shape=(7,)), [1, 4]]), "uneven-axis1": (lambda g: ([g.a(shape=(2, 5)), 3], {"axis": 1}))})
F("numpy.hsplit", lambda g: [g.a(shape=(2, 6)), 3], shapes=("2d",), tags=SD | {"view"}, forms={"1d": (lambda g: [g.a(shape=(6,)), [2, 3]])})
F("numpy.vsplit", lambda g: [g.a(shape=(6, 2)), 2], shapes=("2d",), tags=SD | {"view"}, forms={"indices": (lambda g: [g.a(shape=(6, 2)), [1, 5]])})
F("numpy.dsplit", lambda g: [g.a(shape=(2, 2, 6)), 3], shapes=("3d",), tags=SD | {"view"}, forms={"indices": (lambda g: [g.a(shape=(2, 2, 6)), [1, 5]])})
F("numpy.unstack", lambda g: [g.a(shape=(3, 2))], opt={"axis": [1, -1]}, shapes=("2d",), tags=SD | {"view"}, forms={"3d": (lambda g: ([g.a(shape=(2, 3, 2))], {"axis": 1}))})

# histogram family ----------------------------------------------------------------------------------------------------


def hdata(g, dim="A", n=12):
    g.real_only()
    return g.a(dim, shape=(n,), lo=0, hi=9)


F("numpy.histogram", lambda g: [hdata(g)], opt={"bins": [4, lambda g, a: Q(np.array([0, 2, 5, 10]).astype(g.dtype), "A"), "auto", lambda g, a: np.array([0.0, 3.0, 10.0])],
                                               "range": [lambda g, a: (1, 8), lambda g, a: (Q(np.asarray(1.0), "A"), Q(np.asarray(8.0), "A"))], "density": [True],
                                               "weights": [lambda g, a: Q(g.raw((12,), 1, 4, "f8"), "B"), lambda g, a: g.raw((12,), 1, 4, "f8")],
                                               "density+weights": [lambda g, a: Multi(density=True, weights=Q(g.raw((12,), 1, 4, "f8"), "B"))],
                                               "bins+range": [lambda g, a: Multi(bins=3, range=(2, 7))]}, shapes=("1d",), tags={"mixed-result"},
  forms={"2d-input": (lambda g: (g.real_only() or [g.a(shape=(3, 4), lo=0, hi=9), 3]))})
F("numpy.histogram_bin_edges", lambda g: [hdata(g)], opt={"bins": [4, "sturges", lambda g, a: Q(np.array([0, 2, 5, 10]).astype(g.dtype), "A")], "range": [(1, 8)],
                                                         "weights": [lambda g, a: g.raw((12,), 1, 4, "f8")]}, shapes=("1d",), tags=SD)
F("numpy.histogram2d", lambda g: [hdata(g), hdata(g, "B")], opt={"bins": [3, (2, 4), lambda g, a: [np.array([0.0, 5, 10]), np.array([0.0, 2, 10])]],
                                                                 "range": [lambda g, a: [[Q(np.asarray(0.0), "A"), Q(np.asarray(9.0), "A")], [Q(np.asarray(1.0), "B"), Q(np.asarray(8.0), "B")]]],
                                                                 "density": [True], "weights": [lambda g, a: Q(g.raw((12,), 1, 4, "f8"), "A")],
                                                                 "density+weights": [lambda g, a: Multi(density=True, weights=g.raw((12,), 1, 4, "f8"))]},
  shapes=("1d",), tags={"mixed-result"})
F("numpy.histogramdd", lambda g: [[hdata(g), hdata(g, "B"), hdata(g)]], opt={"bins": [3, (2, 3, 2)], "density": [True], "weights": [lambda g, a: Q(g.raw((12,), 1, 4, "f8"), "B")],
                                                                           "range": [lambda g, a: [(0, 9), (1, 8), (0, 5)]]}, shapes=("1d",), tags={"mixed-result"}, mixed=False,
  forms={"array-sample": (lambda g: (g.real_only() or [g.a(shape=(4, 2), lo=0, hi=9)])), "array-sample-wide": (lambda g: (g.real_only() or ([g.a(shape=(2, 3), lo=0, hi=9)], {"bins": 2}))),
         "array-sample+density": (lambda g: (g.real_only() or ([g.a(shape=(5, 2), lo=0, hi=9)], {"bins": 2, "density": True}))), "two+density": (lambda g: ([[hdata(g), hdata(g, "B")]], {"density": True, "bins": 2}))})
F("numpy.interp", lambda g: (g.real_only() or [g.a(shape=(5,), lo=-2, hi=12), g.q(np.array([0, 2, 5, 10]).astype(g.dtype)), g.a("B", shape=(4,))]),
  opt={"left": [-99.0], "right": [99.0], "period": [7]}, shapes=("1d",), tags=SD,
  forms={"scalar-x": (lambda g: (g.real_only() or [g.a(shape=(), lo=1, hi=9), g.q(np.array([0, 2, 5, 10]).astype(g.dtype)), g.a("B", shape=(4,))])),
         "complex-fp": (lambda g: (g.real_only() or [g.a(shape=(5,), lo=0, hi=10), g.q(np.array([0, 2, 5, 10]).astype(g.dtype)), g.a("B", shape=(4,), dtype="c16")])),
         "left+right": (lambda g: (g.real_only() or ([g.a(shape=(5,), lo=-5, hi=15), g.q(np.array([0, 2, 5, 10]).astype(g.dtype)), g.a("B", shape=(4,))], {"left": -1.0, "right": -2.0}))),
         "bare-fp": (lambda g: (g.real_only() or [g.a(shape=(5,), lo=0, hi=10), g.q(np.array([0, 2, 5, 10]).astype(g.dtype)), g.raw((4,))]))})

# differences / integration ----------------------------------------------------------------------------------------------
NE1 = ("1d", "2d", "3d", "sq")


def n1(g):
    if not g.dims():
        raise Skip("0d")
    return [g.a()]


F("numpy.diff", n1, opt={"n": [2, 0], "axis": [0], "prepend": [lambda g, a: Q(np.asarray(1, g.dtype), "A"), 0], "append": [lambda g, a: Q(np.asarray(2, g.dtype), "A")],
                        "prepend+append+axis": [lambda g, a: Multi(axis=0, prepend=Q(a[0].data[:1] * 0 + 1, "A"), append=Q(a[0].data[:1] * 0 + 3, "A"))]}, shapes=NE1 + ("e1",), tags=SD)
F("numpy.ediff1d", lambda g: [g.a()], opt={"to_end": [lambda g, a: Q(np.asarray([7, 8]).astype(g.dtype), "A"), 9], "to_begin": [lambda g, a: Q(np.asarray(5).astype(g.dtype), "A")],
                                           "to_begin+to_end": [lambda g, a: Multi(to_begin=Q(np.asarray([1]).astype(g.dtype), "A"), to_end=Q(np.asarray([2, 3]).astype(g.dtype), "A"))]},
  shapes=("1d", "2d", "e1"), tags=SD)
F("numpy.gradient", n1, opt={"axis": [0, -1], "edge_order": [2]}, shapes=NE1, tags=SD,
  forms={"spacing-scalar": (lambda g: n1(g) + [2.0]), "spacing-unit": (lambda g: n1(g) + [g.q(np.asarray(2.0), "B")]),
         "coords": (lambda g: ([g.a(shape=(5,)), g.q(np.array([0.0, 1, 3, 4, 8]), "B")], {})),
         "per-axis": (lambda g: [g.a(shape=(3, 4)), g.q(np.asarray(2.0), "B"), g.q(np.array([0.0, 1, 3, 4]), "B")]),
         "axis-tuple": (lambda g: ([g.a(shape=(3, 4))], {"axis": (0, 1)})), "edge2-coords": (lambda g: ([g.a(shape=(5,)), g.q(np.array([0.0, 1, 3, 4, 8]), "B")], {"edge_order": 2}))},
  params={"varargs"})
F("numpy.trapezoid", n1, opt={"x": [lambda g, a: Q(np.cumsum(g.raw((a[0].data.shape[-1],), 1, 3, "f8")), "B"), lambda g, a: np.arange(a[0].data.shape[-1]) * 2.0],
                             "dx": [2.0, lambda g, a: Q(np.asarray(0.5), "B")], "axis": [0], "x+axis": [lambda g, a: Multi(axis=0, x=Q(np.cumsum(g.raw((a[0].data.shape[0],), 1, 3, "f8")), "B"))]},
  shapes=NE1, tags=PR, forms={"x-nd": (lambda g: (lambda y: [y, g.like(y, "B", 1, 5)])(g.a(shape=(3, 4))))})
F("numpy.cov", lambda g: [g.a(shape=(3, 6))], opt={"y": [lambda g, a: Q(g.raw((3, 6)), "A")], "rowvar": [True, False], "bias": [True], "ddof": [0], "fweights": [lambda g, a: g.ints((6,), 1, 3)],
                                                   "aweights": [lambda g, a: g.raw((6,), 1, 4, "f8")], "dtype": ["f4" , "c16"]}, shapes=("2d",), tags=PR,
  forms={"1d": (lambda g: [g.a(shape=(6,))]), "y-other-dim": (lambda g: [g.a(shape=(6,)), g.a("B", shape=(6,))])})
F("numpy.corrcoef", lambda g: [g.a(shape=(3, 6))], opt={"y": [lambda g, a: Q(g.raw((3, 6)), "A")], "rowvar": [True, False], "dtype": ["f4"]}, shapes=("2d",),
  forms={"y-other-dim": (lambda g: [g.a(shape=(6,)), g.a("B", shape=(6,))])})

# put-style mutators -------------------------------------------------------------------------------------------------------
F("numpy.put", lambda g: [g.a(shape=(6,)), [0, 2], g.a(shape=(2,))], opt={"mode": ["wrap", "clip"]}, shapes=("1d",), tags=MUT,
  forms={"oob-wrap": (lambda g: ([g.a(shape=(6,)), [7, -8, 13], g.a(shape=(3,))], {"mode": "wrap"})), "oob-clip": (lambda g: ([g.a(shape=(6,)), [7, -8, 13], g.a(shape=(3,))], {"mode": "clip"})),
         "pos-mode": (lambda g: [g.a(shape=(6,)), [9, 1], g.a(shape=(2,)), "clip"]), "bare-value": (lambda g: [g.a(shape=(2, 3)), [1, 4], 7]), "cycle-values": (lambda g: [g.a(shape=(6,)), [0, 1, 2, 3], g.a(shape=(2,))])})
F("numpy.put_along_axis", lambda g: (lambda a: [a, np.argmax(a.data.real, axis=0, keepdims=True), g.q(np.asarray(7, g.dtype)), 0])(g.a(shape=(3, 4))), shapes=("2d",), tags=MUT,
  forms={"axis1-array": (lambda g: (lambda a: [a, np.argmin(a.data.real, axis=1, keepdims=True), g.a(shape=(3, 1)), 1])(g.a(shape=(3, 4)))),
         "axisNone": (lambda g: [g.a(shape=(2, 3)), np.array([0, 5]), g.a(shape=(2,)), None]), "bare-value": (lambda g: [g.a(shape=(3, 4)), np.array([[0, 1, 2, 0]]), 9, 0])})
F("numpy.putmask", lambda g: [g.a(), g.mask(), g.a()], shapes=ALL, tags=MUT, forms={"short-values": (lambda g: [g.a(shape=(6,)), g.mask((6,)), g.a(shape=(2,))]), "bare-value": (lambda g: [g.a(), g.mask(), 5]),
                                                                                      "kw": (lambda g: ([g.a()], {"mask": g.mask(), "values": g.a(shape=())}))})
F("numpy.place", lambda g: [g.a(), g.mask(), g.a(shape=(2,))], shapes=("1d", "2d", "3d", "sq"), tags=MUT, forms={"bare-value": (lambda g: [g.a(), g.mask(), [5, 6]])})
F("numpy.copyto", lambda g: [g.a(), g.a()], opt={"casting": ["unsafe"], "where": [lambda g, a: g.mask(a[0].data.shape)]}, shapes=ALL, tags=MUT,
  forms={"broadcast-scalar": (lambda g: [g.a(), g.a(shape=())]), "bare-src": (lambda g: [g.a(), 3]), "bare-dst": (lambda g: [Q(g.raw(), "A", bare=True), g.a()]),
         "other-dim-src": (lambda g: [g.a(), g.a("B")]), "cast": (lambda g: ([g.a(dtype="i4"), g.a(dtype="f8")], {"casting": "unsafe"}))})
F("numpy.fill_diagonal", lambda g: [g.a(shape=(4, 4)), g.q(np.asarray(7, g.dtype))], opt={"wrap": [True]}, shapes=("sq",), tags=MUT,
  forms={"bare-value": (lambda g: [g.a(shape=(3, 3)), 5]), "tall-wrap": (lambda g: ([g.a(shape=(7, 3)), g.q(np.asarray(7, g.dtype))], {"wrap": True})), "tall-nowrap": (lambda g: [g.a(shape=(7, 3)), 4]),
         "array-value": (lambda g: [g.a(shape=(3, 3)), g.a(shape=(3,))]), "3d": (lambda g: [g.a(shape=(2, 2, 2)), 1])})

# comparisons -----------------------------------------------------------------------------------------------------------------
near = lambda g: (lambda a: [a, g.q(a.data + (g.raw(a.data.shape, 0, 1) * (1e-6 if g.dtype.kind in "fc" else 1)).astype(a.data.dtype))])(g.a())
for n in ("isclose", "allclose"):
    F("numpy." + n, near, opt={"rtol": [1e-9, 0.5], "atol": [1e-3, 0.0, 2.0], "equal_nan": [True]}, shapes=ALL, tags=IDX,
      forms={"nan": (lambda g: (lambda a: ([a, g.q(a.data.copy())], {"equal_nan": True}))(g.with_nan())), "bare-second": (lambda g: (lambda a: [a, a.data + 1])(g.a())), "pos-rtol-atol": (lambda g: near(g) + [0.0, 1.5])})
for n in ("array_equal", "array_equiv"):
    F("numpy." + n, lambda g: (lambda a: [a, g.q(a.data.copy())])(g.a()), opt=({"equal_nan": [True]} if n == "array_equal" else None), shapes=ALL, tags=IDX, mixed=False,
      forms={"differ": (lambda g: [g.a(), g.a()]), "shape-differ": (lambda g: [g.a(shape=(3,)), g.a(shape=(4,))]), "broadcastable": (lambda g: (lambda a: [a, g.q(np.stack([a.data, a.data]))])(g.a(shape=(3,)))),
             "nan": (lambda g: (lambda a: ([a, g.q(a.data.copy())], ({"equal_nan": True} if n == "array_equal" else {})))(g.with_nan()))})

# functions taking callables ------------------------------------------------------------------------------------------------------
for i, (fn_name, fn) in enumerate((("sum", np.sum), ("max", np.max), ("ptp", np.ptp), ("cumsum", np.cumsum), ("mean", np.mean))):
    for shp, axes in (((2, 3, 4), [0, 1]), ((2, 3, 4), (0, 2)), ((3, 4), [1]), ((2, 3, 3), [0, -1]), ((2, 2, 3), [2, 0, 1])):
        form = f"{fn_name}:{len(shp)}d:{'_'.join(map(str, axes))}"
        if i == 0 and shp == (2, 3, 4) and axes == [0, 1]:
            F("numpy.apply_over_axes", lambda g: [np.sum, g.a(shape=(2, 3, 4)), [0, 1]], shapes=("3d",), tags=SD | {"callable-arg"}, mixed=False)
        X("numpy.apply_over_axes", form, (lambda g, fn=fn, shp=shp, axes=axes: [fn, g.a(shape=shp), axes]), tags=SD | {"callable-arg"}, shapes=("3d",), params={"func", "a", "axes"})
X("numpy.apply_over_axes", "scalar-axis", lambda g: [np.sum, g.a(shape=(2, 3)), 0], tags=SD | {"callable-arg"}, shapes=("3d",), params={"func", "a", "axes"})
F("numpy.apply_along_axis", lambda g: [np.sort, 0, g.a(shape=(3, 4))], shapes=("2d",), tags=SD | {"callable-arg"}, mixed=False, allkw=False,
  forms={"reduce": (lambda g: [np.sum, 1, g.a(shape=(3, 4))]), "lambda-expand": (lambda g: [lambda v: np.outer(v, v), -1, g.a(shape=(2, 3))]), "extra-args": (lambda g: ([np.roll, 0, g.a(shape=(4, 2)), 1], {})),
         "kwargs": (lambda g: ([np.clip, 0, g.a(shape=(4, 2))], {"a_min": -2, "a_max": 2})), "3d-axis1": (lambda g: [lambda v: v[::-1], 1, g.a(shape=(2, 3, 2))])}, params={"args", "kwargs"})

# declared unsupported by unyt (must raise; compared like any other call if they return) -------------------------------------------
UNS = {"unsupported"}
F("numpy.poly", lambda g: [g.a(shape=(3,))], shapes=("1d",), tags=UNS)
for n in ("polyadd", "polysub", "polymul"):
    F("numpy." + n, lambda g: [g.a(shape=(3,)), g.a(shape=(2,))], shapes=("1d",), tags=UNS)
F("numpy.polydiv", lambda g: [g.a(shape=(4,)), g.q(np.array([1, 2]).astype(g.dtype))], shapes=("1d",), tags=UNS)
F("numpy.polyder", lambda g: [g.a(shape=(4,))], opt={"m": [2]}, shapes=("1d",), tags=UNS)
F("numpy.polyint", lambda g: [g.a(shape=(4,))], opt={"m": [2], "k": [1]}, shapes=("1d",), tags=UNS)
F("numpy.polyval", lambda g: [g.a(shape=(3,)), g.a("B", shape=(4,))], shapes=("1d",), tags=UNS)
F("numpy.polyfit", lambda g: (g.real_only() or [g.q(np.arange(6.0)), g.a("B", shape=(6,)), 2]), opt={"full": [True], "cov": [True], "rcond": [1e-10], "w": [lambda g, a: np.ones(6)]}, shapes=("1d",), tags=UNS)
F("numpy.roots", lambda g: [g.q(np.array([1, -3, 2]).astype(g.dtype))], shapes=("1d",), tags=UNS)
F("numpy.vander", lambda g: [g.a(shape=(4,))], opt={"N": [3], "increasing": [True]}, shapes=("1d",), tags=UNS)
F("numpy.piecewise", lambda g: (g.real_only() or (lambda a: [a, [a.data < 0, a.data >= 0], [-1, 1]])(g.a(shape=(5,)))), shapes=("1d",), tags=UNS | {"callable-arg"})
F("numpy.packbits", lambda g: [g.q(g.ints((10,), 0, 1).astype("u1"))], opt={"axis": [0], "bitorder": ["little"]}, shapes=("1d",), dtypes=("u1", "i8", "f8"), tags=UNS)
F("numpy.unpackbits", lambda g: [g.q(g.ints((3,), 0, 255).astype("u1"))], opt={"axis": [0], "count": [5], "bitorder": ["little"]}, shapes=("1d",), dtypes=("u1", "i8", "f8"), tags=UNS)
F("numpy.ix_", lambda g: [g.q(np.array([0, 2])), g.q(np.array([1, 3]))], shapes=("1d",), tags=UNS, mixed=False)
_days = lambda g: g.q(np.array(["2024-01-02", "2024-02-12"], dtype="datetime64[D]"))
F("numpy.datetime_as_string", lambda g: [_days(g)], opt={"unit": ["D"], "timezone": ["UTC"], "casting": ["unsafe"]}, shapes=("1d",), dtypes=("f8",), tags=UNS)
F("numpy.is_busday", lambda g: [_days(g)], opt={"weekmask": ["1111110"], "holidays": [lambda g, a: np.array(["2024-01-01"], dtype="datetime64[D]")]}, shapes=("1d",), dtypes=("f8",), tags=UNS)
F("numpy.busday_offset", lambda g: [_days(g), g.q(np.array([1, 2]), "1")], opt={"roll": ["forward"]}, shapes=("1d",), dtypes=("f8",), tags=UNS, mixed=False)
F("numpy.busday_count", lambda g: [_days(g), g.q(np.array(["2024-03-01", "2024-03-10"], dtype="datetime64[D]"))], shapes=("1d",), dtypes=("f8",), tags=UNS, mixed=False)
