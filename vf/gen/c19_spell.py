"""Generator of unit spellings for a given reference dimension vector (C19).

Every spelling is a unit-expression string together with its scale and dimension vector computed by the independent
evaluator (vf.ref.uexpr over vf.ref.names / vf.ref.defs) -- never by unyt.  Classes of spelling: atomic symbol, SI-prefixed
symbol, documented alias (and prefix-word + alias), pure base-unit products in SI / CGS / imperial / mixed units written
either as a fraction or with negative powers (fractional exponents as u**(p/q) or sqrt(u)), a named unit of another
dimension completed by base units, and dimensionless ratios (km/m).
"""
from fractions import Fraction as Fr
from collections import namedtuple
from vf.ref import defs, dims, names, uexpr

# s: string ; a: scale to SI-coherent base ; b: additive term (base = a*reading + b; non-zero only for degC/degF style units)
# dim: vector ; cls: spelling class ; exact: every atom is exactly defined and not a listed C02 finding
U = namedtuple("U", "s a b dim cls exact")
BARE = U(None, 1.0, 0.0, dims.ZERO, "bare", True)

TAINTED = {"Tsun", "Mearth", "ly", "mp"}
NO_POOL = {"lat", "lon"}     # negative scale / reflected zero point: subject of C03, kept out of every pool

BASE_CHOICES = {
    0: ["kg", "g", "lb", "oz", "t", "mg", "slug"],
    1: ["m", "cm", "km", "ft", "inch", "mile", "mm", "yd", "nmi"],
    2: ["s", "ms", "min", "hr", "day", "us"],
    3: ["K", "R", "mK", "kK"],
    4: ["rad", "degree", "arcmin", "arcsec", "rev", "mrad"],
    5: ["A", "mA", "kA"],
    6: ["cd", "mcd"],
    7: ["Np", "B", "dB"],
}
SYSTEMS = {
    "si": ["kg", "m", "s", "K", "rad", "A", "cd", "Np"],
    "cgs": ["g", "cm", "s", "K", "rad", "A", "cd", "Np"],
    "imp": ["lb", "ft", "min", "R", "degree", "mA", "cd", "B"],
}
PREFIXES = ["k", "m", "u", "M", "G", "n", "c", "d", "da", "h", "p", "T"]
PREFIX_WORDS = ["kilo", "milli", "micro", "mega", "centi", "nano"]
import re as _re
_IDENT = _re.compile(r"^[A-Za-z][A-Za-z0-9_]*$")
RATIOS = ["km/m", "m/km", "ms/s", "cm/m", "hr/min", "g/kg", "inch/ft"]


class _Track:
    """resolver for uexpr that records which table symbols a spelling uses"""

    def __init__(self):
        self.base = names.resolver()
        self.syms = []
        self.ambiguous = False

    def __call__(self, tok):
        t = "percent" if tok == "%" else tok
        r = names.resolve(t)
        if r is not None:
            self.syms.append(r[1])
            if r[2]:
                self.ambiguous = True
        return self.base(tok)


def evaluate(s, cls):
    """-> U or None (unknown / ambiguous name)"""
    tr = _Track()
    try:
        scale, dim = uexpr.evaluate(s, tr)
    except uexpr.ParseError:
        return None
    if tr.ambiguous:
        return None
    exact = all(defs.T[x].cls == "exact" and x not in TAINTED for x in tr.syms)
    b = 0.0
    if len(tr.syms) == 1 and defs.T[tr.syms[0]].offset != 0.0:
        r = names.resolve(s)
        if r is None:
            return None
        de = defs.T[r[1]]
        b = -de.value * de.offset    # prefixed degC keeps its zero point (defs.to_base)
        if cls not in ("offset",):
            cls = "offset:" + cls
    elif any(defs.T[x].offset != 0.0 for x in tr.syms):
        return None                  # offset units inside compounds are the subject of C08
    return U(s, float(scale), float(b), dim, cls, exact)


def _pw(u, p):
    if p == 1:
        return u
    if p.denominator == 1:
        return f"{u}**{p.numerator}"
    return f"{u}**({p.numerator}/{p.denominator})"


def base_product(d, pick, style="frac"):
    """spelling of vector d over base units; pick(i) -> unit name for base dimension i"""
    num, den = [], []
    for i, e in enumerate(d):
        if e == 0:
            continue
        u = pick(i)
        if style == "pow":
            if e == 1:
                num.append(u)
            elif e.denominator == 1:
                num.append(f"{u}**{e.numerator}")
            else:
                num.append(f"{u}**({e.numerator}/{e.denominator})")
        elif style == "sqrt" and abs(e) == Fr(1, 2):
            (num if e > 0 else den).append(f"sqrt({u})")
        else:
            (num if e > 0 else den).append(_pw(u, abs(e)))
    s = "*".join(num) if num else "1"
    for x in den:
        s += "/" + x
    return s


def atoms_of(d, need_exact):
    out = []
    for sym, de in defs.T.items():
        if de.dim != d or sym in NO_POOL:
            continue
        if need_exact and (de.cls != "exact" or sym in TAINTED):
            continue
        out.append(sym)
    return out


def spellings(d, r, n, need_exact=True, allow_offset=False):
    """up to n distinct spellings of dimension vector d, round-robin over the spelling classes; r: random.Random"""
    by = {}

    def add(s, cls):
        u = evaluate(s, cls)
        if u is None or u.dim != d:
            return
        if need_exact and not u.exact:
            return
        if u.b != 0.0 and not allow_offset:
            return
        by.setdefault(u.cls, [])
        if all(x.s != s for v in by.values() for x in v):
            by[u.cls].append(u)

    if d == dims.ZERO:
        for s in ["dimensionless", "%", "percent", "counts"] + RATIOS:
            add(s, "ratio" if "/" in s else "atomic")
    atoms = atoms_of(d, need_exact)
    r.shuffle(atoms)
    A = names.alias_table()
    for sym in atoms:
        add(sym, "atomic")
        if defs.T[sym].prefixable:
            ps = PREFIXES[:]
            r.shuffle(ps)
            for p in ps[:3]:
                rr = names.resolve(p + sym)
                if rr is not None and rr[1] == sym and not rr[2] and abs(rr[0] / defs.PREFIX[p] - 1) < 1e-12:
                    add(p + sym, "prefixed")
        al = list(A.get(sym, ()))
        r.shuffle(al)
        for a in al[:2]:
            if _IDENT.match(a):
                rr = names.resolve(a)
                if rr is not None and rr[1] == sym and rr[0] == 1.0 and not rr[2]:
                    add(a, "alias")
                    if defs.T[sym].prefixable:
                        w = r.choice(PREFIX_WORDS)
                        rr = names.resolve(w + a)
                        if rr is not None and rr[1] == sym and not rr[2]:
                            add(w + a, "alias-prefixed")
    if d != dims.ZERO:
        frac = any(e.denominator != 1 for e in d)
        for sysname, tab in SYSTEMS.items():
            add(base_product(d, lambda i: tab[i], "frac"), "base-" + sysname)
        add(base_product(d, lambda i: SYSTEMS["si"][i], "pow"), "base-pow")
        add(base_product(d, lambda i: SYSTEMS["cgs"][i], "sqrt" if frac else "pow"), "base-sqrt" if frac else "base-pow")
        for _ in range(4):
            add(base_product(d, lambda i: r.choice(BASE_CHOICES[i]), r.choice(["frac", "pow", "frac"])), "base-mix")
        # a named unit of another dimension completed by base units
        cands = [s for s, de in defs.T.items() if de.offset == 0.0 and de.dim != dims.ZERO and de.dim != d and s not in NO_POOL
                 and (not need_exact or (de.cls == "exact" and s not in TAINTED)) and de.dim[7] == 0]
        r.shuffle(cands)
        got = 0
        for x in cands:
            rem = dims.div(d, defs.T[x].dim)
            if any(e.denominator != 1 for e in rem) or sum(abs(e) for e in rem) > 4 or sum(1 for e in rem if e != 0) > 2:
                continue
            rest = base_product(rem, lambda i: r.choice(BASE_CHOICES[i][:3]), "frac")
            s = x + rest[1:] if rest.startswith("1/") else x + "*" + rest
            add(s, "named-compound")
            got += 1
            if got >= 4:
                break
    # round-robin over the classes
    order = sorted(by)
    r.shuffle(order)
    out = []
    while len(out) < n and any(by[c] for c in order):
        for c in order:
            if by[c] and len(out) < n:
                out.append(by[c].pop(0))
    return out


def near_misses(d):
    """dimension vectors that differ from d the way a careless unit differs: one base factor more or less, the inverse,
    the square, the same with an angle factor, and dimensionless"""
    out = []
    for i in (1, 2, 0, 4, 3, 5):
        for delta in (1, -1):
            v = list(d)
            v[i] = v[i] + delta
            out.append(tuple(v))
    out.append(dims.power(d, -1))
    out.append(dims.power(d, 2))
    out.append(dims.ZERO)
    seen = []
    for v in out:
        if v != d and v not in seen:
            seen.append(v)
    return seen
