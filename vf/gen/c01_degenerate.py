"""C01 workload dimension: degenerate operand SIZES.

An operand of another dimension keeps its dimension when it holds no value at all (size 0: shapes (0,), (0,3), (2,0), (0,0)) or a single one
((1,), (1,1), (1,3), (2,1)); "there is nothing / only one thing to merge" is not one of the exceptions the property lists.  This module is pure
data: shape codes, which of them broadcast against which, and *plans* that say which operands of a call template are resized.  It holds no
expectation about any outcome and never imports unyt.

shape codes (added to the three regular ones "0" = (), "1" = (3,), "2" = (2,3)):
    e  (0,)    e3 (0,3)   2e (2,0)   ee (0,0)         -> class "empty"
    o  (1,)    oo (1,1)   o3 (1,3)   2o (2,1)         -> class "one"   (o3 / 2o: one row / one column - one element along an axis)

plans for a call template with operands P, P2 (1-d), M (2-d), S (square), masks, index arrays, out= buffers and the operand X under test:
    ("X", code)   only X / X2 take the degenerate shape `code`, every other operand keeps its regular size
    ("all", n)    every operand is resized to n (0 or 1) elements along the template's data axis: P, P2, masks, index arrays (n,), M (2,n),
                  S (n,n), buffers (n,), (2n,), (2,n); X keeps the rank the template gives it: (), (n,), (2,n)
    ("P", n)      like ("all", n) but X / X2 keep their regular size (the degenerate operand is the one X is merged INTO)
A combination NumPy itself cannot run (shapes that do not broadcast, index out of range) is recognised by the judge because the same template
with the same shapes on all-dimensionless operands does not return either: it is counted as vacuous, never as a refusal.
"""
import numpy as np

REGULAR = {"0": (), "1": (3,), "2": (2, 3)}
EMPTY = {"e": (0,), "e3": (0, 3), "2e": (2, 0), "ee": (0, 0)}
ONE = {"o": (1,), "oo": (1, 1), "o3": (1, 3), "2o": (2, 1)}
DSHAPES = {**EMPTY, **ONE}
ALL_SHAPES = {**REGULAR, **DSHAPES}
CLASSES = ("empty", "one")
PLAN_MODES = ("X", "all", "P")


def shape_class(code):
    """'empty' | 'one' | None (regular)"""
    if code in EMPTY:
        return "empty"
    if code in ONE:
        return "one"
    return None


def pair_class(c1, c2):
    """class of an operand pair: 'empty' if either is empty, else 'one' if either is one-element, else None"""
    k = {shape_class(c1), shape_class(c2)}
    if "empty" in k:
        return "empty"
    if "one" in k:
        return "one"
    return None


def broadcastable(c1, c2):
    try:
        np.broadcast_shapes(ALL_SHAPES[c1], ALL_SHAPES[c2])
        return True
    except ValueError:
        return False


def ufunc_shape_pairs(tier):
    """ordered pairs of shape codes with at least one degenerate member that NumPy can broadcast; quick: one representative per
    (class of first, class of second, ranks) combination, thorough: all of them"""
    codes = list(ALL_SHAPES)
    allp = [(a, b) for a in codes for b in codes if pair_class(a, b) is not None and broadcastable(a, b)]
    quick = [("e", "e"), ("e", "o"), ("o", "e"), ("e", "0"), ("0", "e"), ("e3", "e3"), ("e3", "1"), ("1", "e3"), ("2e", "2e"), ("2e", "2o"),
             ("2o", "2e"), ("e3", "o3"), ("o", "o"), ("o", "1"), ("1", "o"), ("o", "0"), ("0", "o"), ("o", "2"), ("2", "o"), ("oo", "2"),
             ("2", "oo"), ("o3", "2"), ("2", "2o"), ("oo", "oo"), ("2o", "o3"), ("ee", "oo")]
    assert all(p in allp for p in quick), [p for p in quick if p not in allp]
    if tier != "quick":
        # about twice the quick set: every second of the remaining broadcastable pairs
        return quick + [p for p in allp if p not in quick][::2]
    return quick


def plans(tier):
    """template plans, see module docstring"""
    xs = ["e", "o", "e3", "2e", "oo", "o3", "2o"] + ([] if tier == "quick" else ["ee"])
    return [("X", c) for c in xs] + [("all", 0), ("all", 1), ("P", 0), ("P", 1)]


def plan_class(plan):
    mode, v = plan
    if mode == "X":
        return "X-" + shape_class(v)
    return f"{mode}-{'empty' if v == 0 else 'one'}"


PLAN_CLASSES = tuple(f"{m}-{c}" for m in PLAN_MODES for c in CLASSES)


def plan_tag(plan):
    return f"deg[{plan[0]}={plan[1]}]"


def resize(base, shape, dt):
    """values of `shape` drawn cyclically from the 1-d sequence `base` (no values at all for an empty shape)"""
    n = int(np.prod(shape)) if len(shape) else 1
    if n == 0:
        return np.zeros(shape, dtype=dt)
    a = np.array([base[i % len(base)] for i in range(n)], dtype=dt)
    return a.reshape(shape)


def env_shapes(plan, xshp):
    """shapes of the operands of a call template under `plan`; xshp is the template's own code for X ('0' | '1' | '2').
    -> (shape code of X, length n of the 1-d operands)"""
    mode, v = plan
    if mode == "X":
        return v, 3
    n = v
    if mode == "P":
        return xshp, n
    return {"0": "0", "1": "eo"[n], "2": ("2e", "2o")[n]}[xshp], n
