"""npcatalog entries: reshaping, selection, sorting, set operations, index helpers, creation-like, string/IO."""
import io
import numpy as np
from vf.gen.npcatalog import F, X, Multi, Skip, Q, QView

ALL = ("1d", "2d", "3d", "0d", "e1", "sq")
ND = ("1d", "2d", "3d", "sq")
A1 = lambda g: [g.a()]
SD = {"same-dimension"}
VIEW = {"same-dimension", "view"}
IDX = {"index-like"}


def need2(g):
    if len(g.dims()) < 2:
        raise Skip("ndim<2")
    return [g.a()]


def need1(g):
    if len(g.dims()) < 1:
        raise Skip("ndim<1")
    return [g.a()]


# reshaping ----------------------------------------------------------------------------------------------
F("numpy.ravel", A1, opt={"order": ["F", "K", "A"]}, shapes=ALL, tags=VIEW)
F("numpy.reshape", lambda g: [g.a(), (-1,)], opt={"order": ["F"], "copy": [True]}, shapes=ALL, tags=VIEW,
  forms={"2d": (lambda g: [g.a(shape=(2, 6)), (3, 4)]), "kw:shape": (lambda g: ([g.a(shape=(2, 6))], {"shape": (4, 3)})),
         "int": (lambda g: [g.a(shape=(2, 3)), 6]), "to0d": (lambda g: [g.a(shape=(1,)), ()])})
F("numpy.squeeze", lambda g: [g.a(shape=(1,) + g.dims() + (1,))], opt={"axis": [0, -1, (0, -1)]}, shapes=ALL, tags=VIEW,
  forms={"size1": (lambda g: [g.a(shape=(1, 1))])})
F("numpy.transpose", A1, opt={"axes": [lambda g, a: tuple(range(a[0].data.ndim))[::-1], lambda g, a: (1, 0) + tuple(range(2, a[0].data.ndim))]},
  shapes=ALL, tags=VIEW)
F("numpy.permute_dims", A1, opt={"axes": [lambda g, a: tuple(range(a[0].data.ndim))[::-1]]}, shapes=ALL, tags=VIEW)
F("numpy.matrix_transpose", need2, shapes=("2d", "3d", "sq", "stk"), tags=VIEW)
F("numpy.swapaxes", lambda g: need2(g) + [0, 1], shapes=("2d", "3d", "sq"), tags=VIEW, forms={"neg": (lambda g: need2(g) + [-1, 0])})
F("numpy.moveaxis", lambda g: need2(g) + [0, -1], shapes=("2d", "3d", "sq"), tags=VIEW,
  forms={"seq": (lambda g: (g.need("3d") or [g.a(), [0, 1], [1, 2]]))})
F("numpy.rollaxis", lambda g: need2(g) + [1], opt={"start": [1, 2]}, shapes=("2d", "3d", "sq"), tags=VIEW)
F("numpy.expand_dims", lambda g: [g.a(), 0], shapes=ALL, tags=VIEW, forms={"last": (lambda g: [g.a(), -1]), "tuple": (lambda g: [g.a(), (0, 1)])})
F("numpy.flip", A1, opt={"axis": [0, -1, (0, 1)]}, shapes=ALL, tags=VIEW)
F("numpy.fliplr", need2, shapes=("2d", "3d", "sq"), tags=VIEW)
F("numpy.flipud", need1, shapes=ND, tags=VIEW)
F("numpy.rot90", need2, opt={"k": [2, 3, -1], "axes": [(1, 0)]}, shapes=("2d", "3d", "sq"), tags=VIEW)
F("numpy.roll", lambda g: [g.a(), 2], opt={"axis": [0, -1]}, shapes=ALL, tags=SD,
  forms={"tuple": (lambda g: need2(g) + [(1, -1), (0, 1)]), "neg": (lambda g: [g.a(), -1])})
F("numpy.repeat", lambda g: [g.a(), 2], opt={"axis": [0, -1]}, shapes=ALL, tags=SD,
  forms={"per-element": (lambda g: (lambda a: ([a, g.ints(a.data.shape[0], 0, 3)], {"axis": 0}))(need1(g)[0]))})
F("numpy.tile", lambda g: [g.a(), 2], shapes=ALL, tags=SD, forms={"tuple": (lambda g: [g.a(), (2, 1, 3)]), "kw:reps": (lambda g: ([g.a()], {"reps": (1, 2)}))})
F("numpy.resize", lambda g: [g.a(), (3, 3)], shapes=("1d", "2d", "3d", "0d", "sq"), tags=SD, forms={"shrink": (lambda g: [g.a(), 2]), "kw": (lambda g: ([g.a()], {"new_shape": (2, 5)}))})
for n in ("atleast_1d", "atleast_2d", "atleast_3d"):
    F("numpy." + n, A1, shapes=ALL, tags=VIEW, forms={"several": (lambda g: [g.a(), g.a(shape=()), g.a("B", shape=(2,))])})
F("numpy.broadcast_to", lambda g: [g.a(), (2,) + g.dims()], opt={"subok": [True]}, shapes=ALL, tags=VIEW,
  forms={"kw:shape+subok": (lambda g: ([g.a(shape=(3, 1))], {"shape": (2, 3, 4), "subok": True}))})
F("numpy.broadcast_arrays", lambda g: [g.a(shape=(3, 1)), g.a("B", shape=(1, 4))], opt={"subok": [True]}, shapes=("2d",), tags=VIEW,
  forms={"three+subok": (lambda g: ([g.a(shape=(3, 1)), g.a(shape=(4,)), g.a("B", shape=())], {"subok": True}))})
F("numpy.diag", need1, opt={"k": [1, -1]}, shapes=("1d", "2d", "sq", "e1"), tags=SD)
F("numpy.diagflat", A1, opt={"k": [1, -2]}, shapes=("1d", "2d", "0d", "e1"), tags=SD)
F("numpy.diagonal", need2, opt={"offset": [1, -1], "axis1+axis2": [Multi(axis1=1, axis2=0), Multi(offset=1, axis1=-1, axis2=0)]},
  shapes=("2d", "3d", "sq", "stk"), tags=VIEW)
for n in ("tril", "triu"):
    F("numpy." + n, need1, opt={"k": [1, -1, 2]}, shapes=("1d", "2d", "3d", "sq", "stk"), tags=SD)
F("numpy.copy", A1, opt={"order": ["F", "C"], "subok": [True]}, shapes=ALL, tags=SD)
F("numpy.delete", lambda g: need1(g) + [1], opt={"axis": [0, -1]}, shapes=ND, tags=SD,
  forms={"slice": (lambda g: need1(g) + [slice(0, 2)]), "list": (lambda g: (need1(g) + [[0, -1]], {"axis": 0})),
         "mask": (lambda g: (lambda a: ([a, g.mask((a.data.shape[0],))], {"axis": 0}))(need1(g)[0]))})
F("numpy.insert", lambda g: need1(g) + [1, g.q(np.asarray(7, g.dtype))], opt={"axis": [0, -1]}, shapes=ND, tags=SD,
  forms={"bare-value": (lambda g: need1(g) + [1, 7]), "multi": (lambda g: [g.a(shape=(5,)), [1, 3], g.a(shape=(2,))]),
         "rows": (lambda g: ([g.a(shape=(3, 4)), 1, g.a(shape=(4,))], {"axis": 0})),
         "cols-broadcast": (lambda g: ([g.a(shape=(3, 4)), [0, 2], g.a(shape=(3, 1))], {"axis": 1})),
         "slice-obj": (lambda g: [g.a(shape=(6,)), slice(1, 4, 2), g.a(shape=(2,))]),
         "neg-index": (lambda g: [g.a(shape=(6,)), -1, g.a(shape=())])})
F("numpy.append", lambda g: [g.a(), g.a(shape=(2,))], shapes=ALL, tags=SD,
  forms={"axis0": (lambda g: (lambda a: ([a, g.like(a)], {"axis": 0}))(need1(g)[0])), "axis-1": (lambda g: (lambda a: ([a, g.like(a)], {"axis": -1}))(need1(g)[0]))})
PADW = [1, (1, 2)]
F("numpy.pad", lambda g: need1(g) + [1], opt={"mode": ["edge", "reflect", "symmetric", "wrap", "mean", "median", "maximum", "minimum", "linear_ramp"]},
  shapes=ND, tags=SD,
  forms={"widths": (lambda g: need1(g) + [(1, 2)]), "per-axis": (lambda g: (lambda a: [a, [(1, 0)] * a.data.ndim])(need1(g)[0])),
         "kw:pad_width": (lambda g: (need1(g), {"pad_width": 2})),
         "kw:constant_values": (lambda g: (need1(g) + [2], {"mode": "constant", "constant_values": 5})),
         "kw:constant_values#unit": (lambda g: (need1(g) + [2], {"constant_values": g.q(np.asarray(5, g.dtype))})),
         "kw:constant_values#pair": (lambda g: (need1(g) + [(1, 2)], {"constant_values": (3, 4)})),
         "kw:stat_length": (lambda g: (g.real_only() or (need1(g) + [2], {"mode": "mean", "stat_length": 2}))),
         "kw:end_values": (lambda g: (need1(g) + [2], {"mode": "linear_ramp", "end_values": (1, 2)})),
         "kw:reflect_type": (lambda g: (need1(g) + [2], {"mode": "reflect", "reflect_type": "odd"})),
         "callable": (lambda g: (need1(g) + [1, (lambda v, w, i, k: None)], {}))},
  params={"constant_values", "stat_length", "end_values", "reflect_type"})
X("numpy.pad", "kw:mode#empty", lambda g: (need1(g) + [1], {"mode": "empty"}), tags=SD | {"uninitialized"}, shapes=ND, params={"mode"},
  observe=lambda a, k, r: (np.shape(r), np.asarray(r).dtype.str))
F("numpy.trim_zeros", lambda g: [g.q(np.concatenate([[0, 0], g.raw((4,), 1, 5), [0]]).astype(g.dtype))], opt={"trim": ["f", "b"], "axis": [0]},
  shapes=("1d",), tags=SD, forms={"2d": (lambda g: [g.q(np.pad(g.raw((2, 3), 1, 5), 1).astype(g.dtype))])})

# sorting / searching ---------------------------------------------------------------------------------------
F("numpy.sort", A1, opt={"axis": [0, None], "kind": ["stable", "heapsort", "mergesort"], "stable": [True], "descending": [True]}, shapes=ALL, tags=SD)
F("numpy.argsort", A1, opt={"axis": [0, None], "kind": ["stable"], "stable": [True], "descending": [True]}, shapes=ALL, tags=IDX)
F("numpy.sort_complex", A1, shapes=("1d", "2d", "e1"), tags=SD)
F("numpy.partition", lambda g: [g.distinct(), 1], opt={"axis": [0, None], "kind": ["introselect"]}, shapes=ND, tags=SD,
  forms={"multi-kth": (lambda g: [g.distinct(shape=(7,)), (1, 4)])})
F("numpy.argpartition", lambda g: [g.distinct(), 1], opt={"axis": [0, None]}, shapes=ND, tags=IDX)
F("numpy.lexsort", lambda g: (g.real_only() or [(g.a(shape=(6,), lo=0, hi=2), g.a("B", shape=(6,), lo=0, hi=2))]), opt={"axis": [0]}, shapes=("1d",), tags=IDX,
  forms={"2d-keys": (lambda g: (g.real_only() or [g.a(shape=(3, 5), lo=0, hi=3)]))})
F("numpy.searchsorted", lambda g: (g.real_only() or [g.sorted1(), g.a(shape=(4,))]), opt={"side": ["right"], "sorter": [lambda g, a: np.arange(a[0].data.size)]},
  shapes=("1d",), tags=IDX,
  forms={"scalar-v": (lambda g: (g.real_only() or [g.sorted1(), g.a(shape=())])), "bare-number": (lambda g: (g.real_only() or [g.sorted1(), 2])),
         "sorter-perm": (lambda g: (g.real_only() or (lambda d, p: ([g.q(d[np.argsort(p)]), g.a(shape=(3,))], {"sorter": p, "side": "right"}))(np.sort(g.raw((6,)).real.astype(g.dtype)), np.array(g.rng.sample(range(6), 6)))))})
F("numpy.digitize", lambda g: (g.real_only() or [g.a(shape=(6,)), g.q(np.array([-5, -1, 0, 3, 7]).astype(g.dtype) if g.dtype.kind != "u" else np.array([1, 3, 5, 7], g.dtype))]),
  opt={"right": [True]}, shapes=("1d",), tags=IDX, forms={"decreasing": (lambda g: (g.real_only() or [g.a(shape=(6,)), g.q(np.array([7, 3, 0]).astype(g.dtype))]))})
F("numpy.bincount", lambda g: [g.q(g.ints((7,), 0, 4), "1")], opt={"weights": [lambda g, a: Q(g.raw((7,), dtype="f8"), "A")], "minlength": [8]},
  shapes=("1d",), dtypes=("i8",), tags=IDX, forms={"unit-ints": (lambda g: [g.q(g.ints((7,), 0, 4), "A")])})
F("numpy.nonzero", lambda g: [g.a(lo=-1, hi=1)], shapes=("1d", "2d", "3d", "e1", "sq"), tags=IDX)
F("numpy.flatnonzero", lambda g: [g.a(lo=-1, hi=1)], shapes=ALL, tags=IDX)
F("numpy.argwhere", lambda g: [g.a(lo=-1, hi=1)], shapes=ALL, tags=IDX)
F("numpy.where", lambda g: [g.mask(), g.a(), g.a()], shapes=ALL, tags=SD,
  forms={"cond-only": (lambda g: [g.a(lo=-1, hi=1)]), "scalar-y": (lambda g: [g.mask(), g.a(), g.a(shape=())]),
         "cond-from-unit": (lambda g: [g.a("1", lo=0, hi=1), g.a(), g.a()]), "broadcast": (lambda g: [g.mask((3, 1)), g.a(shape=(1, 4)), g.a(shape=(3, 4))])})
F("numpy.select", lambda g: [[g.mask(), g.mask()], [g.a(), g.a()]], opt={"default": [lambda g, a: Q(np.asarray(7, g.dtype), "A"), 5]}, shapes=ALL, tags=SD,
  forms={"three": (lambda g: [[g.mask(), g.mask(), g.mask()], [g.a(), g.a(), g.a()], g.q(np.asarray(-1).astype(g.dtype) if g.dtype.kind != "u" else np.asarray(1, g.dtype))])})
F("numpy.choose", lambda g: [g.ints(g.dims(), 0, 2), [g.a(), g.a(), g.a()]], opt={"mode": ["wrap", "clip"]}, out=True, shapes=ALL, tags=SD,
  forms={"wrap-oob": (lambda g: ([g.ints(g.dims(), -3, 6), [g.a(), g.a(), g.a()]], {"mode": "wrap"})),
         "clip-oob": (lambda g: ([g.ints(g.dims(), -3, 6), [g.a(), g.a(), g.a()]], {"mode": "clip"})),
         "dimensionless-index": (lambda g: [g.q(g.ints(g.dims(), 0, 1), "1"), [g.a(), g.a()]])})
F("numpy.compress", lambda g: (lambda a: [g.mask((a.data.shape[0],)), a])(need1(g)[0]), opt={"axis": [0]}, out=True, shapes=ND, tags=SD,
  forms={"axis-1": (lambda g: (lambda a: ([g.mask((a.data.shape[-1],)), a], {"axis": -1}))(need1(g)[0]))})
F("numpy.extract", lambda g: [g.mask(), g.a()], shapes=ALL, tags=SD, forms={"cond-from-values": (lambda g: (lambda a: [a.data.real > 0, a])(g.a()))})
F("numpy.take", lambda g: need1(g) + [[0, -1, 1]], opt={"axis": [0, -1], "mode": ["wrap", "clip"]}, out=True, shapes=ND, tags=SD,
  forms={"scalar-index": (lambda g: need1(g) + [1]), "scalar-index+axis": (lambda g: (need1(g) + [1], {"axis": 0})),
         "2d-indices": (lambda g: need1(g) + [[[0, 1], [1, 0]]]), "2d-indices+axis": (lambda g: (need2(g) + [[[0, 1], [1, 0]]], {"axis": 1})),
         "wrap-oob": (lambda g: (need1(g) + [[-7, 11, 2]], {"mode": "wrap"})), "clip-oob": (lambda g: (need1(g) + [[-7, 11, 2]], {"mode": "clip", "axis": 0})),
         "unit-indices": (lambda g: need1(g) + [g.q(np.array([0, 1]), "1")])})
F("numpy.take_along_axis", lambda g: (lambda a: [a, np.argsort(a.data.real, axis=0), 0])(need1(g)[0]), shapes=ND, tags=SD,
  forms={"axis-1": (lambda g: (lambda a: ([a, np.argsort(a.data.real, axis=-1)], {"axis": -1}))(need1(g)[0])),
         "flat": (lambda g: (lambda a: ([a, np.arange(a.data.size)[::-1].copy()], {"axis": None}))(need1(g)[0]))})
for n in ("unique", "unique_values", "unique_all", "unique_counts", "unique_inverse"):
    F("numpy." + n, lambda g: [g.a(lo=0, hi=3)], shapes=ALL, allkw=(n == "unique"), tags=SD if n in ("unique", "unique_values") else {"mixed-result"},
      opt=({"return_index": [True], "return_inverse": [True], "return_counts": [True], "axis": [0, -1], "equal_nan": [False], "sorted": [True],
            "return_index+return_inverse+return_counts": [Multi(return_index=True, return_inverse=True, return_counts=True)]} if n == "unique" else None))
X("numpy.unique", "nan", lambda g: ([g.q(np.array([1, np.nan, 2, np.nan, 1]).astype(g.dtype))], {"equal_nan": False}), tags=SD, shapes=("1d",), dtypes=("f8",))

# set operations -----------------------------------------------------------------------------------------------
S2 = lambda g: [g.a(shape=(6,), lo=0, hi=5), g.a(shape=(5,), lo=2, hi=8)]
U2 = lambda g: [g.distinct(shape=(6,)), g.q(g.distinct(shape=(5,)).data + 2)]
F("numpy.intersect1d", S2, opt={"assume_unique": [True], "return_indices": [True]}, shapes=("1d",), tags=SD, forms={"unique-inputs": (lambda g: (U2(g), {"assume_unique": True, "return_indices": True}))})
F("numpy.union1d", S2, shapes=("1d",), tags=SD, forms={"2d": (lambda g: [g.a(shape=(2, 3), lo=0, hi=5), g.a(shape=(4,), lo=2, hi=8)])})
F("numpy.setdiff1d", S2, opt={"assume_unique": [True]}, shapes=("1d",), tags=SD, forms={"unique-inputs": (lambda g: (U2(g), {"assume_unique": True}))})
F("numpy.setxor1d", S2, opt={"assume_unique": [True]}, shapes=("1d",), tags=SD, forms={"unique-inputs": (lambda g: (U2(g), {"assume_unique": True}))})
F("numpy.isin", lambda g: [g.a(lo=0, hi=5), g.a(shape=(4,), lo=2, hi=8)], opt={"assume_unique": [True], "invert": [True], "kind": ["sort", "table"]},
  shapes=ALL, tags=IDX, forms={"list-of-scalars": (lambda g: [g.a(lo=0, hi=5), [g.a(shape=()), g.a(shape=())]])})

# index helpers --------------------------------------------------------------------------------------------------
F("numpy.ravel_multi_index", lambda g: [(g.q(g.ints((4,), 0, 2), "1"), g.q(g.ints((4,), 0, 3), "1")), (3, 4)], opt={"mode": ["wrap", "clip"], "order": ["F"]},
  shapes=("1d",), dtypes=("i8",), tags=IDX, forms={"array": (lambda g: [g.q(g.ints((2, 4), 0, 2), "A"), (3, 4)]),
                                                    "oob-wrap": (lambda g: ([g.q(g.ints((2, 4), -3, 7), "A"), (3, 4)], {"mode": "wrap"}))})
F("numpy.unravel_index", lambda g: [g.q(g.ints((5,), 0, 11), "1"), (3, 4)], opt={"order": ["F"]}, shapes=("1d",), dtypes=("i8",), tags=IDX,
  forms={"unit": (lambda g: [g.q(g.ints((5,), 0, 11), "A"), (3, 4)]), "scalar": (lambda g: [g.q(np.asarray(7), "A"), (3, 4)])})
F("numpy.diag_indices_from", lambda g: [g.a()], shapes=("sq",), tags=IDX)
for n in ("tril_indices_from", "triu_indices_from"):
    F("numpy." + n, need2, opt={"k": [1, -1]}, shapes=("2d", "sq"), tags=IDX)

# creation-like -----------------------------------------------------------------------------------------------------
for n in ("zeros_like", "ones_like", "empty_like"):
    F("numpy." + n, A1, opt={"dtype": ["f4", "i8"], "order": ["F"], "subok": [False], "shape": [(2, 2)], "device": ["cpu"]}, shapes=ALL,
      tags={"prototype"} | ({"uninitialized"} if n == "empty_like" else set()),
      observe=(lambda a, k, r: (np.shape(r), np.asarray(r).dtype.str)) if n == "empty_like" else None)
F("numpy.full_like", lambda g: [g.a(), 3], opt={"dtype": ["f4", "i8"], "order": ["F"], "subok": [False], "shape": [(2, 2)], "device": ["cpu"]}, shapes=ALL, tags={"prototype"},
  forms={"unit-fill": (lambda g: [g.a(), g.q(np.asarray(4, g.dtype))]), "kw:fill_value": (lambda g: ([g.a()], {"fill_value": 2.5}))})
F("numpy.linspace", lambda g: (g.need("0d", "1d") or [g.a(shape=g.dims()[:0] if g.shape == "0d" else (3,)), g.a(shape=() if g.shape == "0d" else (3,), lo=10, hi=20)]),
  opt={"num": [5, 1, 0], "endpoint": [False], "retstep": [True], "dtype": ["f4"], "axis": [-1], "device": ["cpu"]}, shapes=("0d", "1d"), tags=SD,
  forms={"num+endpoint+retstep": (lambda g: ([g.a(shape=()), g.a(shape=(), lo=10, hi=20)], {"num": 7, "endpoint": False, "retstep": True})),
         "array+axis": (lambda g: ([g.a(shape=(2,)), g.a(shape=(2,), lo=10, hi=20)], {"num": 4, "axis": 1}))})
F("numpy.geomspace", lambda g: (g.need("0d", "1d") or [g.pos(shape=() if g.shape == "0d" else (3,)), g.pos(shape=() if g.shape == "0d" else (3,), lo=10, hi=20)]),
  opt={"num": [5, 1], "endpoint": [False], "dtype": ["f4"], "axis": [-1]}, shapes=("0d", "1d"), tags=SD)
F("numpy.logspace", lambda g: (g.real_only() or [g.q(np.asarray(1, g.dtype), "1"), g.q(np.asarray(3, g.dtype), "1")]),
  opt={"num": [5], "endpoint": [False], "base": [2.0, lambda g, a: Q(np.asarray(3.0), "A")], "dtype": ["f4"], "axis": [-1]}, shapes=("0d",), mixed=False,
  forms={"bare+unit-base": (lambda g: (g.real_only() or ([1, 3], {"num": 4, "base": g.q(np.asarray(2.0))}))),
         "array+axis": (lambda g: (g.real_only() or ([g.q(np.array([0, 1]), "1"), g.q(np.array([2, 3]), "1")], {"num": 3, "axis": 1, "base": g.q(np.asarray(2.0))})))})
F("numpy.meshgrid", lambda g: [g.a(shape=(3,)), g.a("B", shape=(4,))], opt={"copy": [False], "sparse": [True], "indexing": ["ij"]}, shapes=("1d",), tags=SD,
  forms={"three": (lambda g: [g.a(shape=(2,)), g.a(shape=(3,)), g.a("B", shape=(2,))]), "one": (lambda g: [g.a(shape=(3,))]), "scalar": (lambda g: [g.a(shape=()), g.a(shape=(2,))])})

# dtype / memory queries (opaque results) ------------------------------------------------------------------------------
for n in ("min_scalar_type", "result_type", "common_type"):
    F("numpy." + n, A1, shapes=("1d", "0d"), tags={"opaque"}, forms=({"two": (lambda g: [g.a(), g.a("B", dtype="f4")])} if n != "min_scalar_type" else None))
F("numpy.can_cast", lambda g: [g.a(), "f8"], opt={"casting": ["unsafe", "same_kind"]}, shapes=("1d",), tags={"opaque"}, forms={"to-int": (lambda g: [g.a(), "i2"])})
for n in ("may_share_memory", "shares_memory"):
    F("numpy." + n, lambda g: [g.a(shape=(6,)), g.a(shape=(6,))], shapes=("1d",), tags=IDX, mixed=False,
      forms={"alias": (lambda g: (lambda q: [q, QView(q, slice(1, 4))])(g.a(shape=(6,)))), "same": (lambda g: (lambda q: [q, q])(g.a(shape=(6,)))),
             "disjoint-views": (lambda g: (lambda q: [QView(q, slice(0, 3)), QView(q, slice(3, 6))])(g.a(shape=(6,))))})

# strings and files ---------------------------------------------------------------------------------------------------
F("numpy.array2string", A1, opt={"precision": [2], "separator": [", "], "max_line_width": [20], "suppress_small": [True], "prefix": ["xx"], "threshold": [3],
                                "edgeitems": [1], "sign": ["+"], "floatmode": ["fixed"], "suffix": ["yy"], "legacy": [False],
                                "formatter": [lambda g, a: {"all": lambda v: "<%s>" % v}]}, shapes=ALL, tags={"opaque"})
F("numpy.array_repr", A1, opt={"precision": [2], "max_line_width": [20], "suppress_small": [True]}, shapes=ALL, tags={"opaque"})
F("numpy.array_str", A1, opt={"precision": [2], "max_line_width": [20], "suppress_small": [True]}, shapes=ALL, tags={"opaque"})


def _buf_load(a, k, r):
    f = k.get("file", a[0] if a else None)
    data = f.getvalue()
    z = np.load(io.BytesIO(data), allow_pickle=False)
    if hasattr(z, "files"):
        return {n: z[n] for n in z.files}
    return z


F("numpy.save", lambda g: [io.BytesIO(), g.a()], opt={"allow_pickle": [False]}, shapes=ALL, tags={"opaque", "file"}, observe=_buf_load, allkw=False)
for n in ("savez", "savez_compressed"):
    F("numpy." + n, lambda g: [io.BytesIO(), g.a(), g.a("B", shape=(2,))], shapes=("1d", "2d"), tags={"opaque", "file"}, observe=_buf_load, mixed=False, allkw=False,
      forms={"named": (lambda g: ([io.BytesIO()], {"x": g.a(), "y": g.a("B", shape=(2,))}))}, params={"kwds"})
F("numpy.savetxt", lambda g: (g.real_only() or [io.StringIO(), g.a()]), opt={"fmt": ["%.3f"], "delimiter": [","], "newline": ["|"], "header": ["h"], "footer": ["f"],
                                                                            "comments": ["%"], "encoding": ["latin1"]},
  shapes=("1d", "2d"), tags={"opaque", "file"}, observe=lambda a, k, r: (k.get("fname", a[0] if a else None)).getvalue(), allkw=False)
