"""C09 workload dimension: the unit registry the operands of an equivalence conversion are bound to.

A *registry spec* is plain JSON-able data describing how to create one fresh registry:

    {"cls": <registry class, part of mechanism keys and cells>,
     "sys": None | "cgs" | "galactic" | ...      -> UnitRegistry(unit_system=sys)   (None: UnitRegistry())
     "add": [[symbol, scale, member-kind, prefixable], ...]   -> reg.add(symbol, scale, dimension of the kind, prefixable=)
     "mod": [[symbol, scale], ...]               -> reg.modify(symbol, scale)       (after the adds: add-then-modify histories)
     "codesys": bool                             -> UnitSystem(reg.unit_system_id, code_length, code_mass, code_time, code_temperature,
                                                    registry=reg)  (what yt's create_code_unit_system does)
     "tu": "own" | "default"}                    -> Unit-object targets are built against this registry / the default registry

Registry classes:
    nonmks-system    UnitRegistry(unit_system=S), S one of the six built-in non-MKS systems; default symbols only
    mks-system       UnitRegistry(unit_system='mks'): a fresh registry object whose default system is MKS
    added-symbols    a user symbol of the member dimension (arbitrary scale, sometimes prefixable and used with a prefix)
    modified-default-symbol  reg.modify() of a non-coherent default symbol that the input/target unit is written in
    modified-user-symbol     reg.modify() of a user symbol added with a placeholder scale first (add -> modify history, as yt does);
                     both are requested as "modified-symbol", the generator reports which one it produced in spec["cls"]
    code-units       code_length/code_mass/code_time/code_temperature/code_velocity/code_density with scales over many decades,
                     a code unit system registered for the registry, units written as code atoms or code compounds

The reference meaning of a registry symbol is the scale handed to add()/modify() (`overlay`), everything else keeps the meaning
of vf/ref/defs+names; the generator never picks a modification that another token of the same case is derived from (a prefixed
or aliased spelling of the modified symbol), so the overlay is complete for the unit strings of the case.
"""
from vf.ref import defs, equivs, names, uexpr

NONMKS = ("cgs", "galactic", "imperial", "planck", "geometrized", "solar")
CLASSES = ("nonmks-system", "mks-system", "added-symbols", "modified-default-symbol", "modified-user-symbol", "code-units")

# how a member kind is written in code units (atoms and compounds); kinds without an entry keep their pool unit
CODE_FORMS = {
    "length": ["code_length", "code_velocity*code_time"],
    "mass": ["code_mass", "code_density*code_length**3"],
    "temperature": ["code_temperature"],
    "rate": ["1/code_time", "code_velocity/code_length", "code_time**-1"],
    "spatial_frequency": ["1/code_length", "code_length**-1"],
    "velocity": ["code_velocity", "code_length/code_time"],
    "energy": ["code_mass*code_velocity**2", "code_mass*code_length**2/code_time**2"],
    "flux": ["code_mass/code_time**3", "code_density*code_velocity**3"],
    "density": ["code_density", "code_mass/code_length**3"],
    "number_density": ["code_length**-3", "1/code_length**3"],
}
# default symbols a user may plausibly re-value (non-coherent named units; never SI/CGS base or coherent derived units, which the
# library's own constants are written in)
MODIFIABLE = ("Msun", "lb", "mile", "pc", "AU", "eV", "cal", "BTU", "amu", "me", "Rsun", "ft", "inch", "yr", "Lsun", "Jy", "hp",
              "gal_US", "smoot", "furlong", "kt", "mph", "oz", "slug", "t", "Ry", "foe", "therm", "Mjup", "Rearth", "Rjup", "yd",
              "nmi", "mil", "ton", "day", "hr", "min", "R", "T_pl", "E_pl", "m_pl", "l_pl", "Wh", "lbf")


def _mant(r):
    return r.choice([1.0, 2.5, 3.0, 0.7, round(r.uniform(1.0, 10.0), 3)])


def _scale(r, kind):
    if kind == "temperature":
        return _mant(r) * 10 ** r.randrange(-2, 4)
    if kind == "dimensionless":
        return _mant(r) * 10 ** r.randrange(-3, 3)
    if kind == "velocity":
        return _mant(r) * 10 ** r.randrange(-3, 6)
    return _mant(r) * 10 ** r.randrange(-6, 7)


def _tokens(s):
    try:
        return [t for t in uexpr.tokenize(s) if t and (t[0].isalpha() or t[0] in "_%Å°")]
    except Exception:
        return []


def _symbol_of(tok):
    rr = names.resolve("percent" if tok == "%" else tok)
    return rr[1] if rr is not None else None


def _user_symbol(r, kind, placeholder=False):
    """-> (add entry, unit string to use, final scale)"""
    sym = "my_" + kind
    scale = _scale(r, kind)
    prefixable = r.random() < 0.5
    ustr = sym
    if prefixable and r.random() < 0.5:
        ustr = "k" + sym
    return [sym, 1.0 if placeholder else scale, kind, prefixable], ustr, scale


def gen_spec(r, cls, a, b, uin, uout, j=0):
    """-> (spec, uin, uout): registry spec of class cls for a conversion member a -> member b, with the input/target unit strings
    re-written in registry symbols where the class calls for it"""
    spec = {"cls": cls, "sys": None, "add": [], "mod": [], "codesys": False, "tu": "own"}
    if cls == "nonmks-system":
        spec["sys"] = NONMKS[j % len(NONMKS)]
        spec["tu"] = ("own", "default")[(j // len(NONMKS)) % 2]
        return spec, uin, uout
    if cls == "mks-system":
        spec["sys"] = "mks"
        spec["tu"] = ("own", "default")[j % 2]
        return spec, uin, uout
    role = ("in", "out", "both")[j % 3]
    if cls == "added-symbols":
        spec["sys"] = (None, "cgs", "galactic", "imperial", "mks")[j % 5]
        done = {}
        for side, kind in (("in", a), ("out", b)):
            if role in (side, "both"):
                if kind not in done:
                    ent, ustr, _ = _user_symbol(r, kind)
                    spec["add"].append(ent)
                    done[kind] = ustr
                if side == "in":
                    uin = done[kind]
                else:
                    uout = done[kind]
        return spec, uin, uout
    if cls == "modified-symbol":
        spec["sys"] = (None, "cgs", "mks")[j % 3]
        toks = _tokens(uin) + _tokens(uout)
        cands = []
        for t in toks:
            if t in MODIFIABLE and t in defs.T and not defs.T[t].offset:
                # no other token of the case may be a derived spelling of t
                if all((u == t) or (_symbol_of(u) != t) for u in toks):
                    cands.append(t)
        if cands and j % 2 == 0:
            t = r.choice(sorted(set(cands)))
            f = r.choice([0.5, 2.0, 1.25, round(10 ** r.uniform(-2, 2), 4)])
            spec["mod"].append([t, float(defs.T[t].value) * f])
            spec["cls"] = "modified-default-symbol"
            return spec, uin, uout
        spec["cls"] = "modified-user-symbol"
        side, kind = (("in", a) if role != "out" else ("out", b))
        ent, ustr, scale = _user_symbol(r, kind, placeholder=True)      # add with a placeholder, then modify (what yt does)
        spec["add"].append(ent)
        spec["mod"].append([ent[0], scale])
        if side == "in":
            uin = ustr
        else:
            uout = ustr
        return spec, uin, uout
    if cls == "code-units":
        spec["sys"] = (None, "cgs", "galactic", "mks")[j % 4]
        L = _mant(r) * 10 ** r.randrange(-3, 25)
        M = _mant(r) * 10 ** r.randrange(-6, 43)
        T = _mant(r) * 10 ** r.randrange(-6, 17)
        K = r.choice([1.0, 2.5, 1e4, 0.01])
        spec["add"] = [["code_length", L, "length", False], ["code_mass", M, "mass", False], ["code_time", T, "rate", False],
                       ["code_temperature", K, "temperature", False], ["code_velocity", L / T, "velocity", False],
                       ["code_density", M / L ** 3, "density", False]]
        spec["codesys"] = (j % 2 == 0)
        changed = False
        for side, kind in (("in", a), ("out", b)):
            if role in (side, "both") and kind in CODE_FORMS:
                f = r.choice(CODE_FORMS[kind])
                changed = True
                if side == "in":
                    uin = f
                else:
                    uout = f
        if not changed:                       # e.g. lorentz factor requested in code units: put the other side in code units
            if a in CODE_FORMS:
                uin = r.choice(CODE_FORMS[a])
            elif b in CODE_FORMS:
                uout = r.choice(CODE_FORMS[b])
        return spec, uin, uout
    raise KeyError(cls)


def _dimvec(kind, sym):
    if sym == "code_time":
        from vf.ref.dims import D
        return D("T")
    return equivs.DIM[kind]


def overlay(spec):
    """name -> (scale, dimension vector): the reference meaning of the registry's own / re-valued symbols"""
    ov = {}
    for sym, scale, kind, prefixable in spec["add"]:
        ov[sym] = (float(scale), _dimvec(kind, sym))
    for sym, scale in spec["mod"]:
        dim = ov[sym][1] if sym in ov else defs.T[sym].dim
        ov[sym] = (float(scale), dim)
    for sym, scale, kind, prefixable in spec["add"]:
        if prefixable:
            ov["k" + sym] = (ov[sym][0] * 1000.0, ov[sym][1])
    return ov


def build_registry(unyt, spec):
    """a fresh real registry for the spec (input construction only)"""
    from unyt.unit_registry import UnitRegistry
    from vf.ref import regmodel
    reg = UnitRegistry(unit_system=spec["sys"]) if spec["sys"] else UnitRegistry()
    for sym, scale, kind, prefixable in spec["add"]:
        reg.add(sym, float(scale), regmodel.dim_expr(unyt, _dimvec(kind, sym)), prefixable=bool(prefixable))
    for sym, scale in spec["mod"]:
        reg.modify(sym, float(scale))
    if spec.get("codesys"):
        unyt.UnitSystem(reg.unit_system_id, "code_length", "code_mass", "code_time", "code_temperature", registry=reg)
    return reg


def describe(spec):
    s = f"UnitRegistry(unit_system={spec['sys']!r})" if spec["sys"] else "UnitRegistry()"
    for sym, scale, kind, prefixable in spec["add"]:
        s += f".add({sym!r},{scale!r},{kind}{',prefixable' if prefixable else ''})"
    for sym, scale in spec["mod"]:
        s += f".modify({sym!r},{scale!r})"
    if spec.get("codesys"):
        s += "+code UnitSystem"
    return s
