"""Runner, verdict bookkeeping, known findings and evidence for all property checks.

Process model (DESIGN 1.2): the parent imports unyt from the tree under test and never runs
workload; every batch of cases runs in an os.fork()ed child that starts from the pristine
import-time state, reports over a pipe and exits.
"""
import json, os, select, signal, sys, time, traceback, zlib, random, hashlib

VERIF = os.path.dirname(os.path.dirname(os.path.abspath(__file__)))
OUT = os.environ.get("VERIF_OUT", VERIF)   # scratch runs against mutants write their evidence/replays elsewhere
REPO = os.environ.get("VERIF_REPO", "/repo")
NPROC = int(os.environ.get("VERIF_NPROC", "16"))


def bootstrap():
    """import unyt from REPO (never from site-packages); returns the module or raises Inconclusive"""
    if REPO in sys.path:
        sys.path.remove(REPO)
    sys.path.insert(0, REPO)
    import warnings
    warnings.simplefilter("ignore")
    try:
        import unyt
    except Exception as e:  # a tree that does not import cannot be judged
        raise Inconclusive(f"unyt-not-importable:{type(e).__name__}:{e}")
    f = os.path.realpath(unyt.__file__)
    if not f.startswith(os.path.realpath(REPO) + os.sep):
        raise Inconclusive(f"unyt-imported-from:{f}")
    return unyt


class Inconclusive(Exception):
    pass


def crc(*parts):
    return zlib.crc32("|".join(str(p) for p in parts).encode())


def rng(seed, *parts):
    return random.Random((int(seed) * 1000003) ^ crc(*parts))


def jsonable(o, depth=0):
    import fractions
    if depth > 6:
        return repr(o)[:200]
    if o is None or isinstance(o, (bool, int, str)):
        return o
    if isinstance(o, float):
        return o if o == o and abs(o) != float("inf") else repr(o)
    if isinstance(o, fractions.Fraction):
        return str(o)
    if isinstance(o, dict):
        return {str(k): jsonable(v, depth + 1) for k, v in o.items()}
    if isinstance(o, (list, tuple, set, frozenset)):
        return [jsonable(v, depth + 1) for v in o]
    try:
        import numpy as np
        if isinstance(o, np.generic):
            return jsonable(o.item(), depth + 1)
        if isinstance(o, np.ndarray):
            u = getattr(o, "units", None)
            d = {"array": np.asarray(o).tolist() if o.size <= 32 else repr(np.asarray(o))[:300], "dtype": str(o.dtype)}
            if u is not None:
                d["units"] = str(u)
            return jsonable(d, depth + 1)
    except Exception:
        pass
    return repr(o)[:300]


class Rec:
    """per-child recorder; merged by the parent"""

    def __init__(self):
        self.evals = 0
        self.cells = set()
        self.viol = {}      # key -> [count, desc, case]
        self.notes = {}     # key -> count
        self.samples = []
        self.counters = {}
        self.reached = set()

    def ok(self, cell=None, n=1):
        self.evals += n
        if cell is not None:
            self.cells.add(cell if isinstance(cell, str) else "|".join(map(str, cell)))

    def violation(self, key, desc, case=None):
        self.evals += 1
        v = self.viol.get(key)
        if v is None:
            self.viol[key] = [1, str(desc)[:600], jsonable(case)]
        else:
            v[0] += 1

    def note(self, key, n=1):
        self.notes[key] = self.notes.get(key, 0) + n

    def count(self, name, n=1):
        self.counters[name] = self.counters.get(name, 0) + n

    def sample(self, obj, limit=3):
        if len(self.samples) < limit:
            self.samples.append(jsonable(obj))

    def reach(self, name):
        self.reached.add(name)

    def dump(self):
        return {"evals": self.evals, "cells": sorted(self.cells), "viol": self.viol, "notes": self.notes,
                "samples": self.samples, "counters": self.counters, "reached": sorted(self.reached)}


def _child(worker, batch, wfd):
    rec = Rec()
    status = "ok"
    err = None
    try:
        worker(batch, rec)
    except BaseException as e:  # harness error inside the child: inconclusive, never a violation
        status = "error"
        err = "".join(traceback.format_exception(type(e), e, e.__traceback__))[-3000:]
    out = rec.dump()
    out["status"] = status
    out["error"] = err
    data = json.dumps(out).encode()
    with os.fdopen(wfd, "wb") as f:
        f.write(data)
    os._exit(0)


def run_batches(worker, batches, timeout=300.0, nproc=None):
    """batches: list of (batch_id, payload).  Returns list of (batch_id, result-dict or None on watchdog)."""
    nproc = nproc or NPROC
    pending = list(batches)[::-1]
    live = {}  # rfd -> (pid, bid, t0, chunks)
    results = []
    sys.stdout.flush()
    while pending or live:
        while pending and len(live) < nproc:
            bid, payload = pending.pop()
            r, w = os.pipe()
            pid = os.fork()
            if pid == 0:
                os.close(r)
                for fd in list(live):
                    try:
                        os.close(fd)
                    except OSError:
                        pass
                signal.signal(signal.SIGINT, signal.SIG_DFL)
                _child(worker, (bid, payload), w)
            os.close(w)
            live[r] = [pid, bid, time.time(), []]
        rl, _, _ = select.select(list(live), [], [], 0.5)
        for fd in rl:
            chunk = os.read(fd, 1 << 20)
            if chunk:
                live[fd][3].append(chunk)
            else:
                pid, bid, t0, chunks = live.pop(fd)
                os.close(fd)
                os.waitpid(pid, 0)
                try:
                    results.append((bid, json.loads(b"".join(chunks).decode())))
                except Exception:
                    results.append((bid, {"status": "died", "error": "child died without report", "evals": 0, "cells": [],
                                          "viol": {}, "notes": {}, "samples": [], "counters": {}, "reached": []}))
        now = time.time()
        for fd in list(live):
            pid, bid, t0, chunks = live[fd]
            if now - t0 > timeout:
                try:
                    os.kill(pid, signal.SIGKILL)
                except OSError:
                    pass
                os.waitpid(pid, 0)
                os.close(fd)
                del live[fd]
                results.append((bid, {"status": "watchdog", "error": f"batch exceeded {timeout}s", "evals": 0, "cells": [],
                                      "viol": {}, "notes": {}, "samples": [], "counters": {}, "reached": []}))
    return results


# ------------------------------------------------------------------ known findings
def load_findings():
    import glob
    known = {}
    # findings.d/*.txt: per-property staging files used while a check is being built; merged into KNOWN_FINDINGS.txt
    for path in [os.path.join(VERIF, "KNOWN_FINDINGS.txt")] + sorted(glob.glob(os.path.join(VERIF, "findings.d", "*.txt"))):
        if not os.path.exists(path):
            continue
        for line in open(path, encoding="utf8"):
            line = line.strip()
            if line.startswith("finding:"):
                body = line[len("finding:"):].strip()
                head, _, text = body.partition("::")
                kv = dict(p.split("=", 1) for p in head.split() if "=" in p)
                if "key" in kv:
                    known[kv["key"]] = (kv.get("property"), text.strip())
    return known


# ------------------------------------------------------------------ finish
def finish(prop, tier, seed, results, rule, t0, exhaustive=False, assumptions=(), min_evals=1, extra=None,
           replay_only_key=None):
    known = load_findings()
    evals = 0
    cells = set()
    viol = {}
    notes = {}
    counters = {}
    samples = []
    reached = set()
    inconclusive = []
    for bid, r in results:
        if r.get("status") != "ok":
            inconclusive.append({"batch": bid, "status": r.get("status"), "error": (r.get("error") or "")[-800:]})
        evals += r["evals"]
        cells.update(r["cells"])
        reached.update(r.get("reached", []))
        for k, v in r["viol"].items():
            if k in viol:
                viol[k][0] += v[0]
            else:
                viol[k] = list(v) + [bid]
        for k, v in r["notes"].items():
            notes[k] = notes.get(k, 0) + v
        for k, v in r["counters"].items():
            counters[k] = counters.get(k, 0) + v
        for s in r["samples"]:
            if len(samples) < 8:
                samples.append(s)
    new = {k: v for k, v in viol.items() if k not in known}
    seen_known = {k: v for k, v in viol.items() if k in known}
    outdir = os.path.join(OUT, "out", "replays", prop)
    lines = []
    for k, v in sorted(seen_known.items()):
        lines.append(f"KNOWN-FINDING: property={prop} key={k} :: {known[k][1]} (seen {v[0]}x)")
    code = 0
    if new:
        os.makedirs(outdir, exist_ok=True)
        for k, v in sorted(new.items()):
            fn = os.path.join(outdir, hashlib.md5(k.encode()).hexdigest()[:12] + ".json")
            with open(fn, "w") as f:
                json.dump({"property": prop, "key": k, "count": v[0], "desc": v[1], "case": v[2], "batch": v[3],
                           "tier": tier, "seed": seed}, f, indent=1)
            lines.append(f"VIOLATION property={prop} replay={fn}  key={k} :: {v[1][:300]}")
        code = 1
    verdict = "violated" if new else "held"
    if not new and (evals < min_evals or (inconclusive and len(inconclusive) == len(results))):
        verdict = "inconclusive"
        lines.append(f"INCONCLUSIVE property={prop} reason=evals={evals},failed_batches={len(inconclusive)}/{len(results)}")
        code = 2
    if not new and inconclusive and code == 0:
        # a harness error in some batch: those cases were not decided.
        bad = [b for b in inconclusive if b["status"] in ("error", "died")]
        if bad:
            verdict = "inconclusive"
            lines.append(f"INCONCLUSIVE property={prop} reason=harness-error-in-{len(bad)}-batches first={bad[0]['error'][-300:]!r}")
            code = 2
    cov = {
        "evaluations": evals,
        "distinct_nontrivial": len(cells),
        "rule": rule,
        "samples": samples or ["(no sample recorded)"],
        "exhaustive": bool(exhaustive),
        "verdict": verdict,
        "batches": len(results),
        "inconclusive_batches": inconclusive[:10],
        "counters": counters,
        "notes": dict(sorted(notes.items(), key=lambda kv: -kv[1])[:60]),
        "known_findings_seen": {k: v[0] for k, v in seen_known.items()},
        "new_violation_keys": sorted(new)[:50],
        "reached": sorted(reached)[:400],
    }
    if extra:
        cov.update(extra)
    ev = {"property_id": prop, "tier": tier, "seed": int(seed), "level": "exploration", "coverage": cov,
          "assumptions": list(assumptions), "wall_s": round(time.time() - t0, 2), "violations": len(new)}
    if replay_only_key is None:
        os.makedirs(os.path.join(OUT, "evidence"), exist_ok=True)
        with open(os.path.join(OUT, "evidence", prop + ".json"), "w") as f:
            json.dump(ev, f, indent=1, sort_keys=True)
    for l in lines:
        print(l)
    print(f"[{prop}] tier={tier} seed={seed} verdict={verdict} evaluations={evals} distinct={len(cells)} "
          f"known_findings={len(seen_known)} new={len(new)} wall={ev['wall_s']}s")
    sys.stdout.flush()
    return code
