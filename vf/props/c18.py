"""C18 - non-mutating calls do not mutate; failed calls leave their operands intact.

All judging is done by vf/monitors/c18_passive.py (snapshot-compare around every depth-0 tapped call and around declared
"manual" events for entry points without a tap).  This module is the workload: it drives every call form named by the
property (conversion methods, operators, augmented assignment, ufuncs and their methods with and without out=, array
functions, item assignment, Unit arithmetic) over scalar / array / view operands of several dtypes, and - group "rescale" - every
non-mutating two-operand call with mixed convertible units over exact dtype x memory layout x position of the operand, with valid inputs and
with every invalid kind injected at every operand position, and - thorough tier - runs the repository's own test suite under
the same observer.
"""
import json
import operator
import os
import subprocess
import sys
import tempfile

import numpy as np

from vf import core
from vf.gen import c18_spellings as SPL
from vf.gen import c18_datadep as DD
from .common import chunks

RULE = ("one evaluation = one snapshot comparison of one operand around one depth-0 call: (a) an input of any call is "
        "bit-identical afterwards (bytes, dtype, shape, unit expression/base value/offset/dimensions, bytes of the buffer it "
        "views); (b) the target of an in-place call that raised has equal numbers and unit, and the buffer outside its extent is "
        "unchanged; (c) the target of an in-place call that returned holds exactly the numbers (cast to its dtype) of the "
        "library's copying twin run on pre-call copies, bytes outside its extent unchanged. distinct = (oracle, op id incl. "
        "ufunc/function name, method and out= form, operand position, operand class dtype-family x own/view/scalar, outcome or "
        "exception class, injected fault kind); for the operand swept by the rescaled-operand group (mixed convertible units, non-mutating binary "
        "ufunc call / operator / .outer / two-operand array function) the operand class is replaced by its exact dtype incl. byte order and its "
        "memory layout: (rescaled-operand, op id, position, dtype, layout, outcome); for the operand (array or Unit object) swept by the spelled-operand group "
        "(unit written in a non-reduced compound spelling) it is replaced by spelling family, the route by which the operand got the unit and the kind of the "
        "other operand: (spelled-operand, op id, position, family, route, partner kind, outcome); a target that is not writeable is recorded as "
        "(read-only-target, op id, exception, operand class, layout); the target of an in-place call (input of a copying call) of the data-dependent-fault group is "
        "recorded as (data-class-target, op id, in-place family, data class, floating-point policy, outcome, exception class or kind of agreement with the copying "
        "twin) resp. (data-class-input, op id, position, family, data class, policy, outcome)")
ASSUMPTIONS = (
    "snapshots are taken with ndarray.tobytes()/sympy structural equality on the operands; NumPy and sympy are trusted",
    "the 'corresponding copying call' is the documented twin (convert_to_units->in_units, convert_to_base->in_base, convert_to_cgs->in_cgs, "
    "convert_to_mks->in_mks, convert_to_equivalent->to_equivalent, op= / out= -> the same ufunc, ufunc method or function without out=, a[i]=v -> "
    "v.to(a.units) assigned into a copy) evaluated by the library itself on layout-preserving copies taken before the call",
    "'exactly' = equal as numbers after casting the copying result to the target's dtype (NaN==NaN, -0.0==0.0) for plain rescaling conversions, item "
    "assignment and correctly-rounded elementwise ufuncs; for transcendental ufuncs, gufuncs, reductions/accumulations, array functions, equivalence chains "
    "(np.power/np.sqrt steps) and complex data a difference of <= 4 ulp is accepted, because NumPy's own loops are not bit-reproducible between a strided "
    "in-place evaluation and a contiguous copying one",
    "when the copying result has another dtype than the target (out= buffer of another precision, unsigned/complex inputs into a float buffer) NumPy picks "
    "other loops: compared within 4 ulp of the narrower float for exact elementwise operations and conversions, otherwise counted as not comparable; "
    "in-place conversion of float16 data is not compared (the factors overflow/underflow a 16-bit float)",
    "an integer out= target that is also an input is promoted to the float type of the same item size in the twin, as the library documents it does to the target",
    "positions not selected by where= are undefined in the copying call: only selected positions are compared; unselected positions written are a note (C06)",
    "when the only unyt operand of a ufunc call is its out= buffer the copying form does not involve unyt: no twin, and one template id "
    "('ufunc/binary/<method>/bare-inputs/out') instead of one per ufunc",
    "the unit label the target carries after a successful out= call is C07's subject: a label differing from the copying result's unit is a note",
    "a failed out= call whose exception and out= write are reproduced by NumPy alone on stripped copies of the operands (e.g. a cast refused half-way through "
    "np.concatenate) is NumPy's behaviour, not unyt's: note",
    "a failed in-place call that leaves equal values under a changed dtype (integer out= buffer retyped to float) is a note, not a "
    "violation: the statement names numbers and unit (DESIGN 4.3)",
    "a plain dimensionless quantity assigned into an array is taken as a bare number by the library's documented idiom (DESIGN 4.12); the twin does the same",
    "whether a fault is refused at all is C01/C03/C09's subject: a faulty call that returns is judged by clauses (a)/(c) only",
    "Unit.simplify() rewriting its receiver's expression is not in the statement's list of copying calls: noted (DESIGN C18 B)",
    "inputs that overlap a target in memory (a[1:] += a[:-1], out= aliasing an input) are exempt from the byte comparison",
    "only depth-0 calls are judged; what nested calls do to caller-visible objects shows in the depth-0 comparison",
    "the name attribute is not part of 'numbers, unit and dtype' and is ignored",
    "rescaled-operand sweep: every elementwise binary ufunc (call, operator, .outer) and the two-operand array functions / unyt helpers are called without "
    "out= on operands of different but convertible units; the swept operand takes every exact dtype (complex, big-endian, float16, longdouble, integers, "
    "bool) x every layout (owner, strided, reversed, zero-stride broadcast, 0-d, 0-d view, read-only, transposed, column, subclass instance, bare ndarray "
    "next to percent) at both positions. It is judged by clause (a) whether the call returns or raises (complex // and %, float-only loops on complex "
    "data raise TypeError *after* the unit handling): bit-identical bytes, dtype incl. byte order, shape, unit, viewed buffer. Whether such a call should "
    "raise at all (read-only operand, unsupported loop) is not C18's subject",
    "a bare ndarray combined with a scaled pure number (percent) is an operand like any other and must be left unchanged; a boolean 0-d operand is "
    "built as a 0-d unyt_array because unyt_quantity refuses booleans; writeable/aligned flags and the Python class of an operand are not part of "
    "'numbers, unit and dtype' and are not compared",
    "the unit of an operand is its expression as written, its scale, offset and dimensions: a call that rewrites an input's unit into another spelling of equal "
    "value (m**2/cm -> 100*m) has changed it - str/repr/pickle of the caller's object change - even though Unit.__eq__ still holds",
    "spelled-operand sweep: units in non-reduced compound spellings (two or more symbols of one dimension: ratio, square-over, cross, triple, fractional power, "
    "numeric coefficient ...; generated from per-dimension symbol tables checked against vf.ref.defs) reach the operand by every route (string, Unit arithmetic, "
    "data times Unit, a private registry's parsed-string cache, Unit.copy, pickle, .units assignment) and meet every elementwise binary ufunc (call, reflected call, "
    "operator, reflected operator, .outer) with every kind of operand that carries no unit (Python int/float/bool/complex, Fraction, Decimal, NumPy scalars, 0-d and "
    "n-d ndarrays, list, tuple, range, unyt_quantity/unyt_array built without units, Unit()) and a few unit-carrying ones, every unary ufunc, the conversion/copy/"
    "reduction methods, array functions, and Unit arithmetic on the spelled Unit object itself. Each case draws its own spelling because unyt memoises unit rules per "
    "expression; a quarter of the calls are repeated on the same operands (memoised path). Judged by clause (a) (clause (b) for the failing in-place templates)",
    "whether the generated spellings are non-reduced in the library's own sense is recorded as evidence only (Unit.simplify() on a throw-away object built by Unit "
    "arithmetic, after the judged call, invisible to the observer); a run in which fewer than half of the sampled spellings are reducible is INCONCLUSIVE",
    "Unit objects other than the operands of a call (later arrays built from the same text in the same registry) are not inputs of that call and are not judged",
    "read-only targets: a target NumPy refuses to write to (read-only array, read-only view of a writeable buffer, read-only 0-d quantity, transposed read-only view, "
    "array over a bytes object) is a fault like the other invalid inputs - every in-place family (convert_to_*, with and without equivalence, augmented assignment, "
    "out= of ufuncs and their methods, ufunc.at, array functions with out= or a destination, item assignment) is driven with one and judged by clause (b); their "
    "failed-target keys carry ':read-only-target:<dtype family of the target>' and use one template per ufunc arity and method instead of one per ufunc, because what "
    "happens to such a target is decided before the ufunc loop runs",
    "data-dependent faults: an in-place call may fail because of the numbers its target or another operand holds. Every in-place family (convert_to_* without and with "
    "equivalence through every door, augmented assignment, out= of ufuncs and of their methods, ufunc.at, array functions with out= or a destination, item assignment, "
    "in-place ndarray methods) and the copying doors are driven with every data class of vf/gen/c18_datadep.py (far below / just below / at / just above / far above each "
    "domain edge of the formula - speed of light for velocities, 1 for Lorentz factors, absolute zero for temperature readings, 0 and +-1 otherwise - and the mirror "
    "image, zero, -0.0, negative, mixed sign, smallest normal, near-largest and largest finite, +-inf, NaN; special elements first / last / in the middle / everywhere) "
    "over dtypes and layouts. Whether such a call raises at all is not C18's subject: if it raises, clause (b) is judged on the pre-call snapshot of the target, if it "
    "returns, clause (c) against the copying twin on the same data (NaN == NaN)",
    "floating-point policy: the same calls are repeated under the caller's strict policy (np.errstate(all='raise') and RuntimeWarning raised as an error), under which "
    "NumPy raises FloatingPointError *after* having run the loop. A failed ufunc / array function / item assignment whose exception and write are reproduced by NumPy "
    "alone on stripped copies under the same policy is NumPy's behaviour (note); a convert_to_* call that raises this way after its first in-place steps breaks clause (b)",
    "keys: failed-target keys carry what changed (data/unit) and the exception class, input-mutated keys the operand position and dtype family, "
    "differs-from-copying keys 'rounding' (<= 64 ulp or next to the subnormal range) vs 'value' and the dtype family of the target",
)
MIN_EVALS = 20000
TIMEOUT = 1500

FAULTS = ("dimension-mismatch", "unknown-unit", "irreducible-unit", "invalid-equivalence", "equivalence-not-covering",
          "non-dimensionless-exponent", "int8-buffer", "int-out-buffer", "offset-unit", "junk-operand", "list-mismatch", "read-only-target",
          "out-of-domain-data")

KINDS = {"quick": ["own", "step", "T", "scalar", "elem", "col"],
         "thorough": ["own", "step", "rev", "T", "col", "scalar", "elem", "size1", "empty", "2d"]}
FAMS = {"quick": {"float": ["f8", "f4"], "int": ["i8", "i4"], "int8": ["i1", "u1"]},
        "thorough": {"float": ["f8", "f4", "f2", "c16"], "int": ["i8", "i4", "i2", "u4"], "int8": ["i1", "u1"]}}
DTYPES = {"quick": ["f8", "f4", "i8", "i4", "i1", "u1"],
          "thorough": ["f8", "f4", "f2", "i8", "i4", "i2", "i1", "u1", "u4", "c16"]}

# unit -> (commensurable partner, incommensurable partner)
UNITS = {"km": ("m", "s"), "g": ("kg", "km"), "s": ("ms", "g"), "K": ("R", "km"), "J": ("erg", "s"), "A": ("mA", "km"),
         "dimensionless": ("dimensionless", "km"), "rad": ("degree", "s"), "km/s": ("cm/s", "K"), "degC": ("degF", "km"),
         "kg*m/s**2": ("dyn", "J"), "3*km": ("m", "s")}


# the same physical unit written differently (equal under Unit.__eq__, different expression): a call must not "normalise" an
# input's unit to its own spelling
ALIAS = {"km": "1000*m", "g": "kg/1000", "s": "1000*ms", "K": "1000*mK", "J": "N*m", "A": "C/s", "dimensionless": "m/m", "rad": "radian",
         "km/s": "1000*m/s", "degC": "celsius", "kg*m/s**2": "N", "3*km": "3000*m"}


# ---------------------------------------------------------------------------------------------- operand factory
def _vals(r, n, dt):
    k = np.dtype(dt).kind
    if k in "iu":
        return np.array([r.randint(1, 100) for _ in range(n)], dtype=dt)
    if k == "c":
        return np.array([complex(r.uniform(0.5, 90.0), r.uniform(-3, 3)) for _ in range(n)], dtype=dt)
    return np.array([r.choice([1, -1]) * r.uniform(0.5, 90.0) if r.random() < 0.3 else r.uniform(0.5, 90.0) for _ in range(n)], dtype=dt)


def mk(unyt, r, unit, dt, kind):
    """-> (operand, holder keeping the base alive)"""
    ua = unyt.unyt_array
    if kind == "own":
        a = ua(_vals(r, 4, dt), unit); return a, a
    if kind == "step":
        b = ua(_vals(r, 9, dt), unit); return b[1::2], b
    if kind == "rev":
        b = ua(_vals(r, 4, dt), unit); return b[::-1], b
    if kind == "T":
        b = ua(_vals(r, 4, dt).reshape(2, 2), unit); return b.T, b
    if kind == "2d":
        b = ua(_vals(r, 4, dt).reshape(2, 2), unit); return b, b
    if kind == "col":
        b = ua(_vals(r, 12, dt).reshape(4, 3), unit); return b[:, 1], b
    if kind == "scalar":
        q = unyt.unyt_quantity(_vals(r, 1, dt)[0], unit); return q, q
    if kind == "elem":
        b = ua(_vals(r, 5, dt), unit); return b[2, ...], b
    if kind == "size1":
        a = ua(_vals(r, 1, dt), unit); return a, a
    if kind == "empty":
        a = ua(np.empty(0, dtype=dt), unit); return a, a
    raise KeyError(kind)


def like(unyt, r, a, unit, dt="f8", bare=False):
    """fresh owned operand broadcast-compatible with a (same shape)"""
    v = _vals(r, max(1, a.size), dt)[:a.size].reshape(a.shape) if a.shape != () else _vals(r, 1, dt)[0]
    if bare:
        return np.array(v)
    if a.shape == ():
        return unyt.unyt_quantity(v, unit)
    return unyt.unyt_array(v, unit)


def second(unyt, r, a, aunit, bk):
    """second operand of the given kind for first operand a -> (b, fault or None)"""
    comm, mism = UNITS[aunit]
    if bk == "same":
        return like(unyt, r, a, aunit), None
    if bk == "alias":
        return like(unyt, r, a, ALIAS[aunit]), None
    if bk == "alias-scalar":
        return unyt.unyt_quantity(r.uniform(1, 9), ALIAS[aunit]), None
    if bk == "commens":
        return like(unyt, r, a, comm), ("offset-unit" if aunit == "degC" else None)
    if bk == "commens-scalar":
        return unyt.unyt_quantity(r.uniform(1, 9), comm), ("offset-unit" if aunit == "degC" else None)
    if bk == "commens-view":
        big = unyt.unyt_array(_vals(r, 2 * max(1, a.size) + 1, "f8"), comm)
        v = big[1::2][:a.size]
        return (v.reshape(a.shape) if a.shape != () else v[0, ...]), ("offset-unit" if aunit == "degC" else None)
    if bk == "mismatch":
        return like(unyt, r, a, mism), "dimension-mismatch"
    if bk == "mismatch-scalar":
        return unyt.unyt_quantity(r.uniform(1, 9), mism), "dimension-mismatch"
    if bk == "bare-scalar":
        return r.uniform(1, 9), None
    if bk == "bare-int":
        return r.randint(2, 5), None
    if bk == "bare-array":
        return like(unyt, r, a, None, bare=True), None
    if bk == "list":
        return [r.uniform(1, 9) for _ in range(max(1, a.shape[-1] if a.ndim else 1))], None
    if bk == "qlist":
        n = max(1, a.shape[-1] if a.ndim else 1)
        return [unyt.unyt_quantity(r.uniform(1, 9), comm if i % 2 else aunit) for i in range(n)], ("offset-unit" if aunit == "degC" else None)
    if bk == "qlist-mismatch":
        n = max(2, a.shape[-1] if a.ndim else 2)
        return [unyt.unyt_quantity(r.uniform(1, 9), mism if i % 2 else aunit) for i in range(n)], "list-mismatch"
    if bk == "offset":
        return like(unyt, r, a, "degC" if aunit != "degC" else "degF"), "offset-unit"
    if bk == "dimless":
        return like(unyt, r, a, "dimensionless"), None
    if bk == "junk":
        return "abc", "junk-operand"
    if bk == "zero":
        return 0.0, None
    if bk == "unit":
        return unyt.Unit(comm), None
    if bk == "exp-units":
        return unyt.unyt_quantity(2.0, "s"), "non-dimensionless-exponent"
    if bk == "exp-units-array":
        return like(unyt, r, a, "km"), "non-dimensionless-exponent"
    if bk == "exp-varied":
        if a.shape == ():
            return np.array([1.0, 2.0]), "non-dimensionless-exponent"
        return np.arange(1, a.size + 1, dtype="f8").reshape(a.shape), "non-dimensionless-exponent"
    if bk == "exp-equal":
        return np.full(a.shape, 2.0), None
    if bk == "exp-dimless":
        return unyt.unyt_quantity(2.0, "dimensionless"), None
    if bk == "exp-half":
        return 0.5, None
    if bk == "exp-zero":
        return 0, None
    raise KeyError(bk)


BKINDS = ["same", "alias", "alias-scalar", "commens", "commens-scalar", "commens-view", "mismatch", "mismatch-scalar", "bare-scalar", "bare-int", "bare-array",
          "list", "qlist", "qlist-mismatch", "offset", "dimless", "junk", "zero", "unit"]
EXPKINDS = ["exp-units", "exp-units-array", "exp-varied", "exp-equal", "exp-dimless", "exp-half", "exp-zero", "bare-int", "mismatch"]
BFORMS = ["call", "rcall", "bare-in-unyt-out", "out-fresh", "out-int", "out-i1", "out-bare", "out-view", "out-in0", "out-in1", "out-where", "out-tuple",
          "out-ro", "op", "rop", "iop"]
UFORMS = ["call", "bare-in-unyt-out", "out-fresh", "out-self", "out-int", "out-i1", "out-bare", "out-view", "out-where", "method"]
OPS = {"add": (operator.add, operator.iadd), "subtract": (operator.sub, operator.isub), "multiply": (operator.mul, operator.imul),
       "divide": (operator.truediv, operator.itruediv), "floor_divide": (operator.floordiv, operator.ifloordiv),
       "remainder": (operator.mod, operator.imod), "power": (operator.pow, operator.ipow), "matmul": (operator.matmul, operator.imatmul),
       "less": (operator.lt, None), "less_equal": (operator.le, None), "greater": (operator.gt, None), "greater_equal": (operator.ge, None),
       "equal": (operator.eq, None), "not_equal": (operator.ne, None), "bitwise_and": (operator.and_, operator.iand),
       "bitwise_or": (operator.or_, operator.ior), "bitwise_xor": (operator.xor, operator.ixor), "divmod": (divmod, None),
       "left_shift": (operator.lshift, operator.ilshift), "right_shift": (operator.rshift, operator.irshift)}
UOPS = {"negative": operator.neg, "positive": operator.pos, "absolute": operator.abs, "invert": operator.invert}


def ufuncs(nin):
    return sorted({u.__name__ for u in vars(np).values() if isinstance(u, np.ufunc) and u.nin == nin})


def out_buffer(unyt, r, form, shape, a):
    """out= target for the given form -> (out, holder)"""
    n = int(np.prod(shape)) if shape else 1
    fdt = "f8"
    adt = getattr(a, "dtype", None)
    if adt is not None and adt.kind in "fc" and (adt.kind == "c" or r.random() < 0.8):
        fdt = adt.str          # mostly the operand's own float type, so that the copying result and the target agree in dtype
    if form in ("out-fresh", "out-where", "out-tuple", "out-ro"):
        o = unyt.unyt_array(_vals(r, n, fdt).reshape(shape), "kg")
        if form == "out-ro":
            o.flags.writeable = False
        return o, o
    if form == "out-int":
        o = unyt.unyt_array(_vals(r, n, r.choice(["i8", "i4"])).reshape(shape), "kg"); return o, o
    if form == "out-i1":
        o = unyt.unyt_array(_vals(r, n, r.choice(["i1", "u1"])).reshape(shape), "kg"); return o, o
    if form == "out-bare":
        o = _vals(r, n, fdt).reshape(shape); return o, o
    if form == "out-view":
        base = unyt.unyt_array(_vals(r, 2 * n + 1, fdt), "kg")
        return base[1::2][:n].reshape(shape) if n else base[:0].reshape(shape), base
    raise KeyError(form)


# ---------------------------------------------------------------------------------------------- rescaled-operand sweep
# Non-mutating binary calls with mixed but convertible units: one operand has to be brought to the other's unit.  The swept operand
# (the "subject") takes every exact dtype x every memory layout below and sits at either position; the other operand (the "partner")
# is an ordinary array of the same shape in a convertible unit.
R_DTYPES = {"quick": ["c16", "c8", ">c16", ">f8", "f2", "f8", "i4", "u1", "?"],
            "thorough": ["c16", "c8", ">c16", ">c8", "G", "f8", "f4", "f2", ">f8", ">f4", "g", "i8", "i4", "i2", ">i4", "u4", "u1", "i1", "?"]}
R_LAYOUTS = {"quick": ["own", "step", "rev", "bcast", "0d", "elem", "ro", "sub", "T", "bare"],
             "thorough": ["own", "step", "rev", "bcast", "0d", "elem", "ro", "sub", "T", "col", "2d", "size1", "empty", "bare", "bare-step"]}
# (unit of the subject, unit of the partner): both directions of the scale factor, compound units, scaled pure numbers, absolute
# temperature scales, and a temperature difference next to a reading on another scale (there it is the *first* operand that is rescaled)
R_PAIRS = [("m", "cm"), ("cm", "m"), ("km", "mile"), ("s", "ms"), ("g/cm**3", "kg/m**3"), ("dimensionless", "percent"), ("percent", "dimensionless"),
           ("K", "R"), ("delta_degF", "degC"), ("degC", "delta_degF"), ("rad", "degree")]
R_PARTNERS = ["f8", "f8", "same-dtype", "scalar", "i4", "special"]
R_FORMS = ["call", "op", "outer"]


def _rvals(r, n, dt):
    d = np.dtype(dt)
    if d.kind == "b":
        return np.array([bool(r.getrandbits(1)) for _ in range(n)], dtype=d)
    if d.kind == "c":
        return np.array([complex(r.uniform(0.5, 90.0), r.uniform(-30, 30)) for _ in range(n)]).astype(d)
    if d.kind in "iu":
        return np.array([r.randint(1, 100) for _ in range(n)]).astype(d)
    return np.array([r.uniform(0.5, 90.0) * r.choice([1, 1, -1]) for _ in range(n)]).astype(d)


_SUB = {}


def _subclass(unyt):
    c = _SUB.get(id(unyt))
    if c is None:
        class TaggedArray(unyt.unyt_array):
            """a user's subclass of unyt_array (no behaviour of its own)"""
        _SUB[id(unyt)] = c = TaggedArray
    return c


def _quantity(unyt, v, unit):
    """0-d operand holding the NumPy scalar v (unyt_quantity refuses booleans: those become a 0-d unyt_array)"""
    if np.asarray(v).dtype.kind == "b":
        return unyt.unyt_array(np.array(v), unit)
    return unyt.unyt_quantity(v, unit)


def mk_subject(unyt, r, unit, dt, layout):
    """operand of exact dtype dt in the given memory layout -> (operand, holder keeping its buffer alive)"""
    ua = unyt.unyt_array
    if layout == "own":
        a = ua(_rvals(r, 4, dt), unit); return a, a
    if layout == "step":
        b = ua(_rvals(r, 9, dt), unit); return b[1::2], b
    if layout == "rev":
        b = ua(_rvals(r, 4, dt), unit); return b[::-1], b
    if layout == "bcast":          # zero-stride, read-only view of one element
        b = _rvals(r, 1, dt); a = ua(np.broadcast_to(b, (4,)), unit); return a, b
    if layout == "0d":
        q = _quantity(unyt, _rvals(r, 1, dt)[0], unit); return q, q
    if layout == "elem":
        b = ua(_rvals(r, 5, dt), unit); return b[2, ...], b
    if layout == "ro":
        a = ua(_rvals(r, 4, dt), unit); a.flags.writeable = False; return a, a
    if layout == "sub":
        a = _subclass(unyt)(_rvals(r, 4, dt), unit); return a, a
    if layout == "T":
        b = ua(_rvals(r, 4, dt).reshape(2, 2), unit); return b.T, b
    if layout == "2d":
        b = ua(_rvals(r, 4, dt).reshape(2, 2), unit); return b, b
    if layout == "col":
        b = ua(_rvals(r, 12, dt).reshape(4, 3), unit); return b[:, 1], b
    if layout == "size1":
        a = ua(_rvals(r, 1, dt), unit); return a, a
    if layout == "empty":
        a = ua(np.empty(0, dtype=dt), unit); return a, a
    if layout == "bare":           # an ndarray without units: a pure number next to a scaled pure number
        a = _rvals(r, 4, dt); return a, a
    if layout == "bare-step":
        b = _rvals(r, 9, dt); return b[1::2], b
    raise KeyError(layout)


def mk_partner(unyt, r, subj, unit, kind, sdt, tier):
    """second operand of the same shape as the subject, in the given (convertible) unit"""
    if kind == "scalar":
        return unyt.unyt_quantity(r.uniform(1, 9), unit)
    if kind == "special" and subj.shape == (4,):
        return mk_subject(unyt, r, unit, r.choice(R_DTYPES[tier]), r.choice(["own", "step", "rev", "bcast", "ro", "sub"]))[0]
    dt = {"same-dtype": sdt, "i4": "i4"}.get(kind, "f8")
    if subj.shape == ():
        return _quantity(unyt, _rvals(r, 1, dt)[0], unit)
    return unyt.unyt_array(_rvals(r, max(1, subj.size), dt)[:subj.size].reshape(subj.shape), unit)


# array functions and unyt helpers that combine two operands of convertible units without being asked to write anywhere:
# name -> (callable(x, y), tapped?)   x is the operand at position 0, y at position 1
RFUNCS = {
    "isclose": (lambda u, x, y: np.isclose(x, y), True), "allclose": (lambda u, x, y: np.allclose(x, y), True),
    "array_equal": (lambda u, x, y: np.array_equal(x, y), True), "array_equiv": (lambda u, x, y: np.array_equiv(x, y), True),
    "concatenate": (lambda u, x, y: np.concatenate([np.atleast_1d(x), np.atleast_1d(y)]), True),
    "hstack": (lambda u, x, y: np.hstack([x, y]), True), "stack": (lambda u, x, y: np.stack([x, y]), True),
    "where": (lambda u, x, y: np.where(np.ones(np.shape(x), dtype=bool), x, y), True), "clip": (lambda u, x, y: np.clip(x, y, None), True),
    "clip-both": (lambda u, x, y: np.clip(x, y, y), True), "append": (lambda u, x, y: np.append(x, y), True),
    "union1d": (lambda u, x, y: np.union1d(x, y), True), "intersect1d": (lambda u, x, y: np.intersect1d(x, y), True),
    "setdiff1d": (lambda u, x, y: np.setdiff1d(x, y), True), "isin": (lambda u, x, y: np.isin(x, y), True),
    "linspace": (lambda u, x, y: np.linspace(x, y, 3), True), "searchsorted": (lambda u, x, y: np.searchsorted(np.atleast_1d(x), y), True),
    "select": (lambda u, x, y: np.select([np.ones(np.shape(x), dtype=bool)], [x], y), True),
    "uconcatenate": (lambda u, x, y: u.uconcatenate([np.atleast_1d(x), np.atleast_1d(y)]), False), "uunion1d": (lambda u, x, y: u.uunion1d(x, y), False),
    "uintersect1d": (lambda u, x, y: u.uintersect1d(x, y), False), "uvstack": (lambda u, x, y: u.uvstack([x, y]), False),
    "uhstack": (lambda u, x, y: u.uhstack([x, y]), False), "allclose_units": (lambda u, x, y: u.array.allclose_units(x, y), False),
    "divmod-builtin": (lambda u, x, y: divmod(x, y), False), "method-clip": (lambda u, x, y: x.clip(y, None), False),
    "method-searchsorted": (lambda u, x, y: x.searchsorted(y), False), "method-dot": (lambda u, x, y: x.dot(y), False),
}


def rescale_items():
    items = []
    for uf in ufuncs(2):
        if getattr(np, uf).signature is not None:
            continue
        for form in R_FORMS:
            if form == "op" and uf not in OPS:
                continue
            items.append(["uf", uf, form])
    items += [["fn", n, "call"] for n in sorted(RFUNCS)]
    return items


# ---------------------------------------------------------------------------------------------- spelled-operand sweep
# Operands whose unit is written in a non-reduced compound spelling (vf/gen/c18_spellings.py: family x route) meet every non-mutating
# call form, next to operands without any unit in every kind Python/NumPy/unyt offer.  One case = one call with its own freshly drawn
# spelling (unyt memoises unit rules per unit expression: only the first call per expression and rule in a process takes the uncached
# path), a quarter of the cases repeat the call on the same operands (memoised path).
S_FORMS2 = ["call", "rcall", "op", "rop", "outer"]
S_FORMS1 = ["call", "method"]
# method templates: name -> (callable(unyt, x, sp), layouts, kind) ; kind: "tap" = the entry point is tapped (judged under its own op id),
# "manual" = declared as a manual event, "inplace" = tapped in-place call whose target is x ; fault: name in S_FAULTY
S_METHODS = {
    "to-commens": (lambda u, x, sp: x.to(sp.commens), "any", "tap"), "in_units-commens": (lambda u, x, sp: x.in_units(sp.commens), "any", "tap"),
    "to_value-commens": (lambda u, x, sp: x.to_value(sp.commens), "any", "tap"), "to-commens-Unit": (lambda u, x, sp: x.to(u.Unit(sp.commens)), "any", "tap"),
    "to-own-text": (lambda u, x, sp: x.to(sp.text), "any", "tap"), "to-own-units": (lambda u, x, sp: x.to(x.units), "any", "tap"),
    "to-own-quantity": (lambda u, x, sp: x.to(u.unyt_quantity(2.0, sp.text)), "any", "tap"),
    "in_base": (lambda u, x, sp: x.in_base(), "any", "tap"), "in_cgs": (lambda u, x, sp: x.in_cgs(), "any", "tap"), "in_mks": (lambda u, x, sp: x.in_mks(), "any", "tap"),
    "in_base-imperial": (lambda u, x, sp: x.in_base("imperial"), "any", "tap"), "in_base-galactic": (lambda u, x, sp: x.in_base("galactic"), "any", "tap"),
    "to_value": (lambda u, x, sp: x.to_value(), "any", "tap"), "copy": (lambda u, x, sp: x.copy(), "any", "tap"),
    "to_ndarray": (lambda u, x, sp: x.to_ndarray(), "any", "tap"), "deepcopy": (lambda u, x, sp: __import__("copy").deepcopy(x), "any", "tap"),
    "copy.copy": (lambda u, x, sp: __import__("copy").copy(x), "any", "manual"), "np.copy": (lambda u, x, sp: np.copy(x, subok=True), "any", "tap"),
    "pickle": (lambda u, x, sp: __import__("pickle").loads(__import__("pickle").dumps(x)), "any", "manual"),
    "to-other": (lambda u, x, sp: x.to(sp.other), "any", "tap"), "to-unknown": (lambda u, x, sp: x.to("flurbs"), "any", "tap"),
    "to_equivalent-other": (lambda u, x, sp: x.to_equivalent(sp.other, "thermal"), "any", "tap"), "in_base-bogus": (lambda u, x, sp: x.in_base("bogus"), "any", "tap"),
    "to-bad-equivalence": (lambda u, x, sp: x.to(sp.other, "nope"), "any", "tap"),
    "convert_to_units-other": (lambda u, x, sp: x.convert_to_units(sp.other), "any", "inplace"),
    "convert_to_units-unknown": (lambda u, x, sp: x.convert_to_units("flurbs"), "any", "inplace"),
    "convert_to_base-bogus": (lambda u, x, sp: x.convert_to_base("bogus"), "any", "inplace"),
    "convert_to_equivalent-bad": (lambda u, x, sp: x.convert_to_equivalent(sp.other, "nope"), "any", "inplace"),
    "convert_to_units-commens": (lambda u, x, sp: x.convert_to_units(sp.commens), "any", "inplace"),
    "pow2": (lambda u, x, sp: x ** 2, "any", "tap"), "pow-half": (lambda u, x, sp: x ** 0.5, "any", "tap"), "pow0": (lambda u, x, sp: x ** 0, "any", "tap"),
    "pow-1": (lambda u, x, sp: x ** -1, "any", "tap"), "pow-self": (lambda u, x, sp: x ** x, "any", "tap"), "neg": (lambda u, x, sp: -x, "any", "tap"),
    "abs": (lambda u, x, sp: abs(x), "any", "tap"), "pos": (lambda u, x, sp: +x, "any", "tap"), "getitem": (lambda u, x, sp: x[..., ], "any", "tap"),
    "getitem-0": (lambda u, x, sp: x[0], "nd", "tap"), "iter": (lambda u, x, sp: list(iter(x)), "nd", "manual"),
    "sum": (lambda u, x, sp: x.sum(), "any", "manual"), "prod": (lambda u, x, sp: x.prod(), "any", "manual"), "mean": (lambda u, x, sp: x.mean(), "any", "manual"),
    "std": (lambda u, x, sp: x.std(), "any", "manual"), "var": (lambda u, x, sp: x.var(), "any", "manual"), "cumsum": (lambda u, x, sp: x.cumsum(), "any", "manual"),
    "cumprod": (lambda u, x, sp: x.cumprod(), "any", "manual"), "min": (lambda u, x, sp: x.min(), "any", "manual"), "dot-self": (lambda u, x, sp: x.dot(x), "any", "manual"),
    "argsort": (lambda u, x, sp: x.argsort(), "nd", "manual"), "round": (lambda u, x, sp: x.round(1), "any", "manual"),
    "clip-self": (lambda u, x, sp: x.clip(x.min(), x.max()), "any", "manual"), "clip-bare": (lambda u, x, sp: x.clip(1.0, 5.0), "any", "manual"),
    "astype": (lambda u, x, sp: x.astype("f4"), "any", "manual"), "reshape": (lambda u, x, sp: x.reshape(-1), "any", "manual"),
    "ravel": (lambda u, x, sp: x.ravel(), "any", "manual"), "transpose": (lambda u, x, sp: x.T, "any", "manual"), "flatten": (lambda u, x, sp: x.flatten(), "any", "manual"),
    "tolist": (lambda u, x, sp: x.tolist(), "any", "manual"), "str": (lambda u, x, sp: str(x), "any", "manual"), "repr": (lambda u, x, sp: repr(x), "any", "manual"),
    "format": (lambda u, x, sp: format(x), "any", "manual"), "to_string": (lambda u, x, sp: x.to_string(), "0d", "manual"),
    "eq-self": (lambda u, x, sp: (x == x, x != x), "any", "tap"), "eq-bare": (lambda u, x, sp: (x == 1, x != 1.0), "any", "tap"),
    "hash-units": (lambda u, x, sp: hash(x.units), "any", "manual"), "unit_quantity": (lambda u, x, sp: (x.unit_quantity, x.uq), "any", "manual"),
    "unit_array": (lambda u, x, sp: (x.unit_array, x.ua), "any", "manual"), "value": (lambda u, x, sp: (x.value, x.v, x.d, x.ndview), "any", "manual"),
    "units-props": (lambda u, x, sp: (x.units.is_dimensionless, x.units.dimensions, x.units.latex_repr, x.units.is_atomic, x.units.is_code_unit), "any", "manual"),
    "has_equivalent": (lambda u, x, sp: x.has_equivalent("thermal"), "any", "manual"),
    "units-get_base_equivalent": (lambda u, x, sp: x.units.get_base_equivalent(), "any", "manual"), "units-as_coeff_unit": (lambda u, x, sp: x.units.as_coeff_unit(), "any", "manual"),
    "units-get_conversion_factor": (lambda u, x, sp: x.units.get_conversion_factor(u.Unit(sp.commens)), "any", "manual"),
    "units-same_dimensions_as": (lambda u, x, sp: x.units.same_dimensions_as(u.Unit(sp.commens)), "any", "manual"),
    "units-latex": (lambda u, x, sp: x.units.latex_representation(), "any", "manual"), "units-times-number": (lambda u, x, sp: 3.0 * x.units, "any", "manual"),
    "units-times-null": (lambda u, x, sp: (x.units * u.Unit(), u.Unit() * x.units, x.units / u.Unit()), "any", "manual"),
    "float": (lambda u, x, sp: float(x), "0d", "manual"), "from-operand": (lambda u, x, sp: u.unyt_array(x), "any", "manual"),
    "quantity-from-operand": (lambda u, x, sp: u.unyt_quantity(x), "0d", "manual"), "array-with-own-units": (lambda u, x, sp: u.unyt_array(x.d, x.units), "any", "manual"),
}
S_FAULTY = {"to-other": "dimension-mismatch", "to-unknown": "unknown-unit", "to_equivalent-other": "equivalence-not-covering", "in_base-bogus": "junk-operand",
            "to-bad-equivalence": "invalid-equivalence", "convert_to_units-other": "dimension-mismatch", "convert_to_units-unknown": "unknown-unit",
            "convert_to_base-bogus": "junk-operand", "convert_to_equivalent-bad": "invalid-equivalence", "pow-self": "non-dimensionless-exponent"}
# array functions: name -> (callable(unyt, x, p), layouts, takes a bare partner p)
S_FUNCS = {
    "sum": (lambda u, x, p: np.sum(x), "any", False), "prod": (lambda u, x, p: np.prod(x), "any", False), "mean": (lambda u, x, p: np.mean(x), "any", False),
    "std": (lambda u, x, p: np.std(x), "any", False), "var": (lambda u, x, p: np.var(x), "any", False), "median": (lambda u, x, p: np.median(x), "any", False),
    "cumsum": (lambda u, x, p: np.cumsum(x), "any", False), "cumprod": (lambda u, x, p: np.cumprod(x), "any", False), "sort": (lambda u, x, p: np.sort(x), "nd", False),
    "unique": (lambda u, x, p: np.unique(x), "any", False), "concatenate-self": (lambda u, x, p: np.concatenate([x, x]), "nd", False),
    "stack-self": (lambda u, x, p: np.stack([x, x]), "any", False), "where": (lambda u, x, p: np.where(np.ones(np.shape(x), dtype=bool), x, x), "any", False),
    "around": (lambda u, x, p: np.around(x, 1), "any", False), "diff": (lambda u, x, p: np.diff(x), "1d", False), "gradient": (lambda u, x, p: np.gradient(x), "1d", False),
    "linalg.norm": (lambda u, x, p: np.linalg.norm(x), "nd", False), "linalg.inv": (lambda u, x, p: np.linalg.inv(x), "2d", False), "linalg.det": (lambda u, x, p: np.linalg.det(x), "2d", False),
    "isclose-self": (lambda u, x, p: np.isclose(x, x), "any", False), "allclose-self": (lambda u, x, p: np.allclose(x, x), "any", False),
    "array_equal-self": (lambda u, x, p: np.array_equal(x, x), "any", False), "linspace": (lambda u, x, p: np.linspace(x, x, 3), "any", False),
    "histogram": (lambda u, x, p: np.histogram(x, bins=2), "1d", False), "max": (lambda u, x, p: np.max(x), "any", False), "ptp": (lambda u, x, p: np.ptp(x), "any", False),
    "nansum": (lambda u, x, p: np.nansum(x), "any", False), "percentile": (lambda u, x, p: np.percentile(x, 30), "any", False), "ones_like": (lambda u, x, p: np.ones_like(x), "any", False),
    "full_like-bare": (lambda u, x, p: np.full_like(x, 2.0), "any", False), "tile": (lambda u, x, p: np.tile(x, 2), "any", False), "roll": (lambda u, x, p: np.roll(x, 1), "any", False),
    "flip": (lambda u, x, p: np.flip(x), "nd", False), "fft": (lambda u, x, p: np.fft.fft(x), "1d", False), "copy": (lambda u, x, p: np.copy(x), "any", False),
    "asarray": (lambda u, x, p: np.asarray(x), "any", False), "array2string": (lambda u, x, p: np.array2string(x), "any", False),
    "dot": (lambda u, x, p: np.dot(x, p), "1d", True), "dot-r": (lambda u, x, p: np.dot(p, x), "1d", True), "outer": (lambda u, x, p: np.outer(x, p), "1d", True),
    "outer-r": (lambda u, x, p: np.outer(p, x), "1d", True), "inner": (lambda u, x, p: np.inner(x, p), "1d", True), "kron": (lambda u, x, p: np.kron(x, p), "1d", True),
    "kron-r": (lambda u, x, p: np.kron(p, x), "1d", True), "convolve": (lambda u, x, p: np.convolve(x, p), "1d", True), "correlate": (lambda u, x, p: np.correlate(p, x), "1d", True),
    "vdot": (lambda u, x, p: np.vdot(x, p), "1d", True), "tensordot": (lambda u, x, p: np.tensordot(x, p, 1), "1d", True), "einsum": (lambda u, x, p: np.einsum("i,i", x, p), "1d", True),
    "cross": (lambda u, x, p: np.cross(np.resize(x, 3), np.resize(p, 3)), "1d", True), "trapezoid": (lambda u, x, p: np.trapezoid(x, p), "1d", True),
    "average-w": (lambda u, x, p: np.average(x, weights=p), "1d", True), "interp": (lambda u, x, p: np.interp(p, np.sort(np.asarray(p)), x), "1d", True),
    "clip-bare": (lambda u, x, p: np.clip(x, 1.0, 5.0), "any", False), "append-bare": (lambda u, x, p: np.append(x, p), "1d", True),
    "linalg.solve": (lambda u, x, p: np.linalg.solve(x, np.ones(2)), "2d", False), "matmul-func": (lambda u, x, p: np.matmul(x, np.eye(2)), "2d", False),
}
S_FUNC_PARTNERS = ["nd-f8", "nd-f4-strided", "nd-i4", "list", "tuple", "unitless-array", "unitless-view", "nd-readonly", "list-of-int"]
# Unit arithmetic with the spelled Unit object itself as the operand: name -> (callable(unyt, U, v, sp), partner kinds or None, tapped)
S_UNIT_PARTNERS = ["null-unit", "unit-object", "self", "same-spelling", "py-float", "py-int", "fraction", "np-float32", "nd-f8", "nd-i4", "list", "unitless-quantity",
                   "unitless-array", "dimensionless-quantity", "other-dimension", "junk-str", "none"]
S_UNITOPS = {
    "mul": (lambda u, U, v, sp: U * v, True, True), "rmul": (lambda u, U, v, sp: v * U, True, True), "div": (lambda u, U, v, sp: U / v, True, True),
    "rdiv": (lambda u, U, v, sp: v / U, True, True),
    "pow2": (lambda u, U, v, sp: U ** 2, False, True), "pow-1": (lambda u, U, v, sp: U ** -1, False, True), "pow-half": (lambda u, U, v, sp: U ** 0.5, False, True),
    "pow0": (lambda u, U, v, sp: U ** 0, False, True), "pow1": (lambda u, U, v, sp: U ** 1, False, True), "pow-third": (lambda u, U, v, sp: U ** (1 / 3), False, True),
    "get_base_equivalent": (lambda u, U, v, sp: U.get_base_equivalent(), False, True), "get_base_equivalent-cgs": (lambda u, U, v, sp: U.get_base_equivalent("cgs"), False, True),
    "get_base_equivalent-imperial": (lambda u, U, v, sp: U.get_base_equivalent("imperial"), False, True),
    "get_cgs_equivalent": (lambda u, U, v, sp: U.get_cgs_equivalent(), False, True), "get_mks_equivalent": (lambda u, U, v, sp: U.get_mks_equivalent(), False, True),
    "as_coeff_unit": (lambda u, U, v, sp: U.as_coeff_unit(), False, True), "copy": (lambda u, U, v, sp: U.copy(), False, True), "copy-deep": (lambda u, U, v, sp: U.copy(deep=True), False, True),
    "get_conversion_factor": (lambda u, U, v, sp: U.get_conversion_factor(u.Unit(sp.commens)), False, True),
    "deepcopy": (lambda u, U, v, sp: __import__("copy").deepcopy(U), False, False), "pickle": (lambda u, U, v, sp: __import__("pickle").loads(__import__("pickle").dumps(U)), False, False),
    "eq": (lambda u, U, v, sp: (U == u.Unit(sp.commens), U != u.Unit(sp.text), hash(U)), False, False), "str": (lambda u, U, v, sp: (str(U), repr(U)), False, False),
    "latex": (lambda u, U, v, sp: (U.latex_repr, U.latex_representation()), False, False), "props": (lambda u, U, v, sp: (U.is_dimensionless, U.is_atomic, U.dimensions, U.base_value, U.expr), False, False),
    "same_dimensions_as": (lambda u, U, v, sp: U.same_dimensions_as(u.Unit(sp.commens)), False, False), "has_equivalent": (lambda u, U, v, sp: U.has_equivalent("thermal"), False, False),
    "sqrt": (lambda u, U, v, sp: np.sqrt(U), False, False), "quantity-with": (lambda u, U, v, sp: u.unyt_quantity(2.0, U), False, False),
    "array-with-times-number": (lambda u, U, v, sp: u.unyt_array([1.0, 2.0], U) * 2, False, False), "array-with-divided": (lambda u, U, v, sp: 2 / u.unyt_array([1.0, 2.0], U), False, False),
    "Unit-from-Unit": (lambda u, U, v, sp: u.Unit(U), False, False), "reparse": (lambda u, U, v, sp: u.Unit(str(U)), False, False),
}
S_UNIT_ROUTES = ["string", "unit-arith", "registry-string", "unit-copy", "restored", "from-array"]


def spelled_items():
    items = []
    for uf in ufuncs(2):
        if getattr(np, uf).signature is not None:
            continue
        for form in S_FORMS2:
            if form in ("op", "rop") and uf not in OPS:
                continue
            items.append(["uf2", uf, form])
    for uf in ufuncs(1):
        if getattr(np, uf).signature is not None:
            continue
        for form in S_FORMS1:
            if form == "method" and uf not in UOPS:
                continue
            items.append(["uf1", uf, form])
    items += [["meth", n, ""] for n in sorted(S_METHODS)]
    items += [["fn", n, ""] for n in sorted(S_FUNCS)]
    items += [["unit", n, ""] for n in sorted(S_UNITOPS)]
    return items


# ---------------------------------------------------------------------------------------------- read-only targets
# Every in-place call family with a target the caller is not allowed to write to (a read-only array, a read-only view of a writeable
# buffer, a read-only 0-d quantity, a transposed read-only view, an array over an immutable bytes object): NumPy refuses the write, so
# the call has to fail - and clause (b) then demands numbers and unit of the target exactly as they were.
RO_LAYOUTS = ["ro", "ro-view", "ro-0d", "ro-T", "ro-bytes"]
RO_DTYPES = {"quick": ["f8", "f4", "i8", "i4", "i1"], "thorough": ["f8", "f4", "f2", "c16", "i8", "i4", "i2", "u4", "i1", "u1"]}
RO_CONV = [["km", ["m", "mile", "1000*m"]], ["g", ["kg", "lb"]], ["K", ["degC", "R"]], ["degC", ["K", "degF"]], ["J", ["erg", "kg*m**2/s**2"]],
           ["A", ["statA", "mA"]], ["km/s", ["m/s"]], ["3*km", ["m"]], ["dimensionless", ["percent"]], ["degree", ["rad"]], ["m**2/cm", ["m", "cm"]]]
RO_EQUIV = [["K", "keV", "thermal"], ["g", "J", "mass_energy"], ["angstrom", "keV", "spectral"], ["km/s", "K", "sound_speed"], ["Msun", "km", "schwarzschild"]]
RO_FUNCS = {
    "clip": lambda e, t: np.clip(e["a"], e["a"].min(), e["a"].max(), out=t), "around": lambda e, t: np.around(e["a"], 1, out=t),
    "cumsum": lambda e, t: np.cumsum(e["a"], out=t), "cumprod": lambda e, t: np.cumprod(e["a"], out=t), "take": lambda e, t: np.take(e["a"], np.arange(e["a"].size).reshape(e["a"].shape), out=t),
    "sum-axis": lambda e, t: np.sum(e["A"], axis=0, out=t), "mean-axis": lambda e, t: np.mean(e["A"], axis=0, out=t), "max-axis": lambda e, t: np.max(e["A"], axis=0, out=t),
    "std-axis": lambda e, t: np.std(e["A"], axis=0, out=t), "prod-axis": lambda e, t: np.prod(e["A"], axis=0, out=t), "median-axis": lambda e, t: np.median(e["A"], axis=0, out=t),
    "copyto": lambda e, t: np.copyto(t, e["a"]), "copyto-bare": lambda e, t: np.copyto(t, 2.5), "put": lambda e, t: np.put(t, [0], e["q"]), "place": lambda e, t: np.place(t, np.ones(t.shape, dtype=bool), e["q"]),
    "putmask": lambda e, t: np.putmask(t, np.ones(t.shape, dtype=bool), e["q"]), "fill_diagonal": lambda e, t: np.fill_diagonal(t, e["q"]),
    "method-fill": lambda e, t: t.fill(e["q"]), "method-sort": lambda e, t: t.sort(), "method-clip-out": lambda e, t: e["a"].clip(e["a"].min(), e["a"].max(), out=t),
    "method-round-out": lambda e, t: e["a"].round(1, out=t), "method-cumsum-out": lambda e, t: e["a"].cumsum(out=t), "nan_to_num-inplace": lambda e, t: np.nan_to_num(t, copy=False),
}
RO_MANUAL = {"method-fill", "method-sort", "method-clip-out", "method-round-out", "method-cumsum-out"}
RO_NEEDS = {"sum-axis": "row", "mean-axis": "row", "max-axis": "row", "std-axis": "row", "prod-axis": "row", "median-axis": "row", "fill_diagonal": "2d"}


def mk_ro(unyt, r, unit, dt, layout, shape=None):
    """read-only target of the given layout -> (target, holder keeping its buffer alive)"""
    ua = unyt.unyt_array
    if layout == "ro":
        a = ua(_vals(r, 4, dt) if shape is None else _vals(r, int(np.prod(shape)), dt).reshape(shape), unit); a.flags.writeable = False; return a, a
    if layout == "ro-view":         # the buffer itself stays writeable: the caller only handed out a read-only window
        n = 4 if shape is None else int(np.prod(shape))
        b = ua(_vals(r, 2 * n + 1, dt), unit); v = b[1::2][:n]
        if shape is not None:
            v = v.reshape(shape) if v.reshape(shape).base is not None and np.shares_memory(v.reshape(shape), b) else v
        v.flags.writeable = False; return v, b
    if layout == "ro-0d":
        q = unyt.unyt_quantity(_vals(r, 1, dt)[0], unit); q.flags.writeable = False; return q, q
    if layout == "ro-T":
        b = ua(_vals(r, 4, dt).reshape(2, 2), unit); v = b.T; v.flags.writeable = False; return v, b
    if layout == "ro-bytes":        # NumPy arrays over immutable Python objects can never be written
        n = 4 if shape is None else int(np.prod(shape))
        raw = _vals(r, n, dt).tobytes()
        v = np.frombuffer(raw, dtype=dt)
        if shape is not None:
            v = v.reshape(shape)
        a = ua(v, unit); return a, (a, raw)
    raise KeyError(layout)


def ro_items():
    items = [["conv", i, ""] for i in range(len(RO_CONV))] + [["equiv", i, ""] for i in range(len(RO_EQUIV))]
    for uf in ufuncs(2):
        for form in ("iop", "out-in0", "out-in1", "out", "at", "accumulate-out", "reduce-out", "outer-out"):
            if form == "iop" and (uf not in OPS or OPS[uf][1] is None):
                continue
            if getattr(np, uf).signature is not None and form not in ("iop", "out-in0", "out"):
                continue
            if getattr(np, uf).nout != 1 and form not in ("out", "out-in0"):
                continue
            items.append(["uf2", uf, form])
    for uf in ufuncs(1):
        if getattr(np, uf).signature is not None:
            continue
        items += [["uf1", uf, "out-self"], ["uf1", uf, "out"]]
    items += [["fn", n, ""] for n in sorted(RO_FUNCS)]
    items += [["setitem", vk, ""] for vk in ("bare", "same", "commens", "mismatch", "array-commens", "list", "dimless", "junk")]
    return items


# ---------------------------------------------------------------------------------------------- data-dependent faults
# Every in-place call family with DATA from every class of vf/gen/c18_datadep.py (magnitudes below / at / above each domain edge of the
# formula the call evaluates, zero, -0.0, negative, tiny, huge, largest finite, +-inf, NaN; special elements placed first / last / in the
# middle / everywhere), under the default and under the caller's strict floating-point policy.  Such a call fails - if it fails - only
# after its first in-place steps; clause (b) then needs the pre-call snapshot of the target, clause (c) the copying twin on the same data.
DD_CONV_DOORS = ["convert_to_units", "convert_to_units-Unit", "convert_to_base", "convert_to_cgs", "convert_to_mks", "convert_to_base-system"]
DD_EQUIV_DOORS = ["convert_to_equivalent", "convert_to_units-positional", "convert_to_units-keyword", "convert_to_base", "convert_to_cgs", "convert_to_mks"]
DD_COPY_DOORS = ["to_equivalent", "to", "in_units", "to_value"]
DD_UF1_FORMS = ["out-self", "out-fresh", "out-view"]
DD_UF2_FORMS = ["iop", "out-in0", "out-in1", "out-fresh", "at", "reduce-out", "accumulate-out-self", "outer-out"]
DD_SETITEM_VALUES = ["bare", "np-scalar", "same", "commens", "array-commens", "list", "dimless", "bare-array"]
DD_METHODS = {"fill": lambda a, v: a.fill(v), "put": lambda a, v: a.put([0, 1], v), "sort": lambda a, v: a.sort(), "partition": lambda a, v: a.partition(1),
              "clip-out": lambda a, v: a.clip(v, None, out=a), "round-out": lambda a, v: a.round(1, out=a), "itemset-like": lambda a, v: a.__setitem__(0, v),
              "clip-out-bare": lambda a, v: a.clip(getattr(v, "d", v), None, out=a)}


def datadep_items():
    items = []
    for eq in sorted(DD.EQUIVS):
        for i, (a, b) in enumerate(DD.EQUIVS[eq][1]):
            items += [["equiv", eq, [a, b]], ["equiv", eq, [b, a]]]
    items += [["conv", i, ""] for i in range(len(CONV_CASES))]
    items += [["uf1", uf, ""] for uf in ufuncs(1) if getattr(np, uf).signature is None]
    items += [["uf2", uf, ""] for uf in ufuncs(2)]
    items += [["fn", n, ""] for n in sorted(RO_FUNCS)]
    items += [["setitem", vk, ""] for vk in DD_SETITEM_VALUES]
    items += [["method", n, ""] for n in sorted(DD_METHODS)]
    return items


# ---------------------------------------------------------------------------------------------- batches
def _plan(tier):
    return {"draws": 1 if tier == "quick" else 10, "nb": 8 if tier == "quick" else 32}


def batches(tier, seed):
    p = _plan(tier)
    out = []
    bins = ufuncs(2)
    items = []
    for uf in bins:
        kinds = EXPKINDS if uf in ("power", "float_power") else BKINDS
        for form in BFORMS:
            if form in ("op", "rop") and uf not in OPS:
                continue
            if form == "iop" and (uf not in OPS or OPS[uf][1] is None):
                continue
            for bk in kinds:
                items.append([uf, form, bk])
    for i, c in enumerate(chunks(items, p["nb"] * 2)):
        out.append((f"binary/{i}", {"g": "binary", "items": c, "seed": seed, "tier": tier}))
    items = [[uf, form, u] for uf in ufuncs(1) for form in UFORMS for u in ("km", "dimensionless", "rad", "degC", "K", "3*km")
             if not (form == "method" and uf not in UOPS)]
    for i, c in enumerate(chunks(items, p["nb"])):
        out.append((f"unary/{i}", {"g": "unary", "items": c, "seed": seed, "tier": tier}))
    for i, c in enumerate(chunks(CONV_CASES, max(2, p["nb"] // 2))):
        out.append((f"conv/{i}", {"g": "conv", "items": c, "seed": seed, "tier": tier}))
    for i, c in enumerate(chunks(EQUIV_CASES, max(2, p["nb"] // 4))):
        out.append((f"equiv/{i}", {"g": "equiv", "items": c, "seed": seed, "tier": tier}))
    for i, c in enumerate(chunks(sorted(FUNCS), max(2, p["nb"] // 2))):
        out.append((f"func/{i}", {"g": "func", "items": c, "seed": seed, "tier": tier}))
    for i, c in enumerate(chunks(ufuncs(2), max(2, p["nb"] // 4))):
        out.append((f"ufmeth/{i}", {"g": "ufmeth", "items": c, "seed": seed, "tier": tier}))
    for i, c in enumerate(chunks(rescale_items(), 12 if tier == "quick" else 48)):
        out.append((f"rescale/{i}", {"g": "rescale", "items": c, "seed": seed, "tier": tier}))
    SPL.selfcheck()
    sitems = spelled_items()
    # interleaved, so that every batch (= every fresh process) holds all item classes and is of similar cost
    nsb = 16 if tier == "quick" else 48
    for i in range(nsb):
        out.append((f"spelled/{i}", {"g": "spelled", "items": sitems[i::nsb], "seed": seed, "tier": tier}))
    ritems = ro_items()
    nrb = 6 if tier == "quick" else 16
    for i in range(nrb):
        out.append((f"rotarget/{i}", {"g": "rotarget", "items": ritems[i::nrb], "seed": seed, "tier": tier}))
    DD.selfcheck()
    ditems = datadep_items()
    ndb = 8 if tier == "quick" else 32
    for i in range(ndb):
        out.append((f"datadep/{i}", {"g": "datadep", "items": ditems[i::ndb], "seed": seed, "tier": tier}))
    out.append(("setitem", {"g": "setitem", "items": [], "seed": seed, "tier": tier}))
    out.append(("unitop", {"g": "unitop", "items": [], "seed": seed, "tier": tier}))
    out.append(("methods", {"g": "methods", "items": [], "seed": seed, "tier": tier}))
    if tier == "thorough":
        out.insert(0, ("pytest-suite", {"g": "pytest", "items": [], "seed": seed, "tier": tier}))
        # the shared NumPy call-template catalogue (vf/gen/npcatalog.py, written for C06) as one more workload source
        try:
            from vf.gen import npcatalog
            tids = [t.tid for t in npcatalog.catalog()]
        except Exception:
            tids = []
        for i, c in enumerate(chunks(tids, 12)):
            out.append((f"npcat/{i}", {"g": "npcat", "items": c, "seed": seed, "tier": tier}))
    return out


# conversion cases: (source unit, [valid targets], [unit systems])
CONV_CASES = [
    ["km", ["m", "cm", "mile", "ft", "1000*m"]], ["s", ["ms", "hr"]], ["g", ["kg", "Msun", "lb"]], ["K", ["degC", "degF", "R", "mK"]],
    ["degC", ["K", "degF", "R"]], ["degF", ["degC", "K"]], ["J", ["erg", "eV", "kg*m**2/s**2"]], ["A", ["statA", "mA"]], ["T", ["G", "mT"]],
    ["C", ["statC", "esu"]], ["V", ["statV", "mV"]], ["statA", ["A"]], ["G", ["T"]], ["kg*m/s**2", ["N", "dyn"]], ["km/s", ["m/s", "mile/hr"]],
    ["degree", ["rad", "arcmin"]], ["dimensionless", ["dimensionless", "percent"]], ["3*km", ["m", "km"]], ["A*m", ["mA*km"]],
    ["T*s", ["mT*s"]], ["delta_degC", ["delta_degF", "K"]], ["erg/s", ["W", "Lsun"]], ["Mpc", ["km", "ly"]], ["dB", ["Np"]],
    ["lat", ["degree"]], ["g/cm**3", ["kg/m**3"]],
]
# equivalence cases: (source unit, target unit, equivalence, kwargs)
EQUIV_CASES = [
    ["K", "keV", "thermal", {}], ["keV", "K", "thermal", {}], ["g", "J", "mass_energy", {}], ["erg", "g", "mass_energy", {}],
    ["angstrom", "keV", "spectral", {}], ["Hz", "eV", "spectral", {}], ["km", "MHz", "spectral", {}], ["1/cm", "eV", "spectral", {}],
    ["eV", "nm", "spectral", {}], ["eV", "1/cm", "spectral", {}], ["Hz", "1/m", "spectral", {}], ["m", "1/m", "spectral", {}],
    ["K", "km/s", "sound_speed", {}], ["km/s", "K", "sound_speed", {}], ["km/s", "keV", "sound_speed", {"mu": 1.2}], ["keV", "km/s", "sound_speed", {"gamma": 1.4}],
    ["km/s", "dimensionless", "lorentz", {}], ["dimensionless", "km/s", "lorentz", {}], ["Msun", "km", "schwarzschild", {}], ["km", "Msun", "schwarzschild", {}],
    ["me", "angstrom", "compton", {}], ["fm", "me", "compton", {}], ["K", "W/m**2", "effective_temperature", {}], ["W/m**2", "K", "effective_temperature", {}],
    ["g/cm**3", "cm**-3", "number_density", {"mu": 1.4}], ["cm**-3", "g/cm**3", "number_density", {}],
    ["degC", "keV", "thermal", {}], ["degC", "W/m**2", "effective_temperature", {}], ["degF", "km/s", "sound_speed", {}], ["km/s", "degC", "sound_speed", {}],
    ["keV", "degC", "thermal", {}], ["km", "m", "spectral", {}], ["K", "degC", "thermal", {}],
]


# ---------------------------------------------------------------------------------------------- worker
def worker(batch, rec):
    import warnings
    warnings.simplefilter("ignore")
    np.seterr(all="ignore")
    import unyt  # noqa
    from vf.monitors import taps
    from vf.monitors.c18_passive import Passive, merge_dump
    bid, pl = batch
    if pl["g"] == "pytest":
        return run_suite(rec)
    obs = Passive(differential=True, raise_sites=True)
    obs.fault = None
    h = taps.install(observers=[obs])
    r = core.rng(pl["seed"], bid)
    D = Driver(unyt, obs, r, rec, pl["tier"], pl["seed"])
    try:
        getattr(D, "g_" + pl["g"])(pl["items"])
    finally:
        h.uninstall()
        obs.stop()
    for k, v in h.calls.items():
        rec.count("tapcalls:" + k, v)
    merge_dump(obs.dump(), rec)
    rec.sample({"batch": bid, "group": pl["g"], "first_items": pl["items"][:2], "driver_cases": D.ncases})


def run_suite(rec):
    """the repository's own passing tests as a passive workload (thorough tier)"""
    from vf.monitors.c18_passive import merge_dump
    fd, path = tempfile.mkstemp(prefix="vf-c18-plugin-", suffix=".json")
    os.close(fd)
    os.unlink(path)
    env = dict(os.environ)
    env.update({"PYTHONPATH": core.VERIF + ":" + os.path.join(core.VERIF, ".deps"), "VF_OBSERVERS": "vf.monitors.c18_passive:Passive",
                "VF_PLUGIN_OUT": path, "PYTHONHASHSEED": "0", "PYTHONDONTWRITEBYTECODE": "1"})
    try:
        p = subprocess.run([sys.executable, "-m", "pytest", "-p", "vf.pytest_plugin", "-p", "no:cacheprovider", "-q", "-x", "--no-header",
                            os.path.join(core.REPO, "unyt")], cwd=core.REPO, env=env, capture_output=True, text=True, timeout=1200)
        if not os.path.exists(path):
            raise RuntimeError("pytest plugin wrote no dump; pytest said: " + (p.stdout + p.stderr)[-600:])
        with open(path) as f:
            d = json.load(f)
    finally:
        if os.path.exists(path):
            os.unlink(path)
    bad = {k: v for k, v in d["outcomes"].items() if v != "passed"}
    if bad or not d["outcomes"]:
        raise RuntimeError(f"repository tests did not all pass under the taps ({len(bad)} of {len(d['outcomes'])}): {sorted(bad)[:5]}")
    od = d["observers"].get("vf.monitors.c18_passive:Passive")
    if not od or "error" in od:
        raise RuntimeError("observer dump missing: " + repr(od)[:300])
    rec.count("suite:tests-passed", len(d["outcomes"]))
    for k, v in d["tap_calls"].items():
        rec.count("suite:tapcalls:" + k, v)
    od["counters"] = {"suite:" + k: v for k, v in od.get("counters", {}).items()}
    merge_dump(od, rec)
    rec.sample({"batch": "pytest-suite", "tests": len(d["outcomes"]), "tap_calls": sum(d["tap_calls"].values())})


class _CaseTimeout(BaseException):
    """a single data-dependent case ran into its time limit (never a verdict: counted, the case is dropped)"""


def _on_alarm(signum, frame):
    raise _CaseTimeout()


class Driver:
    def __init__(self, unyt, obs, r, rec, tier, seed):
        self.unyt = unyt; self.obs = obs; self.r = r; self.rec = rec; self.tier = tier; self.seed = seed
        self.kinds = KINDS[tier]; self.dtypes = DTYPES[tier]
        self.combos = [(k, d) for k in self.kinds for d in self.dtypes]
        self.draws = _plan(tier)["draws"]
        self.ncases = 0

    def plan(self, aunits, quick_draws=2):
        """structural plan for one catalogue item: [(operand unit, dtype, operand kind)].  thorough: every operand unit x every
        dtype family (exact dtype and memory kind drawn); quick: a few random draws from the same product, so that the mechanism
        keys reachable in quick are a subset of those reachable in thorough"""
        r = self.r
        fams = FAMS[self.tier]
        out = []
        if self.tier == "thorough":
            for au in aunits:
                for fam in fams.values():
                    for _ in range(2):
                        out.append((au, r.choice(fam), r.choice(self.kinds)))
        else:
            for _ in range(quick_draws):
                out.append((r.choice(aunits), r.choice(fams[r.choice(list(fams))]), r.choice(self.kinds)))
        return out

    def pick(self, i):
        """operand (kind, dtype) for case i: cycles through all combinations, start shifted by the seed"""
        return self.combos[(i * 7 + self.seed * 13 + self.r.randrange(len(self.combos))) % len(self.combos)]

    def run(self, label, fault, fn, manual=None):
        """one driver case: fn() performs the call(s); outcome recorded, never judged here.  manual: an obs.manual(...) context
        declaring the operands of an entry point that has no tap"""
        self.ncases += 1
        self.obs.context = label
        self.obs.fault = fault
        try:
            if manual is not None:
                with manual:
                    fn()
            else:
                fn()
            outcome = "returned"
        except Exception as e:
            outcome = "raised:" + type(e).__name__
        if fault:
            self.rec.count(f"fault:{fault}:{'raised' if outcome != 'returned' else 'returned'}")
        self.obs.fault = None
        return outcome

    # ------------------------------------------------------------------ binary ufuncs / operators / augmented assignment
    def g_binary(self, items):
        unyt, r = self.unyt, self.r
        i = 0
        for uf_name, form, bk in items:
            uf = getattr(np, uf_name)
            for aunit, dt, kind in self.plan(list(UNITS)):
                i += 1
                if uf.signature is not None and kind not in ("T", "2d"):
                    kind = "T"
                a, hold = mk(unyt, r, aunit, dt, kind)
                b, fault = second(unyt, r, a, aunit, bk)
                if aunit == "degC" and fault is None and uf_name not in ("add", "subtract", "less", "greater", "equal", "not_equal", "maximum", "minimum"):
                    fault = "offset-unit"
                label = [uf_name, form, bk, aunit, kind, dt]
                try:
                    shape = np.broadcast_shapes(np.shape(a), np.shape(b) if not isinstance(b, (str,)) and not hasattr(b, "is_Unit") else ())
                except Exception:
                    shape = np.shape(a)
                if uf.signature is not None:
                    try:
                        shape = np.shape(uf(np.ones(np.shape(a)), np.ones(np.shape(b))))
                    except Exception:
                        shape = np.shape(a)
                if form == "call":
                    self.run(label, fault, lambda: uf(a, b))
                elif form == "bare-in-unyt-out":
                    # the only unyt operand of the call is its out= buffer
                    ab = np.array(a.d)
                    bb = np.array(b.view(np.ndarray)) if isinstance(b, np.ndarray) else (b if isinstance(b, (int, float, list)) else 2.0)
                    o, ohold = out_buffer(unyt, r, r.choice(["out-fresh", "out-int", "out-view"]), shape, a)
                    self.run(label, None, lambda: uf(ab, bb, out=o if uf.nout == 1 else (o, None)))
                elif form == "rcall":
                    self.run(label, fault, lambda: uf(b, a))
                elif form == "op":
                    self.run(label, fault, lambda: OPS[uf_name][0](a, b))
                elif form == "rop":
                    self.run(label, fault, lambda: OPS[uf_name][0](b, a))
                elif form == "iop":
                    def f(a=a, b=b):
                        OPS[uf_name][1](a, b)
                    self.run(label, fault if fault else ("int8-buffer" if np.dtype(dt).itemsize == 1 else None), f)
                elif form == "out-in0":
                    if uf.signature is None or tuple(shape) == a.shape:
                        self.run(label, fault, lambda: uf(a, b, out=a))
                elif form == "out-in1":
                    if isinstance(b, np.ndarray) and (uf.signature is None or tuple(shape) == b.shape):
                        self.run(label, fault, lambda: uf(a, b, out=b))
                else:
                    o, ohold = out_buffer(unyt, r, form, shape, a)
                    f2 = fault or {"out-int": "int-out-buffer", "out-i1": "int8-buffer"}.get(form)
                    if uf.nout == 2:
                        o2, oh2 = out_buffer(unyt, r, "out-fresh", shape, a)
                        self.run(label, f2, lambda: uf(a, b, out=(o, o2)))
                        self.run(label, f2, lambda: uf(a, b, out=(None, o2)))
                    elif form == "out-where":
                        m = np.array([bool(r.getrandbits(1)) for _ in range(int(np.prod(shape)) if shape else 1)]).reshape(shape)
                        self.run(label, f2, lambda: uf(a, b, out=o, where=m))
                    elif form == "out-tuple":
                        self.run(label, f2, lambda: uf(a, b, out=(o,)))
                    else:
                        self.run(label, f2, lambda: uf(a, b, out=o))

    # ------------------------------------------------------------------ rescaled-operand sweep (dtype x layout x position)
    def g_rescale(self, items):
        unyt, r, tier = self.unyt, self.r, self.tier
        dts, lays = R_DTYPES[tier], R_LAYOUTS[tier]
        for kind, name, form in items:
            cases = []
            if tier == "thorough":
                for pair in R_PAIRS:
                    for dt in dts:
                        for lay in lays:
                            for pos in (0, 1):
                                cases.append((pair, dt, lay, pos))
            else:
                # every dtype x layout x position with a drawn unit pair, and every unit pair x position with drawn dtypes/layouts
                for dt in dts:
                    for lay in lays:
                        for pos in (0, 1):
                            cases.append((r.choice(R_PAIRS), dt, lay, pos))
                for pair in R_PAIRS:
                    for pos in (0, 1):
                        cases.append((pair, r.choice(dts[:3]), r.choice(lays), pos))
                        cases.append((pair, r.choice(dts[3:]), r.choice(lays), pos))
            for (su, pu), dt, lay, pos in cases:
                if lay.startswith("bare"):
                    su, pu = None, "percent"
                try:
                    subj, hold = mk_subject(unyt, r, su, dt, lay)
                except Exception as e:          # the operand itself cannot be built: nothing to judge
                    self.rec.count(f"rescale:operand-not-built:{dt}:{lay}:{type(e).__name__}")
                    continue
                pk = r.choice(R_PARTNERS)
                part = mk_partner(unyt, r, subj, pu, pk, dt, tier)
                x, y = (subj, part) if pos == 0 else (part, subj)
                label = ["rescale", name, form, su, pu, dt, lay, pos, pk]
                man = None
                if kind == "uf":
                    uf = getattr(np, name)
                    if form == "call":
                        fn = lambda: uf(x, y)
                    elif form == "op":
                        fn = lambda: OPS[name][0](x, y)
                    else:
                        fn = lambda: uf.outer(x, y)
                else:
                    f0, tapped = RFUNCS[name]
                    fn = lambda: f0(unyt, x, y)
                    if not tapped:
                        man = self.obs.manual("helper/" + name, inputs=[("in0", x), ("in1", y)])
                self.obs.subject = (subj, np.dtype(dt).str.replace("|", ""), lay)
                try:
                    outcome = self.run(label, None, fn, manual=man)
                finally:
                    self.obs.subject = None
                self.rec.count("rescale:calls")
                self.rec.count("rescale:" + ("returned" if outcome == "returned" else outcome))

    # ------------------------------------------------------------------ spelled-operand sweep (unit spelling x route x partner kind)
    def _spelled_unit(self, sp, route):
        """the spelled Unit object itself, obtained the given way -> (Unit, holder)"""
        unyt = self.unyt
        if route == "string":
            return unyt.Unit(sp.text), None
        if route == "unit-arith":
            return SPL.unit_by_arithmetic(unyt, sp.text), None
        if route == "registry-string":
            reg = unyt.UnitRegistry()
            return unyt.Unit(sp.text, registry=reg), (reg, unyt.unyt_quantity(1.0, sp.text, registry=reg))
        if route == "unit-copy":
            return unyt.Unit(sp.text).copy(), None
        if route == "restored":
            import pickle
            return pickle.loads(pickle.dumps(unyt.Unit(sp.text))), None
        if route == "from-array":
            a = unyt.unyt_array([1.0, 2.0], sp.text)
            return a.units, a
        raise KeyError(route)

    def _spelled_case(self, label, fault, fn, subj, sp, route, pk, partner=None, manual_op=None, inplace=False):
        """one judged call (and, for a quarter of the cases, the same call again: memoised path) with the spelled operand declared to the observer"""
        obs, rec = self.obs, self.rec
        cont = SPL.container_state(partner)
        obs.spelled = (subj, sp.family, route, pk)
        try:
            reps = 2 if (not inplace and self.r.random() < 0.25) else 1
            for k in range(reps):
                man = None
                if manual_op is not None:
                    ins = [("self", subj)] + ([("arg0", partner)] if partner is not None and partner is not subj else [])
                    man = obs.manual(manual_op, inputs=ins)
                outcome = self.run(label, fault, fn, manual=man)
                rec.count("spelled:calls")
                rec.count("spelled:" + ("returned" if outcome == "returned" else "raised"))
                if k:
                    rec.count("spelled:repeat-calls")
        finally:
            obs.spelled = None
        if cont is not None:
            obs.busy = True
            try:
                if SPL.container_state(partner) != cont:
                    obs._violation(f"C18:{label[1]}/{label[2]}:input-mutated:container:{pk}", f"{label}: the list passed as operand holds other objects after the call", {"label": label})
                else:
                    obs._ok(("spelled-container", label[1], label[2], pk))
            finally:
                obs.busy = False
        # evidence that the spelling is in non-reduced form in the library's own sense: simplify() on a throw-away copy rewrites it
        # (once per text, after the judged call, invisible to the observer; never part of a verdict)
        if sp.text not in self._reducible and self.r.random() < 0.2:
            obs.busy = True
            try:
                # a new object that no registry cache, array or unit rule holds
                c = SPL.unit_by_arithmetic(self.unyt, sp.text) if SPL.FAMILIES[sp.family][2] else self.unyt.Unit(sp.text).copy()
                before = str(c.expr)
                c.simplify()
                self._reducible[sp.text] = str(c.expr) != before
            except Exception:
                self._reducible[sp.text] = None
            finally:
                obs.busy = False
            rec.count("spelled:spellings")
            rec.count("spelled:spelling-" + {True: "reducible", False: "already-reduced", None: "simplify-raised"}[self._reducible[sp.text]])

    def g_spelled(self, items):
        unyt, r, tier = self.unyt, self.r, self.tier
        self._reducible = {}
        mult = 1 if tier == "quick" else 6
        lays_for = {"any": SPL.LAYOUTS, "nd": ["own", "step", "T"], "1d": ["own", "step"], "2d": ["T"], "0d": ["0d", "elem"]}
        fams = sorted(SPL.FAMILIES)
        nfam = [0]

        def spelling():
            # families in rotation (every family is met by every batch), pool and symbols drawn
            nfam[0] += 1
            return SPL.draw(r, family=fams[(nfam[0] + self.seed) % len(fams)])

        def subject(sp, lays):
            rts = SPL.routes_for(sp.family)
            route = r.choices(rts, weights=[SPL.ROUTE_WEIGHT[x_] for x_ in rts])[0]
            lay = r.choice(lays)
            dt = r.choice(SPL.DTYPES)
            try:
                x, hold = SPL.operand(unyt, r, sp, route, lay, dt)
            except Exception as e:
                self.rec.count(f"spelled:operand-not-built:{route}:{type(e).__name__}")
                return None
            return x, hold, route, lay, dt

        for kind, name, form in items:
            if kind == "uf2":
                uf = getattr(np, name)
                for pk in SPL.PARTNER_KINDS * mult:
                    sp = spelling()
                    got = subject(sp, SPL.LAYOUTS)
                    if got is None:
                        continue
                    x, hold, route, lay, dt = got
                    p, faulty = SPL.partner(unyt, r, x, sp, pk)
                    fault = ("dimension-mismatch" if pk == "other-dimension" else "junk-operand") if faulty else None
                    label = ["spelled", name, form, sp.text, route, lay, dt, pk]
                    if form == "call":
                        fn = lambda: uf(x, p)
                    elif form == "rcall":
                        fn = lambda: uf(p, x)
                    elif form == "op":
                        fn = lambda: OPS[name][0](x, p)
                    elif form == "rop":
                        fn = lambda: OPS[name][0](p, x)
                    else:
                        fn = lambda: uf.outer(x, p)
                    self._spelled_case(label, fault, fn, x, sp, route, pk, partner=p)
            elif kind == "uf1":
                uf = getattr(np, name)
                for _ in range(4 * mult):
                    sp = spelling()
                    got = subject(sp, SPL.LAYOUTS)
                    if got is None:
                        continue
                    x, hold, route, lay, dt = got
                    fn = (lambda: uf(x)) if form == "call" else (lambda: UOPS[name](x))
                    self._spelled_case(["spelled", name, form, sp.text, route, lay, dt], None, fn, x, sp, route, "none-unary")
            elif kind == "meth":
                f0, lays, how = S_METHODS[name]
                for _ in range(6 * mult):
                    sp = spelling()
                    got = subject(sp, lays_for[lays])
                    if got is None:
                        continue
                    x, hold, route, lay, dt = got
                    self._spelled_case(["spelled", "method", name, sp.text, route, lay, dt], S_FAULTY.get(name), lambda: f0(unyt, x, sp), x, sp, route, "none-method",
                                       manual_op=("method/" + name) if how == "manual" else None, inplace=(how == "inplace"))
            elif kind == "fn":
                f0, lays, takes = S_FUNCS[name]
                for pk in (S_FUNC_PARTNERS if takes else ["none-function"] * 4) * mult:
                    sp = spelling()
                    got = subject(sp, lays_for[lays])
                    if got is None:
                        continue
                    x, hold, route, lay, dt = got
                    p = SPL.partner(unyt, r, x, sp, pk)[0] if takes else None
                    self._spelled_case(["spelled", "function", name, sp.text, route, lay, dt, pk], None, lambda: f0(unyt, x, p), x, sp, route, pk, partner=p)
            elif kind == "unit":
                f0, takes, tapped = S_UNITOPS[name]
                for pk in (S_UNIT_PARTNERS if takes else ["none-unit"] * 4) * mult:
                    sp = spelling()
                    rts = [x_ for x_ in S_UNIT_ROUTES if x_ != "unit-arith" or SPL.FAMILIES[sp.family][2]]
                    route = r.choices(rts, weights=[SPL.ROUTE_WEIGHT.get(x_, 3) for x_ in rts])[0]
                    try:
                        U, hold = self._spelled_unit(sp, route)
                    except Exception as e:
                        self.rec.count(f"spelled:operand-not-built:{route}:{type(e).__name__}")
                        continue
                    v, faulty = (None, False)
                    if takes:
                        if pk == "same-spelling":
                            v = unyt.Unit(sp.text).copy()
                        elif pk == "self":
                            v = U
                        else:
                            v, faulty = SPL.partner(unyt, r, np.zeros(2), sp, pk)
                    self._spelled_case(["spelled", "unit", name, sp.text, route, pk], "junk-operand" if faulty and pk != "other-dimension" else None,
                                       lambda: f0(unyt, U, v, sp), U, sp, "unit/" + route, pk, partner=v, manual_op=None if tapped else "Unit/" + name)

    # ------------------------------------------------------------------ read-only targets of every in-place call family
    def _ro_case(self, family, label, fn, target, layout, manual_op=None, inputs=()):
        obs = self.obs
        obs.ro_layout = layout
        try:
            man = obs.manual(manual_op, inputs=list(inputs), targets=[("self", target)]) if manual_op else None
            outcome = self.run(label, "read-only-target", fn, manual=man)
        finally:
            obs.ro_layout = None
        self.rec.count(f"rotarget:{family}:" + ("returned" if outcome == "returned" else "raised"))
        self.rec.count(f"rotarget:layout:{layout}")

    def g_rotarget(self, items):
        unyt, r, tier = self.unyt, self.r, self.tier
        dts = RO_DTYPES[tier]

        def draws(lays=RO_LAYOUTS):
            if tier == "thorough":
                return [(lay, dt) for lay in lays for dt in dts]
            # quick: every dtype family of the target (float / integer / 8-bit integer: three different code paths in the library) once,
            # exact dtype and layout drawn
            return [(r.choice(lays), r.choice([d for d in dts if np.dtype(d).kind in "fc"])),
                    (r.choice(lays), r.choice([d for d in dts if np.dtype(d).kind in "iu" and np.dtype(d).itemsize > 1])),
                    (r.choice(lays), r.choice([d for d in dts if np.dtype(d).kind in "iu" and np.dtype(d).itemsize == 1]))]

        for kind, name, form in items:
            if kind == "conv":
                src, targets = RO_CONV[name]
                for lay, dt in draws() + draws():
                    calls = [("convert_to_units", (t,)) for t in targets] + [("convert_to_units", (unyt.Unit(targets[0]),)), ("convert_to_base", ()), ("convert_to_cgs", ()),
                                                                            ("convert_to_mks", ()), ("convert_to_base", ("imperial",)), ("convert_to_base", ("cgs",))]
                    for meth, args in calls:
                        t, hold = mk_ro(unyt, r, src, dt, lay)
                        self._ro_case("convert", ["rotarget", meth, src, str(args[0]) if args else "", lay, dt], lambda: getattr(t, meth)(*args), t, lay)
            elif kind == "equiv":
                src, dst, eq = RO_EQUIV[name]
                for lay, dt in draws():
                    for meth, args, kw in (("convert_to_equivalent", (dst, eq), {}), ("convert_to_units", (dst, eq), {}), ("convert_to_units", (dst,), {"equivalence": eq}),
                                           ("convert_to_base", (), {"equivalence": eq}), ("convert_to_cgs", (), {"equivalence": eq})):
                        t, hold = mk_ro(unyt, r, src, dt, lay)
                        self._ro_case("convert-equivalence", ["rotarget", meth, src, dst, eq, lay, dt], lambda: getattr(t, meth)(*args, **kw), t, lay)
            elif kind == "uf2":
                uf = getattr(np, name)
                for lay, dt in draws():
                    aunit = r.choice(list(UNITS))
                    comm, mism = UNITS[aunit]
                    if uf.signature is not None:
                        lay = "ro-T"
                    bk = r.choice(["same", "commens", "bare-scalar", "bare-array", "dimless", "alias"])
                    label = ["rotarget", name, form, aunit, bk, lay, dt]
                    if form in ("iop", "out-in0", "at", "out-in1"):
                        t, hold = mk_ro(unyt, r, aunit, dt, lay)
                        b, _f = second(unyt, r, t, aunit, bk)
                        if form == "iop":
                            def f(t=t, b=b):
                                OPS[name][1](t, b)
                            self._ro_case("augmented-assignment", label, f, t, lay)
                        elif form == "out-in0":
                            self._ro_case("ufunc-out", label, lambda: uf(t, b, out=t if uf.nout == 1 else (t, None)), t, lay)
                        elif form == "out-in1":
                            a2 = like(unyt, r, t, aunit)
                            self._ro_case("ufunc-out", label, lambda: uf(a2, t, out=t), t, lay)
                        else:
                            if t.ndim:
                                self._ro_case("ufunc-at", label, lambda: uf.at(t, [0], b if np.ndim(b) == 0 else np.asarray(b).ravel()[0]), t, lay)
                    else:
                        a, ha = mk(unyt, r, aunit, "f8" if np.dtype(dt).kind in "iu" else dt, "T" if (uf.signature is not None or form in ("reduce-out", "accumulate-out") and r.random() < 0.5) else "own")
                        b, _f = second(unyt, r, a, aunit, bk)
                        if form == "out":
                            try:
                                shape = np.shape(uf(np.ones(np.shape(a)), np.ones(np.shape(b) if isinstance(b, np.ndarray) else ())))
                                shape = shape[0] if uf.nout > 1 and isinstance(shape, tuple) and shape and isinstance(shape[0], tuple) else shape
                            except Exception:
                                shape = np.shape(a)
                            if uf.nout > 1:
                                shape = np.shape(a)
                            t, hold = mk_ro(unyt, r, "kg", dt, lay if (lay not in ("ro-0d", "ro-T")) else "ro", shape=tuple(shape))
                            self._ro_case("ufunc-out", label, lambda: uf(a, b, out=t if uf.nout == 1 else (t, None)), t, lay)
                        elif form == "accumulate-out":
                            t, hold = mk_ro(unyt, r, "kg", dt, "ro" if lay in ("ro-0d", "ro-T") else lay, shape=a.shape)
                            self._ro_case("ufunc-method-out", label, lambda: uf.accumulate(a, out=t), t, lay)
                        elif form == "reduce-out":
                            if a.ndim == 2:
                                t, hold = mk_ro(unyt, r, "kg", dt, "ro" if lay in ("ro-0d", "ro-T") else lay, shape=(2,))
                                self._ro_case("ufunc-method-out", label, lambda: uf.reduce(a, axis=0, out=t), t, lay)
                            else:
                                t, hold = mk_ro(unyt, r, "kg", dt, "ro-0d")
                                self._ro_case("ufunc-method-out", label, lambda: uf.reduce(a, out=t), t, "ro-0d")
                        elif form == "outer-out":
                            if a.ndim == 1 and isinstance(b, np.ndarray) and b.ndim == 1:
                                t, hold = mk_ro(unyt, r, "kg", dt, "ro" if lay in ("ro-0d", "ro-T") else lay, shape=(a.size, b.size))
                                self._ro_case("ufunc-method-out", label, lambda: uf.outer(a, b, out=t), t, lay)
            elif kind == "uf1":
                uf = getattr(np, name)
                for lay, dt in draws():
                    aunit = r.choice(["km", "dimensionless", "rad", "degC", "K", "3*km"])
                    label = ["rotarget", name, form, aunit, lay, dt]
                    if form == "out-self":
                        t, hold = mk_ro(unyt, r, aunit, dt, lay)
                        self._ro_case("ufunc-out", label, lambda: uf(t, out=t if uf.nout == 1 else (t, None)), t, lay)
                    else:
                        a, ha = mk(unyt, r, aunit, "f8" if np.dtype(dt).kind in "iu" else dt, "own")
                        t, hold = mk_ro(unyt, r, "kg", dt, "ro" if lay in ("ro-0d", "ro-T") else lay, shape=a.shape)
                        self._ro_case("ufunc-out", label, lambda: uf(a, out=t if uf.nout == 1 else (t, None)), t, lay)
            elif kind == "fn":
                f0 = RO_FUNCS[name]
                for lay, dt in draws(["ro", "ro-view", "ro-bytes"]):
                    aunit = r.choice(["km", "degC", "K", "3*km", "dimensionless"])
                    need = RO_NEEDS.get(name)
                    e = {"a": mk(unyt, r, aunit, "f8", "own")[0], "A": mk(unyt, r, aunit, "f8", "2d")[0], "q": unyt.unyt_quantity(r.uniform(1, 9), r.choice([aunit, UNITS[aunit][0]]))}
                    shape = (2,) if need == "row" else (2, 2) if need == "2d" else (4,)
                    tunit = aunit if name in ("copyto", "copyto-bare", "put", "place", "putmask", "fill_diagonal", "method-fill", "method-sort", "nan_to_num-inplace") else "kg"
                    t, hold = mk_ro(unyt, r, tunit, dt, lay, shape=shape)
                    self._ro_case("function-out", ["rotarget", "function", name, aunit, lay, dt], lambda: f0(e, t), t, lay,
                                  manual_op=("method/" + name) if name in RO_MANUAL else None, inputs=[("a", e["a"]), ("q", e["q"])])
            elif kind == "setitem":
                for lay, dt in draws(["ro", "ro-view", "ro-T", "ro-bytes"]) + draws(["ro", "ro-view", "ro-T", "ro-bytes"]):
                    aunit = r.choice(["km", "K", "degC", "dimensionless", "J", "3*km"])
                    comm, mism = UNITS[aunit]
                    t, hold = mk_ro(unyt, r, aunit, dt, lay)
                    v = {"bare": 2.5, "same": unyt.unyt_quantity(3.0, aunit), "commens": unyt.unyt_quantity(3.0, comm), "mismatch": unyt.unyt_quantity(3.0, mism),
                         "array-commens": unyt.unyt_array([1.0, 2.0], comm), "list": [1.0, 2.0], "dimless": unyt.unyt_quantity(2.0, "dimensionless"), "junk": "abc"}[name]
                    for iname, ix in (("int", 0), ("slice", slice(0, 2)), ("all", Ellipsis), ("mask", np.array([True, True] + [False] * 2).reshape(t.shape) if t.ndim == 1 else Ellipsis)):
                        def f(t=t, ix=ix, v=v):
                            t[ix] = v
                        self._ro_case("item-assignment", ["rotarget", "setitem", name, iname, aunit, lay, dt], f, t, lay)

    # ------------------------------------------------------------------ data-dependent faults of every in-place call family
    def _dd_case(self, family, label, fn, target, dclass, pol, manual_op=None, inputs=(), twin=None, copying=False):
        """one call whose DATA are the swept dimension; target: the in-place target (copying=True: the input) declared to the observer"""
        obs = self.obs
        obs.datadep = (target, family, dclass, None, pol)
        obs.strict = pol == "strict"

        def body():
            with DD.policy(pol):
                fn()
        import signal
        try:
            man = None
            if manual_op:
                man = obs.manual(manual_op, inputs=list(inputs), targets=[] if copying else [("self", target)], twin=twin)
            # extreme magnitudes may keep the unit arithmetic busy for very long (a huge integer exponent applied to a unit): a per-case time
            # limit drops such a case instead of losing the whole batch to the watchdog
            signal.setitimer(signal.ITIMER_REAL, 60.0)
            try:
                outcome = self.run(label, "out-of-domain-data" if dclass != "ordinary" else None, body, manual=man)
            finally:
                signal.setitimer(signal.ITIMER_REAL, 0.0)
        except _CaseTimeout:
            obs.busy = False
            self.rec.count("datadep:case-time-limit")
            self.rec.note("datadep-case-dropped-at-time-limit:" + "/".join(str(x) for x in label[1:3]))
            return "time-limit"
        finally:
            obs.datadep = None
            obs.strict = False
        oc = "returned" if outcome == "returned" else "raised"
        self.rec.count(f"datadep:{family}:{oc}")
        self.rec.count(f"datadep:policy:{pol}:{oc}")
        self.rec.count(f"datadep:class:{dclass}")
        self.rec.count("datadep:calls")
        return outcome

    def g_datadep(self, items):
        import signal
        signal.signal(signal.SIGALRM, _on_alarm)
        unyt, r, tier = self.unyt, self.r, self.tier
        dts, lays = DD.DTYPES[tier], DD.LAYOUTS[tier]
        nrep = 1            # both tiers: one pass over item x data class; the thorough tier widens doors / forms, dtypes and layouts (about 2-3x quick)

        def sub(pool, k):
            """k of the pool (2k in the thorough tier), order drawn"""
            pool = list(pool)
            r.shuffle(pool)
            return pool[:2 * k] if tier == "thorough" else pool[:k]

        def target(unit, dclass, edges, dt=None, lay=None, shape=None):
            """-> (operand, holder, dtype, layout, placement) with data of the class, or None when the class cannot be written in the dtype"""
            dt = dt or r.choice(dts)
            if not DD.available(dclass, dt):
                dt = r.choice([d for d in dts if DD.available(dclass, d)])
            lay = lay or r.choice(lays)
            pl = r.choice(DD.PLACEMENTS)
            x, hold = DD.operand(unyt, lambda n: DD.values(r, n, dt, dclass, pl, edges), unit, dt, lay)
            return x, hold, dt, lay, pl

        def pols(family):
            return ["default"] * 1 + (["strict"] if family in DD.STRICT_FAMILIES else [])

        for kind, name, arg in items:
            for rep_ in range(nrep):
                for dclass in DD.DCLASSES:
                    if kind == "equiv":
                        eq = name
                        src, dst = arg
                        edges = DD.equiv_edges(eq, src)
                        kw = r.choice(DD.EQUIVS[eq][0])
                        for pol in pols("convert-equivalence"):
                            for door in sub(DD_EQUIV_DOORS, 3 if pol == "default" else 1):
                                t, hold, dt, lay, pl = target(src, dclass, edges)
                                call = {"convert_to_equivalent": lambda: t.convert_to_equivalent(dst, eq, **kw),
                                        "convert_to_units-positional": lambda: t.convert_to_units(dst, eq, **kw),
                                        "convert_to_units-keyword": lambda: t.convert_to_units(dst, equivalence=eq, **kw),
                                        "convert_to_base": lambda: t.convert_to_base(equivalence=eq, **kw),
                                        "convert_to_cgs": lambda: t.convert_to_cgs(equivalence=eq, **kw),
                                        "convert_to_mks": lambda: t.convert_to_mks(equivalence=eq, **kw)}[door]
                                self._dd_case("convert-equivalence", ["datadep", "equiv", eq, src, dst, door, dclass, pl, dt, lay, pol], call, t, dclass, pol)
                            # the copying doors on the same class of data: the input must stay as it was, whether they return or raise
                            for door in sub(DD_COPY_DOORS, 1):
                                t, hold, dt, lay, pl = target(src, dclass, edges)
                                call = (lambda: t.to_equivalent(dst, eq, **kw)) if door == "to_equivalent" else (lambda: getattr(t, door)(dst, eq, **kw))
                                self._dd_case("convert-equivalence", ["datadep", "equiv-copying", eq, src, dst, door, dclass, pl, dt, lay, pol], call, t, dclass, pol, copying=True)
                    elif kind == "conv":
                        src, targets = CONV_CASES[name]
                        edges = DD.conv_edges(src)
                        for pol in pols("convert"):
                            for door in sub(DD_CONV_DOORS, 3 if pol == "default" else 1):
                                t, hold, dt, lay, pl = target(src, dclass, edges)
                                tu = r.choice(targets)
                                call = {"convert_to_units": lambda: t.convert_to_units(tu), "convert_to_units-Unit": lambda: t.convert_to_units(unyt.Unit(tu)),
                                        "convert_to_base": lambda: t.convert_to_base(), "convert_to_cgs": lambda: t.convert_to_cgs(), "convert_to_mks": lambda: t.convert_to_mks(),
                                        "convert_to_base-system": lambda: t.convert_to_base(r.choice(["cgs", "imperial", "galactic", "mks"]))}[door]
                                self._dd_case("convert", ["datadep", "conv", src, tu, door, dclass, pl, dt, lay, pol], call, t, dclass, pol)
                            t, hold, dt, lay, pl = target(src, dclass, edges)
                            tu = r.choice(targets)
                            door = r.choice(["to", "in_units", "to_value", "in_base", "in_cgs"])
                            self._dd_case("convert", ["datadep", "conv-copying", src, tu, door, dclass, pl, dt, lay, pol],
                                          (lambda: getattr(t, door)(tu)) if door in ("to", "in_units", "to_value") else (lambda: getattr(t, door)()), t, dclass, pol, copying=True)
                    elif kind == "uf1":
                        uf = getattr(np, name)
                        for pol in pols("ufunc-out"):
                            for form in sub(DD_UF1_FORMS, 2 if pol == "default" else 1):
                                unit = r.choice(["dimensionless", "dimensionless", "km", "rad", "K"])
                                if form == "out-self":
                                    t, hold, dt, lay, pl = target(unit, dclass, DD.UFUNC_EDGES)
                                    self._dd_case("ufunc-out", ["datadep", name, form, unit, dclass, pl, dt, lay, pol], lambda: uf(t, out=t if uf.nout == 1 else (t, None)), t, dclass, pol)
                                else:
                                    a, ha, dt, lay, pl = target(unit, dclass, DD.UFUNC_EDGES)
                                    fdt = dt if np.dtype(dt).kind in "fc" else "f8"
                                    t, hold = out_buffer(unyt, r, form, a.shape, unyt.unyt_array(np.zeros(1, dtype=fdt), "kg"))
                                    self._dd_case("ufunc-out", ["datadep", name, form, unit, dclass, pl, dt, lay, pol], lambda: uf(a, out=t if uf.nout == 1 else (t, None)), t, dclass, pol)
                    elif kind == "uf2":
                        uf = getattr(np, name)
                        forms = [f for f in DD_UF2_FORMS if not (f == "iop" and (name not in OPS or OPS[name][1] is None))]
                        if uf.signature is not None:
                            # out= aliasing an input only where the result has the input's shape (matmul of square matrices)
                            forms = [f for f in forms if f in ("iop", "out-in0", "out-fresh")] if np.shape(uf(np.ones((2, 2)), np.ones((2, 2)))) == (2, 2) else ["out-fresh"]
                        if uf.nout != 1:
                            forms = [f for f in forms if f in ("out-in0", "out-fresh")]
                        for pol in pols("ufunc-out"):
                            for form in sub(forms, 3 if pol == "default" else 1):
                                # (strict policy: units without a numeric coefficient - the library's own rescaling of a finished result by the
                                # coefficient is one more step that can overflow, for every ufunc and function alike; seen and filed once for np.mean)
                                aunit = r.choice(["km", "dimensionless", "K", "km", "3*km"] if pol == "default" else ["km", "dimensionless", "K"])
                                comm = UNITS[aunit][0]
                                carrier = r.choice(["in0", "in1", "both"])
                                ca, cb = (dclass if carrier in ("in0", "both") else "ordinary"), (dclass if carrier in ("in1", "both") else "ordinary")
                                if name in ("power", "float_power") and cb not in ("ordinary", "zero", "negative", "mixed-sign", "at-edge", "just-above-edge", "just-below-edge"):
                                    # the exponent is applied to the unit as well: km ** 2**61 keeps the unit arithmetic busy for hours (not C18's subject)
                                    ca, cb, carrier = dclass, "ordinary", "in0"
                                lay = "T" if uf.signature is not None else None
                                if form in ("reduce-out", "accumulate-out-self") and r.random() < 0.5:
                                    lay = "T"
                                a, ha, dt, lay, pl = target(aunit, ca, DD.UFUNC_EDGES, lay=lay)
                                # (strict policy: no second operand in another scale of the same dimension either - km / m leaves a factor 1000 that the
                                # library applies to the finished result as one more in-place step; seen and filed once for np.divide)
                                bk = r.choice(["same", "commens", "bare-scalar", "dimless", "bare-array"] if pol == "default" else ["same", "bare-scalar", "dimless", "bare-array"])
                                bdt = r.choice([d for d in dts if DD.available(cb, d)])
                                bv = DD.values(r, max(1, a.size), bdt, cb, r.choice(DD.PLACEMENTS), DD.UFUNC_EDGES)
                                if bk == "bare-scalar" or a.ndim == 0:
                                    b = bv[0].item() if bk in ("bare-scalar", "bare-array") else unyt.unyt_quantity(bv[0], {"same": aunit, "commens": comm, "dimless": "dimensionless"}.get(bk, aunit))
                                elif bk == "bare-array":
                                    b = bv.reshape(a.shape)
                                else:
                                    b = unyt.unyt_array(bv.reshape(a.shape), {"same": aunit, "commens": comm, "dimless": "dimensionless"}[bk])
                                label = ["datadep", name, form, aunit, bk, carrier, dclass, pl, dt, lay, pol]
                                fdt = dt if np.dtype(dt).kind in "fc" else "f8"
                                like_a = unyt.unyt_array(np.zeros(1, dtype=fdt), "kg")
                                if form == "iop":
                                    def f(a=a, b=b):
                                        OPS[name][1](a, b)
                                    self._dd_case("augmented-assignment", label, f, a, dclass, pol)
                                elif form == "out-in0":
                                    self._dd_case("ufunc-out", label, lambda: uf(a, b, out=a if uf.nout == 1 else (a, None)), a, dclass, pol)
                                elif form == "out-in1":
                                    if isinstance(b, np.ndarray) and b.shape == a.shape and b.ndim:
                                        self._dd_case("ufunc-out", label, lambda: uf(a, b, out=b), b, dclass, pol)
                                elif form == "out-fresh":
                                    try:
                                        shape = np.shape(uf(np.ones(np.shape(a)), np.ones(np.shape(b))))
                                        if uf.nout > 1:
                                            shape = np.shape(a)
                                    except Exception:
                                        shape = np.shape(a)
                                    t, hold = out_buffer(unyt, r, r.choice(["out-fresh", "out-view"]), tuple(shape), like_a)
                                    self._dd_case("ufunc-out", label, lambda: uf(a, b, out=t if uf.nout == 1 else (t, None)), t, dclass, pol)
                                elif form == "at":
                                    if a.ndim == 1 and pol == "default":
                                        bs = b if np.ndim(b) == 0 else b[0]
                                        self._dd_case("ufunc-at", label, lambda: uf.at(a, [0, a.size - 1], bs), a, dclass, pol)
                                elif form == "reduce-out":
                                    if a.ndim == 2:
                                        t, hold = out_buffer(unyt, r, "out-fresh", (2,), like_a)
                                        self._dd_case("ufunc-method-out", label, lambda: uf.reduce(a, axis=0, out=t), t, dclass, pol)
                                    elif a.ndim == 1:
                                        t, hold = out_buffer(unyt, r, "out-fresh", (), like_a)
                                        self._dd_case("ufunc-method-out", label, lambda: uf.reduce(a, out=t), t, dclass, pol)
                                elif form == "accumulate-out-self":
                                    if a.ndim:
                                        self._dd_case("ufunc-method-out", label, lambda: uf.accumulate(a, out=a), a, dclass, pol)
                                elif form == "outer-out":
                                    if a.ndim == 1 and isinstance(b, np.ndarray) and b.ndim == 1:
                                        t, hold = out_buffer(unyt, r, "out-fresh", (a.size, b.size), like_a)
                                        self._dd_case("ufunc-method-out", label, lambda: uf.outer(a, b, out=t), t, dclass, pol)
                    elif kind == "fn":
                        f0 = RO_FUNCS[name]
                        need = RO_NEEDS.get(name)
                        inplace_data = name in ("method-sort", "nan_to_num-inplace")
                        for pol in pols("function-out") if name not in RO_MANUAL else ["default"]:
                            aunit = r.choice(["km", "K", "3*km", "dimensionless"] if pol == "default" else ["km", "K", "dimensionless"])
                            dt = r.choice([d for d in dts if DD.available(dclass, d)])
                            pl = r.choice(DD.PLACEMENTS)
                            e = {"a": unyt.unyt_array(DD.values(r, 4, dt, dclass, pl, DD.UFUNC_EDGES), aunit),
                                 "A": unyt.unyt_array(DD.values(r, 4, dt, dclass, pl, DD.UFUNC_EDGES).reshape(2, 2), aunit),
                                 "q": unyt.unyt_quantity(DD.values(r, 1, dt, dclass, "all", DD.UFUNC_EDGES)[0], r.choice([aunit, UNITS[aunit][0]]))}
                            shape = (2,) if need == "row" else (2, 2) if need == "2d" else (4,)
                            own_unit = name in ("copyto", "copyto-bare", "put", "place", "putmask", "fill_diagonal", "method-fill", "method-sort", "nan_to_num-inplace")
                            tdt = r.choice([d for d in dts if DD.available(dclass, d)]) if inplace_data else r.choice(["f8", "f8", "f4", "i8", "i4"])
                            tcls = dclass if (inplace_data or r.random() < 0.3) and DD.available(dclass, tdt) else "ordinary"
                            tv = DD.values(r, int(np.prod(shape)), tdt, tcls, r.choice(DD.PLACEMENTS), DD.UFUNC_EDGES).reshape(shape)
                            if r.random() < 0.5 and len(shape) == 1:
                                base = unyt.unyt_array(np.arange(1, 2 * shape[0] + 2).astype(tdt), aunit if own_unit else "kg")
                                t = base[1::2][:shape[0]]
                                t.d[...] = tv
                            else:
                                t = unyt.unyt_array(tv, aunit if own_unit else "kg")
                            self._dd_case("function-out", ["datadep", "function", name, aunit, dclass, tcls, pl, dt, tdt, pol], lambda: f0(e, t), t, dclass, pol,
                                          manual_op=("method/" + name) if name in RO_MANUAL else None, inputs=[("a", e["a"]), ("q", e["q"])])
                    elif kind == "setitem":
                        for pol in pols("item-assignment"):
                            for tdt in sub(["f8", "f4", "i8", "i4", "i1", "u1"], 2 if pol == "default" else 1):
                                aunit = r.choice(["km", "K", "degC", "dimensionless", "J", "3*km"] if pol == "default" else ["km", "K", "degC", "dimensionless", "J"])
                                comm = UNITS[aunit][0]
                                lay = r.choice(["own", "step", "col"])
                                t, hold = DD.operand(unyt, lambda n: DD.values(r, n, tdt, "ordinary", "all", [0.0]), aunit, tdt, lay)
                                vdt = r.choice([d for d in ("f8", "f8", "f4", "i8") if DD.available(dclass, d)])
                                vv = DD.values(r, 2, vdt, dclass, r.choice(["all", "first", "last"]), DD.conv_edges(aunit))
                                v = {"bare": vv[0].item(), "np-scalar": vv[0], "same": unyt.unyt_quantity(vv[0], aunit), "commens": unyt.unyt_quantity(vv[0], comm),
                                     "array-commens": unyt.unyt_array(vv, comm), "list": vv.tolist(), "dimless": unyt.unyt_quantity(vv[0], "dimensionless"), "bare-array": vv}[name]
                                iname, ix = r.choice([("int", 0), ("slice", slice(0, 2)), ("all", Ellipsis), ("mask", np.array([True, True, False, False])), ("fancy", [3, 1])])

                                def f(t=t, ix=ix, v=v):
                                    t[ix] = v
                                self._dd_case("item-assignment", ["datadep", "setitem", name, iname, aunit, dclass, vdt, tdt, lay, pol], f, t, dclass, pol)
                    elif kind == "method":
                        call = DD_METHODS[name]
                        data_in_target = name in ("sort", "partition", "round-out") or r.random() < 0.3
                        for tdt in sub(["f8", "f4", "i8", "i4", "i1"], 2):
                            aunit = r.choice(["km", "degC", "dimensionless", "3*km"])
                            comm = UNITS[aunit][0]
                            lay = r.choice(["own", "step", "col", "T"])
                            tcls = dclass if data_in_target and DD.available(dclass, tdt) else "ordinary"
                            pl = r.choice(DD.PLACEMENTS)
                            t, hold = DD.operand(unyt, lambda n: DD.values(r, n, tdt, tcls, pl, DD.UFUNC_EDGES), aunit, tdt, lay)
                            vdt = r.choice([d for d in ("f8", "f4", "i8") if DD.available(dclass, d)])
                            v0 = DD.values(r, 1, vdt, dclass, "all", DD.UFUNC_EDGES)[0]
                            v = r.choice([v0.item(), unyt.unyt_quantity(v0, comm), unyt.unyt_quantity(v0, aunit)])
                            self._dd_case("method-in-place", ["datadep", "ndarray." + name, aunit, dclass, tcls, pl, vdt, tdt, lay], lambda: call(t, v), t, dclass, "default",
                                          manual_op="ndarray." + name, inputs=[("value", v)])

    # ------------------------------------------------------------------ unary ufuncs
    def g_unary(self, items):
        unyt, r = self.unyt, self.r
        i = 0
        for uf_name, form, aunit in items:
            uf = getattr(np, uf_name)
            for aunit, dt, kind in self.plan([aunit]):
                i += 1
                a, hold = mk(unyt, r, aunit, dt, kind)
                fault = "offset-unit" if aunit == "degC" else None
                label = [uf_name, form, aunit, kind, dt]
                shape = a.shape
                if form == "call":
                    self.run(label, fault, lambda: uf(a))
                elif form == "bare-in-unyt-out":
                    ab = np.array(a.d)
                    o, ohold = out_buffer(unyt, r, r.choice(["out-fresh", "out-int", "out-view"]), shape, a)
                    self.run(label, None, lambda: uf(ab, out=o if uf.nout == 1 else (o, None)))
                elif form == "method":
                    self.run(label, fault, lambda: UOPS[uf_name](a))
                elif form == "out-self":
                    self.run(label, fault or ("int8-buffer" if np.dtype(dt).itemsize == 1 else None), lambda: uf(a, out=a))
                else:
                    o, ohold = out_buffer(unyt, r, form, shape, a)
                    f2 = fault or {"out-int": "int-out-buffer", "out-i1": "int8-buffer"}.get(form)
                    if uf.nout == 2:
                        o2, oh2 = out_buffer(unyt, r, "out-fresh", shape, a)
                        self.run(label, f2, lambda: uf(a, out=(o, o2)))
                        self.run(label, f2, lambda: uf(a, out=(o, None)))
                    elif form == "out-where":
                        m = np.array([bool(r.getrandbits(1)) for _ in range(max(1, a.size))])[:max(a.size, 1)]
                        m = m[:a.size].reshape(shape) if a.size else np.zeros(shape, dtype=bool)
                        self.run(label, f2, lambda: uf(a, out=o, where=m))
                    else:
                        self.run(label, f2, lambda: uf(a, out=o))

    # ------------------------------------------------------------------ ufunc methods
    def g_ufmeth(self, items):
        unyt, r = self.unyt, self.r
        i = 0
        for uf_name in items:
            uf = getattr(np, uf_name)
            if uf.nout != 1 or uf.signature is not None:
                continue
            for aunit in ("km", "dimensionless", "degC", "K"):
                for d in range(self.draws):
                    i += 1
                    _, dt = self.pick(i)
                    fault = "offset-unit" if aunit == "degC" else None
                    lab = [uf_name, aunit, dt]
                    a1, _h1 = mk(unyt, r, aunit, dt, r.choice(["own", "step", "col"]))
                    a2, _h2 = mk(unyt, r, aunit, dt, r.choice(["2d", "T"]))
                    comm, mism = UNITS[aunit]
                    for a in (a1, a2):
                        self.run(lab + ["reduce"], fault, lambda: uf.reduce(a))
                        self.run(lab + ["reduce-axis"], fault, lambda: uf.reduce(a, axis=-1))
                        self.run(lab + ["accumulate"], fault, lambda: uf.accumulate(a))
                        self.run(lab + ["outer"], fault, lambda: uf.outer(a, a))
                        self.run(lab + ["reduceat"], fault, lambda: uf.reduceat(a, [0, 1]))
                        o = unyt.unyt_array(np.zeros(a.shape[:-1]), "kg")
                        self.run(lab + ["reduce-out"], fault, lambda: uf.reduce(a, axis=-1, out=o))
                        oi = unyt.unyt_array(np.arange(3, 3 + int(np.prod(a.shape[:-1]))).reshape(a.shape[:-1]), "kg")
                        self.run(lab + ["reduce-out-int"], fault or "int-out-buffer", lambda: uf.reduce(a, axis=-1, out=oi))
                        o = unyt.unyt_array(np.zeros(a.shape), "kg")
                        self.run(lab + ["accumulate-out"], fault, lambda: uf.accumulate(a, out=o))
                        self.run(lab + ["accumulate-out-self"], fault or ("int8-buffer" if np.dtype(dt).itemsize == 1 else None), lambda: uf.accumulate(a, out=a))
                        o = unyt.unyt_array(np.zeros(a.shape + a.shape), "kg")
                        self.run(lab + ["outer-out"], fault, lambda: uf.outer(a, a, out=o))
                    for bk, unit_b, f2 in (("same", aunit, None), ("commens", comm, None), ("mismatch", mism, "dimension-mismatch"), ("bare", None, None)):
                        a, _h = mk(unyt, r, aunit, dt, r.choice(["own", "step", "col"]))
                        b = unyt.unyt_quantity(r.uniform(1, 5), unit_b) if unit_b else r.uniform(1, 5)
                        bb = unyt.unyt_array([r.uniform(1, 5), r.uniform(1, 5)], unit_b) if unit_b else [1.5, 2.5]
                        self.run(lab + ["at", bk], fault or f2, lambda: uf.at(a, [0, 2], b))
                        self.run(lab + ["at-array", bk], fault or f2, lambda: uf.at(a, [1, 1], bb))
                        self.run(lab + ["outer", bk], fault or f2, lambda: uf.outer(a, bb))

    # ------------------------------------------------------------------ conversion methods
    def g_conv(self, items):
        unyt, r = self.unyt, self.r
        i = 0
        systems = ["mks", "cgs", "imperial", "galactic", "solar", "geometrized", "planck"]
        import copy as _copy
        for src, targets in items:
            dim_other = "s" if src != "s" else "km"
            for d in range(self.draws * 3):
                for kind, dt in [self.pick(i + j) for j in range(3)]:
                    i += 1

                    def new():
                        return mk(unyt, r, src, dt, kind)
                    lab = [src, kind, dt]
                    i8 = np.dtype(dt).kind in "iu" and np.dtype(dt).itemsize == 1
                    ip_fault = "int8-buffer" if i8 else None
                    arg_cases = [(t, None) for t in targets] + [(src, None), ("flurbs", "unknown-unit"), ("km**", "unknown-unit"), (dim_other, "dimension-mismatch"),
                                                                (None, "junk-operand"), (3.5, "junk-operand")]
                    for t, fault in arg_cases:
                        forms = [t]
                        if isinstance(t, str) and fault != "unknown-unit":
                            try:
                                forms.append(unyt.Unit(t))
                                forms.append(unyt.unyt_quantity(2.0, t))
                            except Exception:
                                pass
                        for tf in forms:
                            for meth in ("to", "in_units", "to_value"):
                                a, hd = new()
                                self.run(lab + [meth, str(t)], fault, lambda: getattr(a, meth)(tf))
                            a, hd = new()
                            self.run(lab + ["convert_to_units", str(t)], fault or ip_fault, lambda: a.convert_to_units(tf))
                    for meth, args in [("in_base", ()), ("in_cgs", ()), ("in_mks", ()), ("copy", ()), ("to_value", ()), ("to_ndarray", ()), ("copy", ("F",))] + \
                                      [("in_base", (s,)) for s in systems] + [("in_base", ("bogus",))]:
                        a, hd = new()
                        fault = "irreducible-unit" if (src in ("A*m", "T*s", "A", "T", "C", "V") and (meth == "in_cgs" or args in (("cgs",), ("galactic",), ("solar",), ("imperial",)))) else None
                        if args == ("bogus",):
                            fault = "junk-operand"
                        self.run(lab + [meth] + list(args), fault, lambda: getattr(a, meth)(*args))
                    for meth, args in [("convert_to_base", ()), ("convert_to_cgs", ()), ("convert_to_mks", ())] + [("convert_to_base", (s,)) for s in systems] + \
                                      [("convert_to_base", ("bogus",))]:
                        a, hd = new()
                        fault = "irreducible-unit" if (src in ("A*m", "T*s", "A", "T", "C", "V") and (meth == "convert_to_cgs" or args in (("cgs",), ("galactic",), ("solar",), ("imperial",)))) else ip_fault
                        if args == ("bogus",):
                            fault = "junk-operand"
                        self.run(lab + [meth] + list(args), fault, lambda: getattr(a, meth)(*args))
                    a, hd = new()
                    self.run(lab + ["np.copy"], None, lambda: np.copy(a, subok=True))
                    self.run(lab + ["copy.copy"], None, lambda: _copy.copy(a))
                    self.run(lab + ["copy.deepcopy"], None, lambda: _copy.deepcopy(a))
                    for prop in ("value", "v", "unit_quantity", "uq", "unit_array", "ua"):
                        self.run(lab + [prop], None, lambda: getattr(a, prop), manual=self.obs.manual("property/" + prop, inputs=[("self", a)]))
                    for fn in ("__pos__", "__neg__", "__abs__", "__float__", "__round__", "__str__", "__repr__", "to_string", "tolist", "__reduce__"):
                        self.run(lab + [fn], None, lambda: getattr(a, fn)(), manual=self.obs.manual("method/" + fn, inputs=[("self", a)]))
                    # equivalence argument faults on plain conversions
                    for eq, fault in (("nope", "invalid-equivalence"), ("schwarzschild" if src not in ("km", "g", "Mpc", "3*km") else "thermal", "equivalence-not-covering")):
                        for meth in ("to", "in_units", "to_value", "convert_to_units", "to_equivalent", "convert_to_equivalent"):
                            a, hd = new()
                            self.run(lab + [meth, eq], fault, lambda: getattr(a, meth)(dim_other, eq))
                        for meth in ("convert_to_base", "convert_to_cgs", "convert_to_mks"):
                            a, hd = new()
                            self.run(lab + [meth, eq], fault, lambda: getattr(a, meth)(equivalence=eq))

    # ------------------------------------------------------------------ equivalence conversions
    def g_equiv(self, items):
        unyt, r = self.unyt, self.r
        i = 0
        for src, dst, eq, kw in items:
            for d in range(self.draws * 3):
                for kind, dt in [self.pick(i + j) for j in range(3)]:
                    i += 1
                    lab = [src, dst, eq, kind, dt]
                    i8 = np.dtype(dt).kind in "iu" and np.dtype(dt).itemsize == 1
                    base_fault = "offset-unit" if src in ("degC", "degF") else None

                    def new():
                        return mk(unyt, r, src, dt, kind)
                    for kwargs, f2 in ((kw, None), (dict(kw, bogus=1), "junk-operand")):
                        for meth in ("to", "in_units", "to_value"):
                            a, hd = new()
                            self.run(lab + [meth], base_fault or f2, lambda: getattr(a, meth)(dst, eq, **kwargs))
                            a, hd = new()
                            self.run(lab + [meth, "kw"], base_fault or f2, lambda: getattr(a, meth)(dst, equivalence=eq, **kwargs))
                        a, hd = new()
                        self.run(lab + ["to_equivalent"], base_fault or f2, lambda: a.to_equivalent(dst, eq, **kwargs))
                        a, hd = new()
                        self.run(lab + ["to_equivalent", "Unit"], base_fault or f2, lambda: a.to_equivalent(unyt.Unit(dst), eq, **kwargs))
                        a, hd = new()
                        self.run(lab + ["convert_to_equivalent"], base_fault or f2 or ("int8-buffer" if i8 else None), lambda: a.convert_to_equivalent(dst, eq, **kwargs))
                        a, hd = new()
                        self.run(lab + ["convert_to_units"], base_fault or f2 or ("int8-buffer" if i8 else None), lambda: a.convert_to_units(dst, eq, **kwargs))
                        a, hd = new()
                        self.run(lab + ["convert_to_units", "kw"], base_fault or f2 or ("int8-buffer" if i8 else None), lambda: a.convert_to_units(dst, equivalence=eq, **kwargs))
                    for meth in ("convert_to_mks", "convert_to_cgs", "convert_to_base"):
                        a, hd = new()
                        self.run(lab + [meth], base_fault or ("int8-buffer" if i8 else None), lambda: getattr(a, meth)(equivalence=eq, **kw))
                    # wrong target for this equivalence, unknown equivalence, unknown unit
                    for tgt, eqn, fault in (("A", eq, "equivalence-not-covering"), (dst, "nope", "invalid-equivalence"), ("flurbs", eq, "unknown-unit"),
                                            (dst, "compton" if eq != "compton" else "thermal", "equivalence-not-covering")):
                        for meth in ("to", "to_equivalent", "convert_to_equivalent", "convert_to_units"):
                            a, hd = new()
                            self.run(lab + [meth, tgt, eqn], fault, lambda: getattr(a, meth)(tgt, eqn))
                    a, hd = new()
                    self.run(lab + ["has_equivalent"], None, lambda: a.has_equivalent(eq), manual=self.obs.manual("method/has_equivalent", inputs=[("self", a)]))

    # ------------------------------------------------------------------ item assignment
    def g_setitem(self, items):
        unyt, r = self.unyt, self.r
        idx1 = {"int": 1, "neg": -1, "slice": slice(1, 3), "step": slice(None, None, 2), "all": slice(None), "ellipsis": Ellipsis,
                "mask": np.array([True, False, True, False]), "fancy": [0, 2], "fancy-dup": [1, 1], "oob": 7, "empty-slice": slice(2, 2)}
        idx2 = {"int": 1, "tuple": (0, 1), "row": (1, slice(None)), "col": (slice(None), 0), "mask": np.array([[True, False], [False, True]]),
                "ellipsis": Ellipsis, "fancy": ([0, 1], [1, 0])}
        vkinds = ["bare", "bare-int", "same", "alias", "commens", "mismatch", "list", "array-same", "array-commens", "array-mismatch", "array-wrong-shape",
                  "dimless", "junk", "alias", "offset", "nan", "complex", "qlist-mismatch"]
        i = 0
        for d in range(self.draws * 2):
            for aunit in ("km", "K", "degC", "dimensionless", "J", "3*km"):
                comm, mism = UNITS[aunit]
                for vk in vkinds:
                    for dim, table in ((1, idx1), (2, idx2)):
                        for iname, ix in table.items():
                            i += 1
                            _, dt = self.pick(i)
                            if dim == 1:
                                kind = r.choice(["own", "step", "rev", "col"])
                            else:
                                kind = r.choice(["T", "2d"])
                            a, hd = mk(unyt, r, aunit, dt, kind)
                            fault = None
                            try:
                                sel = np.empty(a.shape)[ix]
                                n = sel.size if isinstance(sel, np.ndarray) else 1
                                vshape = sel.shape if isinstance(sel, np.ndarray) else ()
                                if n == 0:
                                    n, vshape = 1, ()
                            except Exception:
                                n, vshape = 1, ()
                            if vk == "bare":
                                v = r.uniform(1, 9)
                            elif vk == "bare-int":
                                v = r.randint(1, 9)
                            elif vk == "same":
                                v = unyt.unyt_quantity(r.uniform(1, 9), aunit)
                            elif vk == "alias":
                                v = unyt.unyt_quantity(r.uniform(1, 9), ALIAS[aunit])
                            elif vk == "commens":
                                v = unyt.unyt_quantity(r.uniform(1, 9), comm)
                            elif vk == "mismatch":
                                v = unyt.unyt_quantity(r.uniform(1, 9), mism); fault = "dimension-mismatch"
                            elif vk == "list":
                                v = [r.uniform(1, 9) for _ in range(n)] if vshape else r.uniform(1, 9)
                                if vshape and len(vshape) > 1:
                                    v = np.array(v).reshape(vshape).tolist()
                            elif vk == "array-same":
                                v = unyt.unyt_array(_vals(r, n, "f8").reshape(vshape), aunit) if vshape else unyt.unyt_array(_vals(r, 1, "f8"), aunit)
                            elif vk == "array-commens":
                                v = unyt.unyt_array(_vals(r, n, "f8").reshape(vshape), comm) if vshape else unyt.unyt_array(_vals(r, 1, "f8"), comm)
                            elif vk == "array-mismatch":
                                v = unyt.unyt_array(_vals(r, n, "f8").reshape(vshape), mism) if vshape else unyt.unyt_array(_vals(r, 1, "f8"), mism)
                                fault = "dimension-mismatch"
                            elif vk == "array-wrong-shape":
                                v = unyt.unyt_array(_vals(r, 7, "f8"), comm); fault = "junk-operand"
                            elif vk == "dimless":
                                v = unyt.unyt_quantity(r.uniform(1, 9), "dimensionless")
                            elif vk == "junk":
                                v = "abc"; fault = "junk-operand"
                            elif vk == "alias":
                                try:
                                    v = a[::-1][ix] if dim == 1 else a.T[ix]
                                except Exception:
                                    v = a
                            elif vk == "offset":
                                v = unyt.unyt_quantity(r.uniform(1, 9), "degF" if aunit in ("K", "degC") else "degC")
                                fault = None if aunit in ("K", "degC") else "dimension-mismatch"
                            elif vk == "nan":
                                v = unyt.unyt_quantity(float("nan"), comm)
                            elif vk == "complex":
                                v = unyt.unyt_quantity(1 + 2j, comm); fault = "junk-operand" if np.dtype(dt).kind != "c" else None
                            else:
                                v = [unyt.unyt_quantity(1.0, aunit), unyt.unyt_quantity(2.0, mism)]; fault = "list-mismatch"
                            if iname == "oob":
                                fault = fault or "junk-operand"

                            def f(a=a, ix=ix, v=v):
                                a[ix] = v
                            self.run(["setitem", aunit, vk, iname, kind, dt], fault, f)
        # untapped in-place methods: declared manually (no copying twin: only 'changes only its target' / 'intact on failure')
        for d in range(self.draws * 4):
            for aunit in ("km", "degC"):
                comm, mism = UNITS[aunit]
                for vname, v, fault in (("bare", 2.5, None), ("commens", unyt.unyt_quantity(3.0, comm), None), ("mismatch", unyt.unyt_quantity(3.0, mism), "dimension-mismatch"),
                                        ("junk", "abc", "junk-operand")):
                    for kind in ("own", "step", "T", "col"):
                        _, dt = self.pick(d)
                        for mname, call in (("fill", lambda a, v: a.fill(v)), ("put", lambda a, v: a.put([0, 1], v)), ("sort", lambda a, v: a.sort()),
                                            ("partition", lambda a, v: a.partition(0)), ("itemset-like", lambda a, v: a.__setitem__(0, v)),
                                            ("byteswap", lambda a, v: a.byteswap(True)), ("clip-out", lambda a, v: a.clip(v, None, out=a)),
                                            ("round-out", lambda a, v: a.round(1, out=a))):
                            a, hd = mk(unyt, r, aunit, dt, kind)
                            self.run(["ndarray." + mname, aunit, vname, kind, dt], fault, lambda: call(a, v), manual=self.obs.manual("ndarray." + mname, inputs=[("value", v)], targets=[("self", a)]))

    # ------------------------------------------------------------------ Unit arithmetic
    def g_unitop(self, items):
        unyt, r = self.unyt, self.r
        U = unyt.Unit
        names = ["m", "km", "g", "s", "K", "degC", "degF", "rad", "degree", "dimensionless", "kg*m/s**2", "J/s", "3*km", "A", "statA", "G", "T",
                 "dB", "Np", "Msun/pc**3", "sqrt(g)", "erg**(2/3)", "lat", "mK", "delta_degC", "1/s", "code_length" if False else "ly", "A*m", "percent"]

        def fresh(n):
            u = U(n)
            return u
        simp = (U("m") ** 2 / U("cm")).simplify()
        pool = {n: fresh(n) for n in names}
        pool["simplified:100*m"] = simp
        pool["simplified:cm*m"] = (U("cm") * U("km") / U("m")).simplify()
        # custom registry unit
        try:
            reg = unyt.UnitRegistry()
            reg.add("code_length", 3.0, unyt.dimensions.length)
            pool["code_length"] = U("code_length", registry=reg)
        except Exception:
            pass
        for d in range(self.draws):
            for n1, u in pool.items():
                lab = ["unit", n1]
                # arrays that carry this very Unit object ride along as witnesses
                arr = unyt.unyt_array(np.array([1.0, 2.0, 3.0]), "m"); arr.units = u
                for n2, v in pool.items():
                    self.run(lab + ["mul", n2], None, lambda: u * v)
                    self.run(lab + ["div", n2], None, lambda: u / v)
                    self.run(lab + ["eq", n2], None, lambda: (u == v, u != v, hash(u)), manual=self.obs.manual("Unit.__eq__", inputs=[("self", u), ("arg0", v)]))
                    self.run(lab + ["get_conversion_factor", n2], None, lambda: u.get_conversion_factor(v))
                    self.run(lab + ["same_dimensions_as", n2], None, lambda: u.same_dimensions_as(v), manual=self.obs.manual("Unit.same_dimensions_as", inputs=[("self", u), ("arg0", v)]))
                for p in (2, -1, 0.5, 0, 1, 1.5, "x", None, 2.0000000001, unyt.unyt_quantity(2.0, "s")):
                    self.run(lab + ["pow", str(p)], "junk-operand" if isinstance(p, (str, type(None))) else None, lambda: u ** p)
                for x in (3.0, 2, [1.0, 2.0], (1, 2), np.array([1.0, 2.0]), np.array([1, 2], dtype="i1")[::-1], unyt.unyt_quantity(2.0, "s"),
                          unyt.unyt_array([1.0, 2.0], "km")[::-1], "abc", None, np.array(["a"]), True):
                    f = "junk-operand" if isinstance(x, (str, type(None))) or (isinstance(x, np.ndarray) and x.dtype.kind == "U") else None
                    self.run(lab + ["mul-data", type(x).__name__], f, lambda: u * x)
                    self.run(lab + ["rmul-data", type(x).__name__], f, lambda: x * u)
                    self.run(lab + ["div-data", type(x).__name__], f, lambda: u / x)
                    self.run(lab + ["rdiv-data", type(x).__name__], f, lambda: x / u)
                    for opn, op in (("add", operator.add), ("sub", operator.sub), ("iadd", operator.iadd), ("imul", operator.imul)):
                        self.run(lab + [opn, type(x).__name__], "junk-operand", lambda: op(u, x), manual=self.obs.manual("Unit.__" + opn + "__", inputs=[("self", u), ("arg0", x)]))
                for s in ("mks", "cgs", "imperial", "galactic", "solar", "geometrized", "planck", None, "bogus", unyt.unit_systems.mks_unit_system):
                    self.run(lab + ["get_base_equivalent", str(s)], "junk-operand" if s == "bogus" else None, lambda: u.get_base_equivalent(s))
                for m in ("get_cgs_equivalent", "get_mks_equivalent", "as_coeff_unit", "copy", "latex_representation", "__str__", "__repr__", "__hash__",
                          "__reduce__", "__invert__" if False else "__deepcopy__"):
                    if m in ("get_cgs_equivalent", "get_mks_equivalent", "as_coeff_unit", "copy"):
                        self.run(lab + [m], None, lambda: getattr(u, m)())
                    else:
                        self.run(lab + [m], None, lambda: getattr(u, m)() if m != "__deepcopy__" else u.__deepcopy__({}), manual=self.obs.manual("Unit." + m, inputs=[("self", u)]))
                self.run(lab + ["copy-deep"], None, lambda: u.copy(deep=True))
                for fn in (np.sqrt, np.square if False else None):
                    if fn is not None:
                        self.run(lab + ["sqrt"], None, lambda: fn(u), manual=self.obs.manual("np.sqrt(Unit)", inputs=[("self", u)]))
                for attr in ("is_dimensionless", "is_code_unit", "is_atomic", "is_positive", "units", "latex_repr", "base_value", "base_offset", "dimensions", "expr"):
                    self.run(lab + [attr], None, lambda: getattr(u, attr), manual=self.obs.manual("Unit.attr/" + attr, inputs=[("self", u)]))
                self.run(lab + ["has_equivalent"], None, lambda: u.has_equivalent("thermal"), manual=self.obs.manual("Unit.has_equivalent", inputs=[("self", u)]))
                # quantities created from the unit, and the carrier array, used afterwards
                self.run(lab + ["carrier-to"], None, lambda: arr.in_base("mks"))
                self.run(lab + ["carrier-mul"], None, lambda: arr * arr)
                # simplify is outside the statement: noted by the observer
                u2 = U(n1) if not n1.startswith(("simplified", "code")) else u.copy()
                self.run(lab + ["simplify"], None, lambda: u2.simplify())
                self.run(lab + ["as_coeff_unit-after-simplify"], None, lambda: u2.as_coeff_unit())

    # ------------------------------------------------------------------ array functions
    def g_func(self, items):
        unyt, r = self.unyt, self.r
        i = 0
        for name in items:
            tmpl = FUNCS[name]
            for aunit in ("km", "degC", "dimensionless", "3*km"):
                comm, mism = UNITS[aunit]
                for variant, bunit, fault in (("same", aunit, None), ("alias", ALIAS[aunit], None), ("commens", comm, None), ("mismatch", mism, "dimension-mismatch"),
                                              ("bare", None, None)):
                    for d in range(self.draws * 2):
                        i += 1
                        kind1, dt = self.pick(i)
                        kind1 = r.choice([k for k in self.kinds if k in ("own", "step", "rev", "col")])
                        kind2 = r.choice([k for k in self.kinds if k in ("T", "2d")])
                        env = Env(unyt, r, aunit, bunit, dt, kind1, kind2)
                        f2 = fault
                        if aunit == "degC" and fault is None and variant == "commens":
                            f2 = "offset-unit"
                        for form, fn in tmpl.items():
                            if form.startswith("out-int"):
                                f3 = f2 or "int-out-buffer"
                            elif form.startswith("out-i1"):
                                f3 = f2 or "int8-buffer"
                            else:
                                f3 = f2
                            if form.startswith("manual"):
                                tg = [("self", env.a)] if "inplace" in form else []
                                self.run([name, form, aunit, variant, kind1, dt], f3, lambda: fn(env), manual=self.obs.manual("method/" + name, inputs=[("self", env.a), ("arg0", env.b)] if not tg else [("arg0", env.b)], targets=tg))
                            else:
                                self.run([name, form, aunit, variant, kind1, dt], f3, lambda: fn(env))
                            env.refresh()

    # ------------------------------------------------------------------ shared NumPy call-template catalogue (thorough)
    def g_npcat(self, items):
        unyt, r = self.unyt, self.r
        from vf.gen import npcatalog as nc
        by = nc.by_tid()
        assigns = ({"A": "km", "B": "s", "1": ""}, {"A": "degC", "B": "km", "1": ""}, {"A": "3*km", "B": "g", "1": ""})
        for tid in items:
            t = by.get(tid)
            if t is None or "file" in t.tags or "opaque" in t.tags:
                continue
            for shape in t.shapes:
                for ai, assign in enumerate(assigns):
                    dt = r.choice(nc.DTYPES_THOROUGH)
                    try:
                        call = t.build(nc.Gen(r, dt, shape, r.choice(["int", "gen"])))
                        args, kwargs, leaves = call.realize(nc.unit_wrapper(unyt, assign), layout=r.choice(nc.LAYOUTS))
                    except nc.Skip:
                        continue
                    except Exception:
                        self.rec.count("npcat:build-error")
                        continue
                    label = ["npcat", tid, shape, dt, assign["A"]]
                    fault = "offset-unit" if assign["A"] == "degC" else None
                    man = None
                    asks_inplace = t.func_name.split(".")[-1] in ("median", "nanmedian", "percentile", "nanpercentile", "quantile", "nanquantile", "nan_to_num") or \
                        kwargs.get("overwrite_input") is True or kwargs.get("copy") is False or kwargs.get("inplace") is True or \
                        (t.func_name == "ndarray.byteswap" and (True in args[1:] or kwargs.get("inplace")))
                    if "out" not in t.tags and "mutator" not in t.tags and not asks_inplace:
                        man = self.obs.manual("npcat/" + t.func_name, inputs=[(p_, o) for p_, q, o in leaves])
                    elif "mutator" in t.tags and t.kind == "method" and args and isinstance(args[0], np.ndarray):
                        man = self.obs.manual("npcat/" + t.func_name, inputs=[(p_, o) for p_, q, o in leaves if o is not args[0]], targets=[("self", args[0])])
                    self.rec.reach("npcat:" + t.func_name)
                    self.run(label, fault, lambda: t.invoke(args, kwargs), manual=man)

    # ------------------------------------------------------------------ methods without a tap and unyt's own helpers
    def g_methods(self, items):
        unyt, r = self.unyt, self.r
        import pickle
        i = 0
        for d in range(self.draws * 3):
            for aunit in UNITS:
                comm, mism = UNITS[aunit]
                for variant, bunit, fault in (("same", aunit, None), ("alias", ALIAS[aunit], None), ("commens", comm, None), ("mismatch", mism, "dimension-mismatch")):
                    i += 1
                    kind1, dt = self.pick(i)
                    kind1 = r.choice(["own", "step", "rev", "col"])
                    a, ha = mk(unyt, r, aunit, dt, kind1)
                    b = like(unyt, r, a, bunit)
                    A, hA = mk(unyt, r, aunit, dt, r.choice(["T", "2d"]))
                    B = like(unyt, r, A, bunit)
                    if aunit == "degC" and fault is None and variant == "commens":
                        fault = "offset-unit"
                    lab = [aunit, variant, kind1, dt]
                    calls = {
                        "uconcatenate": lambda: unyt.uconcatenate([a, b]), "ucross": lambda: unyt.ucross(unyt.unyt_array(np.r_[a.d[:3]], aunit), unyt.unyt_array(np.r_[b.d[:3]], bunit)),
                        "uintersect1d": lambda: unyt.uintersect1d(a, b), "uunion1d": lambda: unyt.uunion1d(a, b), "unorm": lambda: unyt.unorm(a),
                        "udot": lambda: unyt.udot(a, b), "uvstack": lambda: unyt.uvstack([a, b]), "uhstack": lambda: unyt.uhstack([a, b]),
                        "ustack": lambda: unyt.ustack([a, b]), "allclose_units": lambda: unyt.array.allclose_units(a, b),
                        "dot-method": lambda: a.dot(b), "dot-method-2d": lambda: A.dot(B), "pickle": lambda: pickle.loads(pickle.dumps(a)),
                        "argsort": lambda: a.argsort(), "iter": lambda: list(iter(a)), "reshape": lambda: A.reshape(4), "ravel": lambda: A.ravel(),
                        "flatten": lambda: A.flatten(), "astype": lambda: a.astype("f4"), "sum": lambda: A.sum(axis=0), "mean": lambda: a.mean(),
                        "std": lambda: a.std(), "min": lambda: a.min(), "max": lambda: A.max(axis=1), "cumsum": lambda: a.cumsum(), "prod": lambda: a.prod(),
                        "pow0": lambda: a ** 0, "pow0.0": lambda: a ** 0.0, "take-method": lambda: a.take([0, 1]), "clip-method": lambda: a.clip(b.min(), b.max()),
                        "round-method": lambda: a.round(1), "squeeze": lambda: a.squeeze(), "transpose": lambda: A.transpose(), "diagonal": lambda: A.diagonal(),
                        "trace": lambda: A.trace(), "nonzero": lambda: a.nonzero(), "searchsorted": lambda: a.searchsorted(b), "repeat": lambda: a.repeat(2),
                        "from_string": lambda: unyt.unyt_array.from_string(a.to_string() if a.ndim == 0 else "1.5 " + str(a.units)),
                        "format": lambda: format(a), "bool": lambda: bool(a.any()), "compare-method": lambda: (a < b, a == b, a != b),
                        "unary-minus": lambda: -a, "abs-builtin": lambda: abs(a), "divmod-builtin": lambda: divmod(a, b), "rdivmod-bare": lambda: divmod(2.0, a),
                    }
                    for cname, fn in calls.items():
                        self.run(["helper", cname] + lab, fault, fn, manual=self.obs.manual("helper/" + cname, inputs=[("a", a), ("b", b), ("A", A), ("B", B)]))
                    # in-place method forms with out=
                    for cname, fn, twin, shape in (
                            ("dot-out", lambda o: A.dot(B, out=o), lambda ca, cb, cA, cB: cA.dot(cB), (2, 2)),
                            ("take-out", lambda o: a.take([0, 1], out=o), lambda ca, cb, cA, cB: ca.take([0, 1]), (2,)),
                            ("sum-out", lambda o: A.sum(axis=0, out=o), lambda ca, cb, cA, cB: cA.sum(axis=0), (2,)),
                            ("cumsum-out", lambda o: A.cumsum(axis=0, out=o), lambda ca, cb, cA, cB: cA.cumsum(axis=0), (2, 2)),
                            ("max-out", lambda o: A.max(axis=1, out=o), lambda ca, cb, cA, cB: cA.max(axis=1), (2,)),
                            ("mean-out", lambda o: A.mean(axis=1, out=o), lambda ca, cb, cA, cB: cA.mean(axis=1), (2,)),
                            ("round-out", lambda o: A.round(1, out=o), lambda ca, cb, cA, cB: cA.round(1), (2, 2)),
                            ("clip-out", lambda o: A.clip(B.min(), B.max(), out=o), lambda ca, cb, cA, cB: cA.clip(cB.min(), cB.max()), (2, 2))):
                        if a.ndim == 0 and cname == "take-out":
                            continue
                        for oform in ("out-fresh", "out-int", "out-view", "out-bare"):
                            if np.dtype(dt).kind == "c" and oform == "out-int":
                                continue     # NumPy itself writes the real part into a real out= buffer and then refuses the imaginary part
                            o, oh = out_buffer(unyt, r, oform, shape, a)
                            from vf.monitors.c18_passive import deep_copy
                            memo = {}
                            ca, cb, cA, cB = (deep_copy(x, memo) for x in (a, b, A, B))
                            self.run(["method", cname, oform] + lab, fault or ("int-out-buffer" if oform == "out-int" else None), lambda: fn(o),
                                     manual=self.obs.manual("method/" + cname, inputs=[("a", a), ("b", b), ("A", A), ("B", B)], targets=[("out", o)],
                                                            twin=lambda: [twin(ca, cb, cA, cB)]))


class Env:
    """operands for one array-function template"""

    def __init__(self, unyt, r, aunit, bunit, dt, kind1, kind2):
        self.unyt = unyt; self.r = r; self.aunit = aunit; self.bunit = bunit; self.dt = dt; self.kind1 = kind1; self.kind2 = kind2
        self.refresh()

    def refresh(self):
        unyt, r = self.unyt, self.r
        self.a, self._ha = mk(unyt, r, self.aunit, self.dt, self.kind1)
        self.A, self._hA = mk(unyt, r, self.aunit, self.dt, self.kind2)
        if self.bunit is None:
            self.b = like(unyt, r, self.a, None, bare=True)
            self.B = like(unyt, r, self.A, None, bare=True)
            self.q = r.uniform(1, 9)
        else:
            self.b = like(unyt, r, self.a, self.bunit)
            self.B = like(unyt, r, self.A, self.bunit)
            self.q = unyt.unyt_quantity(r.uniform(1, 9), self.bunit)

    def out(self, form, shape, unit="kg"):
        o, h = out_buffer(self.unyt, self.r, form, tuple(shape), self.a)
        self._ho = h
        return o


def _outs(call, shape_of):
    """template forms for a function supporting out=: call(e, out) ; shape_of(e) -> shape of the result"""
    d = {"plain": lambda e: call(e, None)}
    for form in ("out-fresh", "out-int", "out-i1", "out-bare", "out-view"):
        d[form] = (lambda e, form=form: call(e, e.out(form, shape_of(e))))
    return d


def _n(e):
    return e.a.shape[0] if e.a.ndim else 1


FUNCS = {
    "concatenate": _outs(lambda e, o: np.concatenate([e.a, e.b], out=o) if o is not None else np.concatenate([e.a, e.b]), lambda e: (2 * _n(e),)),
    "concatenate-3": {"plain": lambda e: np.concatenate((e.a, e.b, e.a)), "axis1": lambda e: np.concatenate([e.A, e.B], axis=1)},
    "stack": _outs(lambda e, o: np.stack([e.a, e.b], out=o) if o is not None else np.stack([e.a, e.b]), lambda e: (2, _n(e))),
    "vstack": {"plain": lambda e: np.vstack([e.a, e.b])}, "hstack": {"plain": lambda e: np.hstack([e.a, e.b])},
    "dstack": {"plain": lambda e: np.dstack([e.a, e.b])}, "column_stack": {"plain": lambda e: np.column_stack([e.a, e.b])},
    "block": {"plain": lambda e: np.block([e.a, e.b])},
    "around": _outs(lambda e, o: np.around(e.a, 1, out=o) if o is not None else np.around(e.a, 1), lambda e: e.a.shape),
    "round": _outs(lambda e, o: np.round(e.A, 1, out=o) if o is not None else np.round(e.A), lambda e: e.A.shape),
    "clip": _outs(lambda e, o: np.clip(e.a, e.b.min(), e.b.max(), out=o) if o is not None else np.clip(e.a, e.b.min(), e.b.max()), lambda e: e.a.shape),
    "clip-self": {"out-self": lambda e: np.clip(e.a, e.q, None, out=e.a), "bare-bounds": lambda e: np.clip(e.a, 1.0, 50.0)},
    "choose": _outs(lambda e, o: np.choose([0, 1], [e.a[:2], e.b[:2]], out=o) if o is not None else np.choose([0, 1], [e.a[:2], e.b[:2]]), lambda e: (2,)),
    "einsum": _outs(lambda e, o: np.einsum("ij,ij->i", e.A, e.B, out=o) if o is not None else np.einsum("ij,jk", e.A, e.B), lambda e: (2,)),
    "take": _outs(lambda e, o: np.take(e.a, [0, 1], out=o) if o is not None else np.take(e.a, [0, 1]), lambda e: (2,)),
    "dot": _outs(lambda e, o: np.dot(e.A, e.B, out=o) if o is not None else np.dot(e.a, e.b), lambda e: (2, 2)),
    "outer": _outs(lambda e, o: np.outer(e.a, e.b, out=o) if o is not None else np.outer(e.a, e.b), lambda e: (e.a.size, e.a.size)),
    "sum": _outs(lambda e, o: np.sum(e.A, axis=0, out=o) if o is not None else np.sum(e.a), lambda e: (2,)),
    "mean": _outs(lambda e, o: np.mean(e.A, axis=0, out=o) if o is not None else np.mean(e.a), lambda e: (2,)),
    "cumsum": _outs(lambda e, o: np.cumsum(e.a, out=o) if o is not None else np.cumsum(e.a), lambda e: (e.a.size,)),
    "max": _outs(lambda e, o: np.max(e.A, axis=1, out=o) if o is not None else np.max(e.a), lambda e: (2,)),
    "min": _outs(lambda e, o: np.min(e.A, axis=1, out=o) if o is not None else np.min(e.a), lambda e: (2,)),
    "std": _outs(lambda e, o: np.std(e.A, axis=1, out=o) if o is not None else np.std(e.a), lambda e: (2,)),
    "var": _outs(lambda e, o: np.var(e.A, axis=1, out=o) if o is not None else np.var(e.a), lambda e: (2,)),
    "prod": _outs(lambda e, o: np.prod(e.A, axis=1, out=o) if o is not None else np.prod(e.a), lambda e: (2,)),
    "cumprod": _outs(lambda e, o: np.cumprod(e.a, out=o) if o is not None else np.cumprod(e.a), lambda e: (e.a.size,)),
    "median": _outs(lambda e, o: np.median(e.A, axis=0, out=o) if o is not None else np.median(e.a), lambda e: (2,)),
    "percentile": _outs(lambda e, o: np.percentile(e.A, 30, axis=0, out=o) if o is not None else np.percentile(e.a, 30), lambda e: (2,)),
    "quantile": _outs(lambda e, o: np.quantile(e.A, 0.3, axis=0, out=o) if o is not None else np.quantile(e.a, 0.3), lambda e: (2,)),
    "nanpercentile": _outs(lambda e, o: np.nanpercentile(e.A, 30, axis=0, out=o) if o is not None else np.nanpercentile(e.a, 30), lambda e: (2,)),
    "nanquantile": _outs(lambda e, o: np.nanquantile(e.A, 0.3, axis=0, out=o) if o is not None else np.nanquantile(e.a, 0.3), lambda e: (2,)),
    "nanmean": _outs(lambda e, o: np.nanmean(e.A, axis=0, out=o) if o is not None else np.nanmean(e.a), lambda e: (2,)),
    "nanmedian": _outs(lambda e, o: np.nanmedian(e.A, axis=0, out=o) if o is not None else np.nanmedian(e.a), lambda e: (2,)),
    "nanmax": _outs(lambda e, o: np.nanmax(e.A, axis=0, out=o) if o is not None else np.nanmax(e.a), lambda e: (2,)),
    "argmax": _outs(lambda e, o: np.argmax(e.A, axis=0, out=o) if o is not None else np.argmax(e.a), lambda e: (2,)),
    "any": _outs(lambda e, o: np.any(e.A, axis=0, out=o) if o is not None else np.any(e.a), lambda e: (2,)),
    "nansum": _outs(lambda e, o: np.nansum(e.A, axis=0, out=o) if o is not None else np.nansum(e.a), lambda e: (2,)),
    "ptp": _outs(lambda e, o: np.ptp(e.A, axis=0, out=o) if o is not None else np.ptp(e.a), lambda e: (2,)),
    "trace": _outs(lambda e, o: np.trace(e.A, out=o) if o is not None else np.trace(e.A), lambda e: ()),
    "matmul-func": _outs(lambda e, o: np.matmul(e.A, e.B, out=o) if o is not None else np.matmul(e.A, e.B), lambda e: (2, 2)),
    "linalg": {"inv": lambda e: np.linalg.inv(e.A), "det": lambda e: np.linalg.det(e.A), "solve": lambda e: np.linalg.solve(e.A, e.B),
               "norm": lambda e: np.linalg.norm(e.a), "eig": lambda e: np.linalg.eigvals(e.A), "svd": lambda e: np.linalg.svd(e.A),
               "pinv": lambda e: np.linalg.pinv(e.A), "lstsq": lambda e: np.linalg.lstsq(e.A, e.B, rcond=None)},
    "copyto": {"inplace": lambda e: np.copyto(e.a, e.b), "scalar": lambda e: np.copyto(e.a, e.q), "where": lambda e: np.copyto(e.A, e.B, where=np.eye(2, dtype=bool)),
               "bare-dst": lambda e: np.copyto(np.zeros(e.a.shape), e.a)},
    "put": {"inplace": lambda e: np.put(e.a, [0, 1], e.b[:2] if np.ndim(e.b) else e.b), "scalar": lambda e: np.put(e.a, [0], e.q), "bare": lambda e: np.put(e.a, [0], 2.5)},
    "place": {"inplace": lambda e: np.place(e.a, nd_mask(e.a), e.b), "scalar": lambda e: np.place(e.a, nd_mask(e.a), e.q)},
    "putmask": {"inplace": lambda e: np.putmask(e.a, nd_mask(e.a), e.b), "scalar": lambda e: np.putmask(e.a, nd_mask(e.a), e.q), "2d": lambda e: np.putmask(e.A, np.eye(2, dtype=bool), e.B)},
    "put_along_axis": {"inplace": lambda e: np.put_along_axis(e.A, np.array([[0], [1]]), e.B[:, :1], 1), "scalar": lambda e: np.put_along_axis(e.A, np.array([[0], [1]]), e.q, 1)},
    "fill_diagonal": {"inplace": lambda e: np.fill_diagonal(e.A, e.q), "bare": lambda e: np.fill_diagonal(e.A, 1.5), "array": lambda e: np.fill_diagonal(e.A, e.b[:2] if np.ndim(e.b) else e.b)},
    "where": {"3arg": lambda e: np.where(nd_mask(e.a), e.a, e.b), "1arg": lambda e: np.where(e.a), "scalar": lambda e: np.where(nd_mask(e.a), e.a, e.q)},
    "select": {"plain": lambda e: np.select([nd_mask(e.a)], [e.a], e.q)}, "insert": {"plain": lambda e: np.insert(e.a, 1, e.q), "array": lambda e: np.insert(e.a, [1], e.b[:1] if np.ndim(e.b) else e.b)},
    "append": {"plain": lambda e: np.append(e.a, e.b), "scalar": lambda e: np.append(e.a, e.q)}, "delete": {"plain": lambda e: np.delete(e.a, 0)},
    "sets": {"intersect1d": lambda e: np.intersect1d(e.a, e.b), "union1d": lambda e: np.union1d(e.a, e.b), "setdiff1d": lambda e: np.setdiff1d(e.a, e.b),
             "isin": lambda e: np.isin(e.a, e.b), "unique": lambda e: np.unique(e.a), "setxor1d": lambda e: np.setxor1d(e.a, e.b)},
    "compare": {"isclose": lambda e: np.isclose(e.a, e.b), "allclose": lambda e: np.allclose(e.a, e.b), "array_equal": lambda e: np.array_equal(e.a, e.b),
                "array_equiv": lambda e: np.array_equiv(e.a, e.b)},
    "spaces": {"linspace": lambda e: np.linspace(e.a[0] if e.a.ndim else e.a, e.b[0] if np.ndim(e.b) else e.b, 4), "linspace-arr": lambda e: np.linspace(e.a, e.b, 3),
               "geomspace": lambda e: np.geomspace(e.q, e.q * 8, 3), "logspace": lambda e: np.logspace(e.a, e.b, 2)},
    "products": {"cross": lambda e: np.cross(np.resize(e.a, 3), np.resize(e.b, 3)), "kron": lambda e: np.kron(e.a, e.b), "inner": lambda e: np.inner(e.a, e.b),
                 "vdot": lambda e: np.vdot(e.a, e.b), "tensordot": lambda e: np.tensordot(e.A, e.B), "convolve": lambda e: np.convolve(e.a, e.b),
                 "correlate": lambda e: np.correlate(e.a, e.b)},
    "shape-ops": {"sort": lambda e: np.sort(e.a), "argsort": lambda e: np.argsort(e.a), "roll": lambda e: np.roll(e.a, 1), "flip": lambda e: np.flip(e.a),
                  "reshape": lambda e: np.reshape(e.A, 4), "transpose": lambda e: np.transpose(e.A), "squeeze": lambda e: np.squeeze(e.a), "ravel": lambda e: np.ravel(e.A),
                  "tile": lambda e: np.tile(e.a, 2), "repeat": lambda e: np.repeat(e.a, 2), "pad": lambda e: np.pad(e.a, 1) if e.a.ndim else None,
                  "triu": lambda e: np.triu(e.A), "tril": lambda e: np.tril(e.A), "diag": lambda e: np.diag(e.A), "broadcast_to": lambda e: np.broadcast_to(e.a, (2,) + e.a.shape, subok=True),
                  "atleast_2d": lambda e: np.atleast_2d(e.a), "expand_dims": lambda e: np.expand_dims(e.a, 0), "swapaxes": lambda e: np.swapaxes(e.A, 0, 1),
                  "partition": lambda e: np.partition(e.a, 1) if e.a.size > 1 else None, "copy": lambda e: np.copy(e.a), "asarray": lambda e: np.asarray(e.a),
                  "array-copy": lambda e: np.array(e.a, subok=True), "ones_like": lambda e: np.ones_like(e.a), "zeros_like": lambda e: np.zeros_like(e.a),
                  "full_like": lambda e: np.full_like(e.a, e.q), "nan_to_num": lambda e: np.nan_to_num(e.a), "nan_to_num-inplace": lambda e: np.nan_to_num(e.a, copy=False),
                  "real": lambda e: np.real(e.a), "imag": lambda e: np.imag(e.a), "split": lambda e: np.array_split(e.a, 2) if e.a.ndim else None},
    "analysis": {"diff": lambda e: np.diff(e.a), "ediff1d": lambda e: np.ediff1d(e.a), "gradient": lambda e: np.gradient(e.a) if e.a.size > 1 else None,
                 "interp": lambda e: np.interp(e.a, np.sort(e.a), e.b), "searchsorted": lambda e: np.searchsorted(np.sort(e.a), e.q), "histogram": lambda e: np.histogram(e.a, bins=3),
                 "histogram2d": lambda e: np.histogram2d(e.a, e.b, bins=2), "histogramdd": lambda e: np.histogramdd((e.a, e.b), bins=2), "bincount-w": lambda e: np.bincount([0, 1], weights=e.a[:2]),
                 "digitize": lambda e: np.digitize(e.a, np.sort(e.b)), "trapezoid": lambda e: np.trapezoid(e.a, e.b), "cov": lambda e: np.cov(e.A), "corrcoef": lambda e: np.corrcoef(e.A),
                 "average-w": lambda e: np.average(e.a, weights=e.b), "fft": lambda e: np.fft.fft(e.a), "ifft": lambda e: np.fft.ifft(e.a), "fftshift": lambda e: np.fft.fftshift(e.a),
                 "unwrap": lambda e: np.unwrap(e.a), "sinc": lambda e: np.sinc(e.a), "apply_along_axis": lambda e: np.apply_along_axis(np.sum, 0, e.A),
                 "apply_over_axes": lambda e: np.apply_over_axes(np.sum, e.A, [0]), "sort_complex": lambda e: np.sort_complex(e.a), "array2string": lambda e: np.array2string(e.a),
                 "array_repr": lambda e: np.array_repr(e.a), "savetxt": lambda e: np.savetxt(os.devnull, e.a.reshape(-1))},
}


def nd_mask(a):
    m = np.zeros(a.shape, dtype=bool)
    if m.ndim:
        m[::2] = True
    else:
        m = np.array(True)
    return m


# ---------------------------------------------------------------------------------------------- evidence
def extra(tier, seed, results):
    counters = {}
    reached = set()
    cells = set()
    for bid, rr in results:
        for k, v in rr.get("counters", {}).items():
            counters[k] = counters.get(k, 0) + v
        reached.update(rr.get("reached", []))
        cells.update(rr.get("cells", []))
    sub = {"input": 0, "failed-target": 0, "outside": 0, "twin": 0, "rescaled-operand": 0, "spelled-operand": 0, "spelled-container": 0, "read-only-target": 0,
           "data-class-target": 0, "data-class-input": 0}
    grid = {"dtype": {}, "layout": {}, "position": {}, "outcome": {}}
    sgrid = {"family": {}, "route": {}, "partner": {}, "outcome": {}, "entry": {}}
    for c in cells:
        k = c.split("|", 1)[0]
        if k in sub:
            sub[k] += 1
        if k == "spelled-operand":
            p = c.split("|")
            entry = "ufunc" if p[1].startswith("ufunc/") else "function" if p[1].startswith("func/") else "unit-arithmetic" if p[1].startswith(("Unit.", "Unit/")) else \
                "in-place" if p[1].startswith("convert_to_") else "method"
            for dim, v in (("family", p[3]), ("route", p[4]), ("partner", p[5]), ("outcome", p[6]), ("entry", entry)):
                sgrid[dim][v] = sgrid[dim].get(v, 0) + 1
        if k == "rescaled-operand":
            p = c.split("|")
            for dim, v in (("dtype", p[3]), ("layout", p[4]), ("position", p[2]), ("outcome", p[5])):
                grid[dim][v] = grid[dim].get(v, 0) + 1
    # data-dependent faults: cells (data-class-target, op, family, data class, policy, outcome, how) / (data-class-input, op, path, family, data class, policy, outcome)
    dgrid = {"family": {}, "class": {}, "policy": {}, "outcome": {}, "raised-by-exception": {}, "input-class": {}, "input-outcome": {}}
    for c in cells:
        p = c.split("|")
        if p[0] == "data-class-target":
            for dim, v in (("family", p[2]), ("class", p[3]), ("policy", p[4]), ("outcome", p[5])):
                dgrid[dim][v] = dgrid[dim].get(v, 0) + 1
            if p[5] == "raised":
                k = p[4] + ":" + p[6]
                dgrid["raised-by-exception"][k] = dgrid["raised-by-exception"].get(k, 0) + 1
        elif p[0] == "data-class-input":
            dgrid["input-class"][p[4]] = dgrid["input-class"].get(p[4], 0) + 1
            dgrid["input-outcome"][p[6]] = dgrid["input-outcome"].get(p[6], 0) + 1
    fault_seen = {f: counters.get(f"fault:{f}:raised", 0) for f in FAULTS}
    fault_returned = {f: counters.get(f"fault:{f}:returned", 0) for f in FAULTS}
    failed_by_exc = {}
    for c in cells:
        p = c.split("|")
        if p[0] == "failed-target":
            failed_by_exc[p[2]] = failed_by_exc.get(p[2], 0) + 1
    tap_names = ["__array_ufunc__", "__array_function__", "__getitem__", "__setitem__", "to", "in_units", "in_base", "in_cgs", "in_mks", "to_value",
                 "to_equivalent", "copy", "convert_to_units", "convert_to_base", "convert_to_cgs", "convert_to_mks", "convert_to_equivalent",
                 "Unit.__mul__", "Unit.__truediv__", "Unit.__pow__", "Unit.get_base_equivalent", "Unit.as_coeff_unit", "Unit.copy"]
    unreached_taps = [t for t in tap_names if not counters.get("tap:" + t, 0)]
    ufs = {u.__name__ for u in vars(np).values() if isinstance(u, np.ufunc)}
    unreached_ufuncs = sorted(u for u in ufs if not any(x.startswith(f"ufunc/{u}/") for x in reached))
    unreached_funcs = sorted(n for n in ("concatenate", "stack", "around", "clip", "choose", "einsum", "take", "dot", "outer", "copyto", "put", "place", "putmask",
                                          "put_along_axis", "fill_diagonal") if not any(x.startswith("func/" + n) for x in reached))
    npcat = sorted(x[len("npcat:"):] for x in reached if x.startswith("npcat:"))
    ro_fams = ("convert", "convert-equivalence", "augmented-assignment", "ufunc-out", "ufunc-at", "ufunc-method-out", "function-out", "item-assignment")
    ro_layouts = {}
    for c in cells:
        p = c.split("|")
        if p[0] == "read-only-target":
            ro_layouts[p[4]] = ro_layouts.get(p[4], 0) + 1
    ev = {"npcatalog_functions_driven": len(npcat), "read_only_target_calls": {k: v for k, v in counters.items() if k.startswith("rotarget:")},
          "read_only_target_cells_by_layout": ro_layouts, "sub_monitor_cells": sub, "rescaled_operand_cells": grid, "spelled_operand_cells": sgrid, "data_class_cells": dgrid,
          "data_class_calls": {k: v for k, v in counters.items() if k.startswith("datadep:")},
          "spelled_operand_calls": {k: v for k, v in counters.items() if k.startswith("spelled:")},
          "rescaled_operand_calls": {k: v for k, v in counters.items() if k.startswith("rescale:")}, "faults_raised": fault_seen, "faults_returned": fault_returned, "failed_target_cells_by_exception": failed_by_exc,
          "unreached": {"taps": unreached_taps, "ufuncs": unreached_ufuncs, "out_functions": unreached_funcs},
          "raise_sites_hit": sorted(x[len("raise-site:"):] for x in reached if x.startswith("raise-site:"))[:200],
          "events": {k: v for k, v in counters.items() if k.startswith("event:")},
          "not_compared": {k: v for k, v in counters.items() if "not-compar" in k or "not-comput" in k or k.startswith("twin-")},
          "suite": {k: v for k, v in counters.items() if k.startswith("suite:") and "tapcalls" not in k and not k.startswith("suite:tap:")}}
    for k, v in sub.items():
        if v == 0:
            raise core.Inconclusive(f"sub-monitor '{k}' was never evaluated")
    want = [("dtype", np.dtype(d).str.replace("|", "")) for d in R_DTYPES[tier]] + [("layout", x) for x in R_LAYOUTS[tier]] + [("position", "in0"), ("position", "in1"),
                                                                                                        ("outcome", "returned"), ("outcome", "raised")]
    unseen = [f"{dim}={v}" for dim, v in want if not grid[dim].get(v, 0)]
    if unseen:
        raise core.Inconclusive("rescaled-operand sweep never judged: " + ",".join(unseen))
    swant = [("family", f) for f in SPL.FAMILIES] + [("route", x) for x in SPL.ROUTES] + [("route", "unit/" + x) for x in S_UNIT_ROUTES] + \
        [("partner", k) for k in SPL.PARTNER_KINDS] + [("partner", k) for k in ("none-unary", "none-method", "none-function", "none-unit")] + \
        [("outcome", "returned"), ("outcome", "raised")] + [("entry", e) for e in ("ufunc", "function", "unit-arithmetic", "in-place", "method")]
    unseen = [f"{dim}={v}" for dim, v in swant if not sgrid[dim].get(v, 0)]
    if unseen:
        raise core.Inconclusive("spelled-operand sweep never judged: " + ",".join(unseen))
    if not counters.get("spelled:spelling-reducible", 0) or counters.get("spelled:spelling-reducible", 0) * 2 < counters.get("spelled:spellings", 0):
        raise core.Inconclusive("spelled-operand sweep: the generated spellings are not in non-reduced form (simplify() on a copy leaves most of them as they are)")
    if not counters.get("spelled:repeat-calls", 0):
        raise core.Inconclusive("spelled-operand sweep: no call was repeated on the same operands (memoised path)")
    unseen = [f for f in ro_fams if not counters.get(f"rotarget:{f}:raised", 0)] + [x for x in RO_LAYOUTS if not ro_layouts.get(x, 0)]
    if unseen:
        raise core.Inconclusive("read-only targets: in-place call families / layouts never seen to fail on one: " + ",".join(unseen))
    unseen = [f"family={f}" for f in DD.FAMILIES if not dgrid["family"].get(f, 0)] + [f"class={c}" for c in DD.DCLASSES if not dgrid["class"].get(c, 0)] + \
        [f"policy={x}" for x in DD.POLICIES if not dgrid["policy"].get(x, 0)] + [f"outcome={x}" for x in ("returned", "raised") if not dgrid["outcome"].get(x, 0)] + \
        [f"input-class={c}" for c in DD.DCLASSES if not dgrid["input-class"].get(c, 0)] + \
        [f"calls:{f}" for f in DD.FAMILIES if not (counters.get(f"datadep:{f}:returned", 0) + counters.get(f"datadep:{f}:raised", 0))]
    if unseen:
        raise core.Inconclusive("data-dependent faults: the target of an in-place call was never judged for: " + ",".join(unseen))
    missing = [f for f, n in fault_seen.items() if n == 0]
    if missing:
        raise core.Inconclusive("injected fault kinds that never made a call raise: " + ",".join(missing))
    if unreached_taps:
        raise core.Inconclusive("tapped entry points never called: " + ",".join(unreached_taps))
    if tier == "thorough" and not counters.get("suite:tests-passed", 0):
        raise core.Inconclusive("repository test suite was not observed")
    return ev
